/-
  Helper lemmas for C06 (TB/Props/C06.lean).
-/
import TB.Model.Pieces
import TB.Model.Torrent
import TB.Spec.LayoutSpec
namespace TB

/-! ### prefix sums -/

/-- global position of a cursor (file index, bytes remaining in that file) -/
def gpos (files : List Nat) (fi rem : Nat) : Nat := base files fi + (files[fi]! - rem)

theorem base_succ (files : List Nat) (i : Nat) (h : i < files.length) :
    base files (i+1) = base files i + files[i] := by
  unfold base
  rw [List.take_add_one, List.sum_append, List.getElem?_eq_getElem h]
  simp

theorem base_le (files : List Nat) (i : Nat) : base files i ≤ files.sum := by
  unfold base
  have := List.take_append_drop i files
  have h2 : files.sum = (files.take i).sum + (files.drop i).sum := by
    rw [← List.sum_append, this]
  omega

theorem base_all (files : List Nat) : base files files.length = files.sum := by simp [base]

theorem base_zero (files : List Nat) : base files 0 = 0 := by simp [base]

theorem gpos_end (files : List Nat) : gpos files files.length 0 = files.sum := by
  simp [gpos, base_all]

/-! ### the interval spec, restarted from file `fi` -/

theorem expAux_nil_of_hi_le (lo hi : Nat) :
    ∀ (l : List Nat) (idx b : Nat), hi ≤ b → expectedSegsAux lo hi l idx b = [] := by
  intro l
  induction l with
  | nil => intros; simp [expectedSegsAux]
  | cons n rest ih =>
    intro idx b h
    have h1 : ¬ (max lo b < min hi (b + n)) := by omega
    simp only [expectedSegsAux, h1, if_false, List.nil_append]
    exact ih _ _ (by omega)

theorem expAux_lo_congr (lo lo' hi : Nat) :
    ∀ (l : List Nat) (idx b : Nat), lo ≤ b → lo' ≤ b →
      expectedSegsAux lo hi l idx b = expectedSegsAux lo' hi l idx b := by
  intro l
  induction l with
  | nil => intros; simp [expectedSegsAux]
  | cons n rest ih =>
    intro idx b h h'
    have h1 : max lo b = b := by omega
    have h2 : max lo' b = b := by omega
    simp only [expectedSegsAux, h1, h2]
    rw [ih _ _ (by omega) (by omega)]

def expFrom (files : List Nat) (lo hi fi : Nat) : List Seg :=
  expectedSegsAux lo hi (files.drop fi) fi (base files fi)

theorem expFrom_step (files : List Nat) (lo hi fi : Nat) (hfi : fi < files.length) :
    expFrom files lo hi fi =
      (if max lo (base files fi) < min hi (base files (fi+1)) then
        [⟨fi, max lo (base files fi) - base files fi,
          min hi (base files (fi+1)) - max lo (base files fi), files[fi]⟩] else [])
      ++ expFrom files lo hi (fi+1) := by
  unfold expFrom
  rw [List.drop_eq_getElem_cons hfi]
  simp only [expectedSegsAux, base_succ files fi hfi]

theorem expFrom_end (files : List Nat) (lo hi : Nat) : expFrom files lo hi files.length = [] := by
  simp [expFrom, expectedSegsAux]

theorem expFrom_nil_of_hi_le (files : List Nat) (lo hi fi : Nat) (h : hi ≤ base files fi) :
    expFrom files lo hi fi = [] := expAux_nil_of_hi_le _ _ _ _ _ h

theorem expFrom_lo_congr (files : List Nat) (lo lo' hi fi : Nat)
    (h : lo ≤ base files fi) (h' : lo' ≤ base files fi) :
    expFrom files lo hi fi = expFrom files lo' hi fi := expAux_lo_congr _ _ _ _ _ _ h h'

theorem expFrom_zero_eq (files : List Nat) (lo hi : Nat) :
    ∀ fi, fi ≤ files.length → base files fi ≤ lo → expFrom files lo hi 0 = expFrom files lo hi fi := by
  intro fi
  induction fi with
  | zero => intros; rfl
  | succ k ih =>
    intro hk hb
    have hk' : k < files.length := by omega
    have hs := base_succ files k hk'
    rw [ih (by omega) (by omega), expFrom_step files lo hi k hk']
    have : ¬ (max lo (base files k) < min hi (base files (k+1))) := by omega
    simp [this]

/-! ### postcondition of the inner loop -/

theorem expAux_nil_of_hi_le_lo (lo hi : Nat) (hh : hi ≤ lo) :
    ∀ (l : List Nat) (idx b : Nat), expectedSegsAux lo hi l idx b = [] := by
  intro l
  induction l with
  | nil => intros; simp [expectedSegsAux]
  | cons n rest ih =>
    intro idx b
    have h1 : ¬ (max lo b < min hi (b + n)) := by omega
    simp only [expectedSegsAux, h1, if_false, List.nil_append]
    exact ih _ _

def CursorOk (files : List Nat) (fi rem : Nat) : Prop :=
  (fi = files.length ∧ rem = 0) ∨
  (fi < files.length ∧ rem ≤ files[fi]! ∧ (rem = 0 → files[fi]! = 0))

def SegOk (files : List Nat) (s : Seg) : Prop :=
  some s.flen = files[s.file]? ∧ s.off + s.len ≤ s.flen ∧ (s.len = 0 → s.flen = 0)

structure FillPost (files : List Nat) (lo n fi : Nat) (segs : List Seg) (fi' rem' : Nat) : Prop where
  flat : segs.flatMap (addr files) = List.range' lo n
  pos : gpos files fi' rem' = lo + n
  cursor : CursorOk files fi' rem'
  segok : ∀ s ∈ segs, SegOk files s
  lower : ∀ s ∈ segs, fi ≤ s.file
  incr : (segs.map (·.file)).Pairwise (· < ·)
  sumlen : (segs.map (·.len)).sum = n
  closed : segs.filter (fun s => s.len > 0) = expFrom files lo (lo + n) fi

theorem FillPost_nil (files : List Nat) (fi rem : Nat) (hc : CursorOk files fi rem) :
    FillPost files (gpos files fi rem) 0 fi [] fi rem where
  flat := by simp
  pos := by simp
  cursor := hc
  segok := by simp
  lower := by simp
  incr := by simp
  sumlen := by simp
  closed := by
    simp only [List.filter_nil, Nat.add_zero, expFrom]
    exact (expAux_nil_of_hi_le_lo _ _ (Nat.le_refl _) _ _ _).symm

theorem FillPost_single (files : List Nat) (fi rem n fi' rem' : Nat) (hfi : fi < files.length)
    (hrem : rem ≤ files[fi]) (hn : n ≤ rem) (hn0 : n = 0 → files[fi] = 0)
    (hpos : gpos files fi' rem' = gpos files fi rem + n) (hc : CursorOk files fi' rem') :
    FillPost files (gpos files fi rem) n fi [⟨fi, files[fi] - rem, n, files[fi]⟩] fi' rem' := by
  have hbang : files[fi]! = files[fi] := by simp [hfi]
  have hb1 := base_succ files fi hfi
  have hg : gpos files fi rem = base files fi + (files[fi] - rem) := by simp [gpos, hbang]
  refine ⟨?_, hpos, hc, ?_, ?_, ?_, ?_, ?_⟩
  · simp [addr, hg]
  · intro s hs
    simp only [List.mem_singleton] at hs
    subst hs
    refine ⟨by simp [hfi], ?_, ?_⟩
    · show files[fi] - rem + n ≤ files[fi]; omega
    · exact hn0
  · intro s hs
    simp only [List.mem_singleton] at hs
    subst hs; exact Nat.le_refl _
  · simp
  · simp
  · rw [expFrom_step files _ _ fi hfi, expFrom_nil_of_hi_le files _ _ (fi+1) (by omega)]
    by_cases h0 : n = 0
    · have : ¬ (max (gpos files fi rem) (base files fi) < min (gpos files fi rem + n) (base files (fi+1))) := by omega
      rw [if_neg this]
      simp [h0]
    · have : (max (gpos files fi rem) (base files fi) < min (gpos files fi rem + n) (base files (fi+1))) := by omega
      simp only [this, if_true, List.append_nil]
      have h1 : max (gpos files fi rem) (base files fi) - base files fi = files[fi] - rem := by omega
      have h2 : min (gpos files fi rem + n) (base files (fi+1)) - max (gpos files fi rem) (base files fi) = n := by omega
      rw [h1, h2]
      simp [List.filter, Nat.pos_of_ne_zero h0]

theorem FillPost_cons (files : List Nat) (fi rem n fi' rem' : Nat) (segs : List Seg)
    (hfi : fi < files.length) (hrem : rem ≤ files[fi]) (h0 : rem = 0 → files[fi] = 0)
    (ih : FillPost files (gpos files fi rem + rem) n (fi+1) segs fi' rem') :
    FillPost files (gpos files fi rem) (rem + n) fi (⟨fi, files[fi] - rem, rem, files[fi]⟩ :: segs) fi' rem' := by
  have hbang : files[fi]! = files[fi] := by simp [hfi]
  have hb1 := base_succ files fi hfi
  have hg : gpos files fi rem = base files fi + (files[fi] - rem) := by simp [gpos, hbang]
  refine ⟨?_, ?_, ih.cursor, ?_, ?_, ?_, ?_, ?_⟩
  · simp only [List.flatMap_cons, ih.flat, addr, ← hg]
    rw [List.range'_append_1]
  · rw [ih.pos]; omega
  · intro s hs
    rcases List.mem_cons.1 hs with rfl | hs
    · refine ⟨by simp [hfi], ?_, h0⟩
      show files[fi] - rem + rem ≤ files[fi]; omega
    · exact ih.segok s hs
  · intro s hs
    rcases List.mem_cons.1 hs with rfl | hs
    · exact Nat.le_refl _
    · have := ih.lower s hs; omega
  · simp only [List.map_cons, List.pairwise_cons]
    refine ⟨?_, ih.incr⟩
    intro a ha
    obtain ⟨s, hs, rfl⟩ := List.mem_map.1 ha
    have := ih.lower s hs; omega
  · simp [ih.sumlen]
  · rw [expFrom_step files _ _ fi hfi,
      expFrom_lo_congr files (gpos files fi rem) (gpos files fi rem + rem) _ (fi+1) (by omega) (by omega)]
    have hcl := ih.closed
    rw [show gpos files fi rem + rem + n = gpos files fi rem + (rem + n) by omega] at hcl
    rw [← hcl]
    by_cases hr : rem = 0
    · have : ¬ (max (gpos files fi rem) (base files fi) < min (gpos files fi rem + (rem + n)) (base files (fi+1))) := by omega
      rw [if_neg this]
      simp [List.filter, hr]
    · have : (max (gpos files fi rem) (base files fi) < min (gpos files fi rem + (rem + n)) (base files (fi+1))) := by omega
      simp only [this, if_true]
      have h1 : max (gpos files fi rem) (base files fi) - base files fi = files[fi] - rem := by omega
      have h2 : min (gpos files fi rem + (rem + n)) (base files (fi+1)) - max (gpos files fi rem) (base files fi) = rem := by omega
      rw [h1, h2]
      simp [List.filter, Nat.pos_of_ne_zero hr]

/-! ### the inner loop -/

theorem fill_done (L : Nat) (files : List Nat) (n counted fi rem : Nat) (acc : List Seg)
    (h : ¬ counted < L) :
    fill L files (n+1) counted fi rem acc = some (acc, fi, rem) := by
  unfold fill; simp [h]

/-- one iteration of the inner loop, case "the piece ends inside the current file" -/
theorem fill_step_stop (L : Nat) (files : List Nat) (n counted fi rem : Nat) (acc : List Seg)
    (hc : counted < L) (hfi : fi < files.length) (hrem : rem ≤ files[fi]) (hgt : L - counted < rem) :
    fill L files (n+2) counted fi rem acc =
      some (acc ++ [⟨fi, files[fi] - rem, L - counted, files[fi]⟩], fi, rem - (L - counted)) := by
  have hget : files[fi]? = some files[fi] := List.getElem?_eq_getElem hfi
  rw [fill]
  have h1 : ¬ files[fi] < rem := by omega
  have h2 : rem ≥ L - counted := by omega
  have h3 : ¬ (rem - (L - counted) = 0) := by omega
  simp only [hc, if_true, hget, h1, if_false, h2, h3]
  rw [fill_done _ _ _ _ _ _ _ (by omega)]
  have h4 : rem - (rem - (L - counted)) = L - counted := by omega
  rw [h4]

theorem fill_step_last (L : Nat) (files : List Nat) (n counted fi rem : Nat) (acc : List Seg)
    (hc : counted < L) (hfi : fi < files.length) (hrem : rem ≤ files[fi]) (hle : rem ≤ L - counted)
    (hlast : fi + 1 = files.length) :
    fill L files (n+1) counted fi rem acc =
      some (acc ++ [⟨fi, files[fi] - rem, rem, files[fi]⟩], fi + 1, 0) := by
  have hget : files[fi]? = some files[fi] := List.getElem?_eq_getElem hfi
  rw [fill]
  have h1 : ¬ files[fi] < rem := by omega
  have h3 : (if rem ≥ L - counted then rem - (L - counted) else 0) = 0 := by split <;> omega
  simp only [hc, if_true, hget, h1, if_false, h3, hlast, Nat.sub_zero]

theorem fill_step_next (L : Nat) (files : List Nat) (n counted fi rem : Nat) (acc : List Seg)
    (hc : counted < L) (hfi : fi < files.length) (hrem : rem ≤ files[fi]) (hle : rem ≤ L - counted)
    (hnext : fi + 1 < files.length) :
    fill L files (n+1) counted fi rem acc =
      fill L files n (counted + rem) (fi + 1) files[fi+1] (acc ++ [⟨fi, files[fi] - rem, rem, files[fi]⟩]) := by
  have hget : files[fi]? = some files[fi] := List.getElem?_eq_getElem hfi
  have hget' : files[fi+1]? = some files[fi+1] := List.getElem?_eq_getElem hnext
  rw [fill]
  have h1 : ¬ files[fi] < rem := by omega
  have h3 : (if rem ≥ L - counted then rem - (L - counted) else 0) = 0 := by split <;> omega
  have h4 : (if rem ≥ L - counted then L else counted + rem) = counted + rem := by split <;> omega
  have h5 : ¬ (fi + 1 = files.length) := by omega
  simp only [hc, if_true, hget, h1, if_false, h3, h4, h5, hget', Nat.sub_zero]


theorem gpos_eq (files : List Nat) (fi rem : Nat) (hfi : fi < files.length) :
    gpos files fi rem = base files fi + (files[fi] - rem) := by
  simp [gpos, hfi]

theorem fill_spec (L : Nat) (files : List Nat) :
    ∀ fuel counted fi rem acc,
      counted ≤ L → (hfi : fi < files.length) → rem ≤ files[fi] → (rem = 0 → files[fi] = 0) →
      files.length - fi + 1 < fuel →
      ∃ segs fi' rem', fill L files fuel counted fi rem acc = some (acc ++ segs, fi', rem') ∧
        FillPost files (gpos files fi rem) (min (L - counted) (files.sum - gpos files fi rem)) fi
          segs fi' rem' := by
  intro fuel
  induction fuel with
  | zero => intro _ _ _ _ _ _ _ _ h; omega
  | succ n ih =>
    intro counted fi rem acc hcL hfi hrem h0 hfuel
    have hbang : files[fi]! = files[fi] := by simp [hfi]
    have hb1 := base_succ files fi hfi
    have hb2 := base_le files (fi+1)
    have hg := gpos_eq files fi rem hfi
    by_cases hc : counted < L
    · by_cases hgt : L - counted < rem
      · -- the piece ends inside file fi
        obtain ⟨m, rfl⟩ : ∃ m, n = m + 1 := ⟨n - 1, by omega⟩
        refine ⟨_, _, _, fill_step_stop L files m counted fi rem acc hc hfi hrem hgt, ?_⟩
        have hn : min (L - counted) (files.sum - gpos files fi rem) = L - counted := by omega
        rw [hn]
        refine FillPost_single files fi rem (L - counted) _ _ hfi hrem (by omega) (by omega) ?_ ?_
        · rw [gpos_eq files fi _ hfi, hg]; omega
        · refine Or.inr ⟨hfi, ?_, ?_⟩
          · rw [hbang]; omega
          · omega
      · by_cases hlast : fi + 1 = files.length
        · refine ⟨_, _, _, fill_step_last L files n counted fi rem acc hc hfi hrem (by omega) hlast, ?_⟩
          have hb3 : base files (fi+1) = files.sum := by rw [hlast]; exact base_all files
          have hn : min (L - counted) (files.sum - gpos files fi rem) = rem := by omega
          rw [hn]
          refine FillPost_single files fi rem rem _ _ hfi hrem (Nat.le_refl _) h0 ?_ ?_
          · rw [hlast, gpos_end]; omega
          · exact Or.inl ⟨hlast, rfl⟩
        · have hnext : fi + 1 < files.length := by omega
          have hg' : gpos files (fi+1) files[fi+1] = gpos files fi rem + rem := by
            rw [gpos_eq files (fi+1) _ hnext, hg]; omega
          obtain ⟨segs, fi', rem', heq, hpost⟩ :=
            ih (counted + rem) (fi+1) files[fi+1] (acc ++ [⟨fi, files[fi] - rem, rem, files[fi]⟩])
              (by omega) hnext (Nat.le_refl _) (fun h => h) (by omega)
          refine ⟨⟨fi, files[fi] - rem, rem, files[fi]⟩ :: segs, fi', rem', ?_, ?_⟩
          · rw [fill_step_next L files n counted fi rem acc hc hfi hrem (by omega) hnext, heq]
            simp
          · have hn : min (L - counted) (files.sum - gpos files fi rem) =
                rem + min (L - (counted + rem)) (files.sum - (gpos files fi rem + rem)) := by omega
            rw [hn]
            rw [hg'] at hpost
            exact FillPost_cons files fi rem _ fi' rem' segs hfi hrem h0 hpost
    · obtain ⟨m, rfl⟩ : ∃ m, n = m + 1 := ⟨n - 1, by omega⟩
      refine ⟨[], fi, rem, by rw [fill_done _ _ _ _ _ _ _ hc]; simp, ?_⟩
      have hn : min (L - counted) (files.sum - gpos files fi rem) = 0 := by omega
      rw [hn]
      exact FillPost_nil files fi rem (Or.inr ⟨hfi, by rw [hbang]; exact hrem, by rw [hbang]; exact h0⟩)

/-- the fuel `files.length + 2` given to `fill` by `multiLoop` is never exhausted (and no other
    panic is reached) from a cursor satisfying the loop invariant -/
theorem fill_fuel_enough (L : Nat) (files : List Nat) (fi rem : Nat) (hfi : fi < files.length)
    (hrem : rem ≤ files[fi]) (h0 : rem = 0 → files[fi] = 0) :
    (fill L files (files.length + 2) 0 fi rem []).isSome = true := by
  obtain ⟨segs, fi', rem', heq, _⟩ :=
    fill_spec L files (files.length + 2) 0 fi rem [] (Nat.zero_le _) hfi hrem h0 (by omega)
  rw [heq]; rfl

/-! ### the outer loop -/

structure PieceGood (L : Nat) (files : List Nat) (h : Bytes) (i : Nat) (p : Piece) : Prop where
  pos : p.pos = i
  hash : p.hash = h
  len : p.len = min L (files.sum - i * L)
  flat : p.segs.flatMap (addr files) = List.range' (i * L) (min L (files.sum - i * L))
  segok : ∀ s ∈ p.segs, SegOk files s
  incr : (p.segs.map (·.file)).Pairwise (· < ·)
  closed : p.segs.filter (fun s => s.len > 0) = expectedSegs L files i

theorem expFrom_zero (files : List Nat) (lo hi : Nat) :
    expFrom files lo hi 0 = expectedSegsAux lo hi files 0 0 := by
  simp [expFrom, base_zero]

theorem multi_spec (L : Nat) (files : List Nat) :
    ∀ (hs : List Bytes) (k fi rem : Nat), CursorOk files fi rem →
      gpos files fi rem = min (k * L) files.sum →
      (∀ j, j < hs.length → (k + j) * L < files.sum) →
      ∃ ps, multiLoop L files hs k fi rem = some ps ∧ ps.length = hs.length ∧
        (∀ j (h1 : j < ps.length) (h2 : j < hs.length), PieceGood L files hs[j] (k + j) ps[j]) ∧
        ps.flatMap (fun p => p.segs.flatMap (addr files)) =
          List.range' (min (k * L) files.sum) (min ((k + hs.length) * L) files.sum - min (k * L) files.sum) := by
  intro hs
  induction hs with
  | nil =>
    intro k fi rem _ _ _
    refine ⟨[], by simp [multiLoop], rfl, ?_, ?_⟩
    · intro j h1; simp at h1
    · simp
  | cons h t ih =>
    intro k fi rem hcur hg hlt
    have hk : k * L < files.sum := by simpa using hlt 0 (by simp)
    have hg0 : gpos files fi rem = k * L := by omega
    rcases hcur with ⟨rfl, rfl⟩ | ⟨hfi, hrem, h0⟩
    · rw [gpos_end] at hg0; omega
    · have hbang : files[fi]! = files[fi] := by simp [hfi]
      rw [hbang] at hrem h0
      obtain ⟨segs, fi', rem', heq, hpost⟩ :=
        fill_spec L files (files.length + 2) 0 fi rem [] (Nat.zero_le _) hfi hrem h0 (by omega)
      rw [hg0, Nat.sub_zero] at hpost
      simp only [List.nil_append] at heq
      have hsucc : (k + 1) * L = k * L + L := Nat.succ_mul k L
      obtain ⟨ps, hps, hlen, hgood, hflat⟩ := ih (k + 1) fi' rem' hpost.cursor
        (by rw [hpost.pos]; omega)
        (by intro j hj
            have := hlt (j + 1) (by simpa using hj)
            rwa [show k + 1 + j = k + (j + 1) by omega])
      refine ⟨⟨k, segs, h, (segs.map (·.len)).sum⟩ :: ps, ?_, by simp [hlen], ?_, ?_⟩
      · rw [multiLoop, heq]; simp only [hps]
      · intro j h1 h2
        cases j with
        | zero =>
          refine ⟨rfl, rfl, hpost.sumlen, hpost.flat, hpost.segok, hpost.incr, ?_⟩
          show segs.filter _ = _
          rw [hpost.closed, ← expFrom_zero_eq files _ _ fi (by omega) (by rw [← hg0, gpos_eq files fi rem hfi]; omega),
            expFrom_zero, expectedSegs]
          simp only [Nat.add_zero]
          congr 1
          omega
        | succ j =>
          have := hgood j (by simpa using h1) (by simpa using h2)
          simpa [show k + (j + 1) = k + 1 + j by omega] using this
      · simp only [List.flatMap_cons, hpost.flat, hflat]
        have e1 : (k + (t.length + 1)) * L = k * L + t.length * L + L := by
          rw [Nat.add_mul, Nat.succ_mul]; omega
        have e2 : (k + 1 + t.length) * L = k * L + t.length * L + L := by
          rw [← e1]; congr 1; omega
        have e3 : min (k * L) files.sum = k * L := by omega
        have e4 : min ((k + 1) * L) files.sum = k * L + min L (files.sum - k * L) := by omega
        rw [List.length_cons, e3, e4, List.range'_append_1]
        congr 1
        omega

/-! ### single-file loop, ceiling arithmetic, checker -/

theorem single_spec (L total : Nat) (hL : 0 < L) :
    ∀ (hs : List Bytes) (k start rem : Nat), start + rem = total →
      start = min (k * L) total →
      (∀ j, j < hs.length → (k + j) * L < total) →
      (singleLoop L total hs k start rem).length = hs.length ∧
        (∀ j (h1 : j < (singleLoop L total hs k start rem).length) (h2 : j < hs.length),
          PieceGood L [total] hs[j] (k + j) (singleLoop L total hs k start rem)[j]) ∧
        (singleLoop L total hs k start rem).flatMap (fun p => p.segs.flatMap (addr [total])) =
          List.range' (min (k * L) total) (min ((k + hs.length) * L) total - min (k * L) total) := by
  intro hs
  induction hs with
  | nil =>
    intro k start rem _ _ _
    refine ⟨rfl, ?_, ?_⟩
    · intro j h1; simp [singleLoop] at h1
    · simp [singleLoop]
  | cons h t ih =>
    intro k start rem hsum hst hlt
    have hk : k * L < total := by simpa using hlt 0 (by simp)
    have hst0 : start = k * L := by omega
    have hsucc : (k + 1) * L = k * L + L := Nat.succ_mul k L
    have hrl : (if rem < L then rem else L) = min L (total - k * L) := by split <;> omega
    obtain ⟨hlen, hgood, hflat⟩ := ih (k + 1) (start + min L (total - k * L)) (rem - min L (total - k * L))
        (by omega) (by omega)
        (by intro j hj
            have := hlt (j + 1) (by simpa using hj)
            rwa [show k + 1 + j = k + (j + 1) by omega])
    simp only [singleLoop, hrl]
    refine ⟨by simp [hlen], ?_, ?_⟩
    · intro j h1 h2
      cases j with
      | zero =>
        simp only [List.getElem_cons_zero, Nat.add_zero]
        refine ⟨rfl, rfl, rfl, ?_, ?_, ?_, ?_⟩
        · simp [addr, base_zero, hst0]
        · intro s hs
          simp only [List.mem_singleton] at hs
          subst hs
          refine ⟨by simp, ?_, ?_⟩
          · show start + min L (total - k * L) ≤ total; omega
          · show min L (total - k * L) = 0 → total = 0; omega
        · simp
        · have hpos : min L (total - k * L) > 0 := by omega
          have hlt' : max (k * L) 0 < min (min ((k + 1) * L) total) (0 + total) := by omega
          simp only [List.filter, hpos, decide_true, expectedSegs, expectedSegsAux, List.sum_cons,
            List.sum_nil, Nat.add_zero, hlt', if_true, List.append_nil]
          congr 2
          · omega
          · omega
      | succ j =>
        have := hgood j (by simpa using h1) (by simpa using h2)
        simpa [show k + (j + 1) = k + 1 + j by omega] using this
    · simp only [List.flatMap_cons, hflat]
      have e1 : (k + (t.length + 1)) * L = k * L + t.length * L + L := by
        rw [Nat.add_mul, Nat.succ_mul]; omega
      have e2 : (k + 1 + t.length) * L = k * L + t.length * L + L := by
        rw [← e1]; congr 1; omega
      have e3 : min (k * L) total = k * L := by omega
      have e4 : min ((k + 1) * L) total = k * L + min L (total - k * L) := by omega
      simp only [List.flatMap_nil, List.append_nil, addr, base_zero, Nat.zero_add]
      rw [List.length_cons, e3, e4, hst0, List.range'_append_1]
      congr 1
      omega

theorem ceil_lt (L total n : Nat) (hL : 0 < L) (hn : n = (total + L - 1) / L) :
    ∀ j, j < n → (0 + j) * L < total := by
  intro j hj
  subst hn
  have h1 : (j + 1) * L ≤ total + L - 1 := (Nat.le_div_iff_mul_le hL).1 hj
  rw [Nat.succ_mul] at h1
  rw [Nat.zero_add]; omega

theorem ceil_ge (L total n : Nat) (hL : 0 < L) (hn : n = (total + L - 1) / L) :
    total ≤ (0 + n) * L := by
  subst hn
  have h1 := Nat.lt_mul_div_succ (total + L - 1) hL
  rw [Nat.mul_succ, Nat.mul_comm] at h1
  rw [Nat.zero_add]; omega

theorem increasingFiles_of_pairwise :
    ∀ l : List Seg, (l.map (·.file)).Pairwise (· < ·) → increasingFiles l = true := by
  intro l
  induction l with
  | nil => intro _; rfl
  | cons a t ih =>
    intro h
    cases t with
    | nil => rfl
    | cons b r =>
      simp only [List.map_cons, List.pairwise_cons] at h ih
      simp only [increasingFiles, Bool.and_eq_true, decide_eq_true_eq]
      exact ⟨h.1 _ (by simp), ih h.2⟩

theorem checkPiece_of_good (L : Nat) (files : List Nat) (hashes : List Bytes) (h : Bytes) (i : Nat)
    (p : Piece) (hg : PieceGood L files h i p) (hh : hashes[i]? = some h) :
    checkPiece L files hashes i p = true := by
  unfold checkPiece
  simp only [Bool.and_eq_true, beq_iff_eq, List.all_eq_true, decide_eq_true_eq, Bool.or_eq_true]
  refine ⟨⟨⟨⟨⟨hg.pos, by rw [hg.hash, hh]⟩, hg.len⟩, hg.closed⟩, ?_⟩, increasingFiles_of_pairwise _ hg.incr⟩
  intro s hs
  obtain ⟨h1, h2, h3⟩ := hg.segok s hs
  refine ⟨⟨h1, h2⟩, ?_⟩
  by_cases h0 : s.len = 0
  · exact Or.inr (h3 h0)
  · exact Or.inl (Nat.pos_of_ne_zero h0)

theorem checkPiecesAux_of_forall (L : Nat) (files : List Nat) (hashes : List Bytes) :
    ∀ (ps : List Piece) (i : Nat),
      (∀ j (h : j < ps.length), checkPiece L files hashes (i + j) ps[j] = true) →
      checkPiecesAux L files hashes i ps = true := by
  intro ps
  induction ps with
  | nil => intros; rfl
  | cons p t ih =>
    intro i h
    simp only [checkPiecesAux, Bool.and_eq_true]
    refine ⟨h 0 (by simp), ih (i + 1) ?_⟩
    intro j hj
    have := h (j + 1) (by simpa using hj)
    simpa [show i + (j + 1) = i + 1 + j by omega] using this

theorem checkLayout_of_good (L : Nat) (files : List Nat) (hashes : List Bytes) (ps : List Piece)
    (hlen : ps.length = hashes.length)
    (hgood : ∀ j (h1 : j < ps.length) (h2 : j < hashes.length), PieceGood L files hashes[j] (0 + j) ps[j]) :
    checkLayout L files hashes ps = true := by
  unfold checkLayout
  simp only [Bool.and_eq_true, beq_iff_eq]
  refine ⟨hlen, checkPiecesAux_of_forall L files hashes ps 0 ?_⟩
  intro j hj
  have h2 : j < hashes.length := by omega
  exact checkPiece_of_good L files hashes hashes[j] (0 + j) ps[j] (hgood j hj h2) (by simp [h2])

/-! ### top level -/

theorem multi_top (L : Nat) (files : List Nat) (hashes : List Bytes)
    (hL : 0 < L) (hne : files ≠ []) (hcount : hashes.length = (files.sum + L - 1) / L) :
    ∃ ps, constructMulti L files hashes = some ps ∧ ps.length = hashes.length ∧
      (∀ j (h1 : j < ps.length) (h2 : j < hashes.length), PieceGood L files hashes[j] (0 + j) ps[j]) ∧
      ps.flatMap (fun p => p.segs.flatMap (addr files)) = List.range' 0 files.sum := by
  cases files with
  | nil => exact absurd rfl hne
  | cons f0 rest =>
    have hcur : CursorOk (f0 :: rest) 0 f0 := Or.inr ⟨by simp, by simp, by simp⟩
    have hg : gpos (f0 :: rest) 0 f0 = min (0 * L) (f0 :: rest).sum := by simp [gpos, base_zero]
    obtain ⟨ps, hps, hlen, hgood, hflat⟩ :=
      multi_spec L (f0 :: rest) hashes 0 0 f0 hcur hg (ceil_lt L _ _ hL hcount)
    refine ⟨ps, hps, hlen, hgood, ?_⟩
    rw [hflat]
    have := ceil_ge L _ _ hL hcount
    congr 1 <;> omega

theorem single_top (L total : Nat) (hashes : List Bytes)
    (hL : 0 < L) (hcount : hashes.length = (total + L - 1) / L) :
    (constructSingle L total hashes).length = hashes.length ∧
      (∀ j (h1 : j < (constructSingle L total hashes).length) (h2 : j < hashes.length),
        PieceGood L [total] hashes[j] (0 + j) (constructSingle L total hashes)[j]) ∧
      (constructSingle L total hashes).flatMap (fun p => p.segs.flatMap (addr [total])) =
        List.range' 0 total := by
  obtain ⟨hlen, hgood, hflat⟩ :=
    single_spec L total hL hashes 0 0 total (by omega) (by omega) (ceil_lt L _ _ hL hcount)
  refine ⟨hlen, hgood, ?_⟩
  unfold constructSingle
  rw [hflat]
  have := ceil_ge L _ _ hL hcount
  congr 1 <;> omega

theorem evaluateInfo_ok (ks : List StrTok) (vs : List Tok) (info : Info)
    (h : evaluateInfo ks vs = .ok info) :
    (∃ l, info.length = some l ∧ info.files = none ∧
        pieceCountOk l info.pieceLength info.pieces.length = true) ∨
    (∃ fs, info.length = none ∧ info.files = some fs ∧ fs ≠ [] ∧
        pieceCountOk ((fs.map (·.length)).sum) info.pieceLength info.pieces.length = true) := by
  unfold evaluateInfo at h
  simp only [] at h
  repeat' split at h
  all_goals first | contradiction | skip
  all_goals cases h
  all_goals first
    | exact Or.inl ⟨_, rfl, rfl, by assumption⟩
    | (refine Or.inr ⟨_, rfl, rfl, ?_, by assumption⟩
       intro hnil; simp_all)


theorem load_ok (H : Bytes → Bytes) (inp : Bytes) (T : Torrent) (h : load H inp = .ok T) :
    ∃ ks vs, evaluateInfo ks vs = .ok T.info := by
  unfold load at h
  repeat' split at h
  all_goals first | contradiction | skip
  cases h
  exact ⟨_, _, by assumption⟩

end TB
