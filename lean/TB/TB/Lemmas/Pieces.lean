/-
  Helper lemmas for C06 (TB/Props/C06.lean).
-/
import TB.Model.Pieces
import TB.Model.Torrent
import TB.Spec.LayoutSpec
namespace TB

end TB
