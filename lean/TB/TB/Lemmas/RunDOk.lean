/-
  Helper lemmas (RunD): a successful outcome implies every operation logged on the way succeeded (C13).
-/
import TB.Lemmas.RunDBase
namespace TB.RD
/-! ### all new operations succeeded -/

def AllOk (st st' : St) : Prop := ∃ new, st'.ops = st.ops ++ new ∧ ∀ o ∈ new, o.ok = true

theorem AllOk.refl (st : St) : AllOk st st := ⟨[], by simp, by simp⟩

theorem AllOk.trans {a b c : St} (h1 : AllOk a b) (h2 : AllOk b c) : AllOk a c := by
  obtain ⟨n1, o1, a1⟩ := h1
  obtain ⟨n2, o2, a2⟩ := h2
  refine ⟨n1 ++ n2, by rw [o2, o1, List.append_assoc], ?_⟩
  intro o ho
  rcases List.mem_append.mp ho with h | h
  · exact a1 o h
  · exact a2 o h

theorem AllOk.of_op {st st1 : St} {ok : Bool} {k : OpKind} {p : Path} {n : Fs → Fs × Bool}
    (h : st.op k p n = (st1, ok)) (hok : ¬ (!ok) = true) : AllOk st st1 := by
  refine ⟨[⟨k, p, ok⟩], St.op_ops h, ?_⟩
  intro o ho
  cases ok
  · simp at hok
  · simp at ho; rw [ho]

theorem AllOk.newOps {st st' : St} (h : AllOk st st') : ∀ o ∈ newOps st st', o.ok = true := by
  obtain ⟨new, ho, ha⟩ := h
  unfold TB.newOps
  rw [ho, List.drop_left]
  exact ha

theorem readBytes_ok (st : St) (p : Path) (len off : Nat) :
    (st.readBytes p len off).2.isSome = true → AllOk st (st.readBytes p len off).1 := by
  unfold St.readBytes
  split; rename_i st1 ok1 h1
  split; · intro h; cases h
  rename_i n1
  have r1 : AllOk st st1 := AllOk.of_op h1 n1
  split; rename_i st2 ok2 h2
  split; · intro h; cases h
  rename_i n2
  have r2 : AllOk st st2 := r1.trans (AllOk.of_op h2 n2)
  split; · intro _; exact r2
  split; rename_i st3 ok3 h3
  split; · intro h; cases h
  rename_i n3
  have r3 : AllOk st st3 := r2.trans (AllOk.of_op h3 n3)
  split
  · intro _; exact r3
  · intro h; cases h

theorem scanSingle_ok (H : Bytes → Bytes) (hash : Bytes) (seg : WSeg) (ps : List Path) :
    ∀ st, (scanSingle H hash seg st ps).2.isOk = true → AllOk st (scanSingle H hash seg st ps).1 := by
  induction ps with
  | nil => intro st _; exact AllOk.refl st
  | cons p ps ih =>
    intro st
    simp only [scanSingle]
    have r := readBytes_ok st p seg.len seg.off
    split
    · intro h; cases h
    · rename_i st1 bytes h1; rw [h1] at r
      split
      · intro _; exact r rfl
      · intro h; exact (r rfl).trans (ih st1 h)

theorem preloadSeg_ok (seg : WSeg) (ps : List Path) :
    ∀ st acc, (preloadSeg seg st ps acc).2.isOk = true → AllOk st (preloadSeg seg st ps acc).1 := by
  induction ps with
  | nil => intro st acc _; exact AllOk.refl st
  | cons p ps ih =>
    intro st acc
    simp only [preloadSeg]
    have r := readBytes_ok st p seg.len seg.off
    split
    · intro h; cases h
    · rename_i st1 bytes h1; rw [h1] at r
      split
      · intro h; exact (r rfl).trans (ih st1 _ h)
      · intro h; exact (r rfl).trans (ih st1 _ h)

theorem preload_ok (segs : List WSeg) :
    ∀ st, (preload st segs).2.isOk = true → AllOk st (preload st segs).1 := by
  induction segs with
  | nil => intro st _; exact AllOk.refl st
  | cons seg rest ih =>
    intro st
    simp only [preload]
    split
    · have r := ih st
      split <;> rename_i h1 <;> rw [h1] at r
      · intro _; exact r rfl
      · intro h; cases h
      · intro h; cases h
    · split
      · have r := ih st
        split <;> rename_i h1 <;> rw [h1] at r
        · intro _; exact r rfl
        · intro h; cases h
        · intro h; cases h
      · rename_i paths _
        have r := preloadSeg_ok seg paths st []
        split <;> rename_i h1 <;> rw [h1] at r
        · rename_i st1 r1
          have r' := ih st1
          split <;> rename_i h2 <;> rw [h2] at r'
          · intro _; exact (r rfl).trans (r' rfl)
          · intro h; cases h
          · intro h; cases h
        · intro h; cases h
        · intro h; cases h

theorem writeSegs_ok (pairs : List (WSeg × Option Path)) :
    ∀ st buf start, (writeSegs st pairs buf start).2 = .found → AllOk st (writeSegs st pairs buf start).1 := by
  induction pairs with
  | nil => intro st buf start _; exact AllOk.refl st
  | cons x rest ih =>
    obtain ⟨seg, src⟩ := x
    intro st buf start
    rw [writeSegs]; simp -iota only
    split; · exact ih _ _ _
    split; · exact ih _ _ _
    split; rename_i st1 ok1 h1
    split; · intro h; cases h
    rename_i n1
    have r1 : AllOk st st1 := AllOk.of_op h1 n1
    split; rename_i st2 ok2 h2
    split; · intro h; cases h
    rename_i n2
    have r2 : AllOk st st2 := r1.trans (AllOk.of_op h2 n2)
    split
    · split; rename_i st3 ok3 h3
      split; · intro h; cases h
      rename_i n3
      have r3 : AllOk st st3 := r2.trans (AllOk.of_op h3 n3)
      split; rename_i st4 ok4 h4
      split; · intro h; cases h
      rename_i n4
      have r4 : AllOk st st4 := r3.trans (AllOk.of_op h4 n4)
      split; · intro h; cases h
      split; rename_i st5 ok5 h5
      split; · intro h; cases h
      rename_i n5
      have r5 : AllOk st st5 := r4.trans (AllOk.of_op h5 n5)
      intro h
      exact r5.trans (ih _ _ _ h)
    · intro h; cases h

theorem solvePiece_ok (H : Bytes → Bytes) (st : St) (w : Work) :
    (solvePiece H st w).2 = .found → AllOk st (solvePiece H st w).1 := by
  unfold solvePiece; simp -iota only
  split; · intro h; cases h
  split
  · rename_i seg _
    split
    · split
      · intro _; exact AllOk.refl st
      · intro h; cases h
    · split
      · intro h; cases h
      · rename_i paths _
        have r := scanSingle_ok H w.hash seg paths st
        split <;> rename_i h1 <;> rw [h1] at r
        · intro h; exact (r rfl).trans (writeSegs_ok _ _ _ _ h)
        · intro h; cases h
        · intro h; cases h
        · intro h; cases h
  · have r := preload_ok w.segs st
    split <;> rename_i h1 <;> rw [h1] at r
    · split
      · intro h; exact (r rfl).trans (writeSegs_ok _ _ _ _ h)
      · intro h; cases h
    · intro h; cases h
    · intro h; cases h

end TB.RD