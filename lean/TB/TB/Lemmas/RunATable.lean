/-
  Helper lemmas about the metadata table (finder.rs part of TB.Model.Run) and export image paths.
-/
import TB.Lemmas.Run
import TB.Props.C07
namespace TB

/-! ### file contents -/

theorem Fs.content_setData (fs : Fs) (i : Nat) (bs : Bytes) : (fs.setData i bs).content i = bs := by
  simp [Fs.content, Fs.setData]

theorem Fs.content_setLen_length (fs : Fs) (i n : Nat) : ((fs.setLen i n).content i).length = n := by
  simp only [Fs.setLen, Fs.content_setData]
  split
  · simp; omega
  · simp; omega

theorem Fs.content_writeAt_length (fs : Fs) (i off : Nat) (data : Bytes)
    (h : off + data.length ≤ (fs.content i).length) :
    ((fs.writeAt i off data).content i).length = (fs.content i).length := by
  simp only [Fs.writeAt, Fs.content_setData]
  rw [if_pos (by omega)]
  simp; omega

/-! ### `buildTable` -/

theorem entriesOfFiles_target (exportDir : Path) (t : Torrent) (all : List FileRec) :
    ∀ (fs' pre : List FileRec) (id : Nat), all = pre ++ fs' →
      ∀ e ∈ entriesOfFiles exportDir t fs' pre.length id,
        e.infoHash = t.infoHash ∧ ∃ f, all[e.fileIndex]? = some f ∧ e.fileLength = f.length
          ∧ e.isPad = isPaddingPath f.path
          ∧ e.fullTarget = exportDir ++ [hex t.infoHash, sData, t.info.name] ++ f.path := by
  intro fs'
  induction fs' with
  | nil => intro pre id _ e he; simp [entriesOfFiles] at he
  | cons f fs ih =>
    intro pre id hall e he
    simp only [entriesOfFiles, List.mem_cons] at he
    rcases he with rfl | he
    · refine ⟨rfl, f, ?_, rfl, rfl, ?_⟩
      · simp [hall]
      · simp [targetMulti, exportRoot]
    · have := ih (pre ++ [f]) (id + 1) (by simp [hall])
      simp only [List.length_append, List.length_cons, List.length_nil] at this
      exact this e he

theorem buildTable_target (exportDir : Path) (ts : List Torrent) (id0 : Nat) :
    ∀ e ∈ buildTable exportDir ts id0, ∃ t ∈ ts, IsTargetOf exportDir t e := by
  induction ts generalizing id0 with
  | nil => intro e he; simp [buildTable] at he
  | cons t ts ih =>
    intro e he
    unfold buildTable at he
    split at he
    · rename_i fs hfs
      simp only [List.mem_append] at he
      rcases he with he | he
      · obtain ⟨h1, f, h2, h3, h4, h5⟩ := entriesOfFiles_target exportDir t fs fs [] id0 rfl e he
        exact ⟨t, List.mem_cons_self, h1, Or.inr ⟨fs, f, hfs, h2, h3, h4, h5⟩⟩
      · obtain ⟨t', ht', h⟩ := ih _ e he
        exact ⟨t', List.mem_cons_of_mem _ ht', h⟩
    · rename_i l hfs hl
      simp only [List.mem_cons] at he
      rcases he with rfl | he
      · refine ⟨t, List.mem_cons_self, rfl, Or.inl ⟨l, hfs, hl, rfl, rfl, rfl, ?_⟩⟩
        simp [targetSingle, exportRoot]
      · obtain ⟨t', ht', h⟩ := ih _ e he
        exact ⟨t', List.mem_cons_of_mem _ ht', h⟩
    · obtain ⟨t', ht', h⟩ := ih _ e he
      exact ⟨t', List.mem_cons_of_mem _ ht', h⟩

/-! ### shape of export images -/

/-- the export image of an entry of `t`: `<export>/<hex>/Data/<name>` followed by some (possibly empty) path -/
theorem IsTargetOf.shape {exportDir : Path} {t : Torrent} {e : TEntry} (h : IsTargetOf exportDir t e) :
    ∃ tail, e.fullTarget = exportDir ++ (hex t.infoHash :: sData :: t.info.name :: tail) := by
  obtain ⟨_, ⟨l, _, _, _, _, _, h⟩ | ⟨fs, f, _, _, _, _, h⟩⟩ := h
  · exact ⟨[], by simp [h]⟩
  · exact ⟨f.path, by simp [h]⟩

theorem IsTargetOf.properPrefix {exportDir : Path} {t : Torrent} {e : TEntry} (h : IsTargetOf exportDir t e) :
    Path.isProperPrefixOf (exportDir ++ [hex t.infoHash, sData]) e.fullTarget := by
  obtain ⟨tail, h⟩ := h.shape
  exact ⟨t.info.name :: tail, by simp, by simp [h]⟩

theorem IsTargetOf.prefix_dropLast {exportDir : Path} {t : Torrent} {e : TEntry} (h : IsTargetOf exportDir t e) :
    Path.isPrefixOf (exportDir ++ [hex t.infoHash, sData]) e.fullTarget.dropLast := by
  obtain ⟨tail, h⟩ := h.shape
  refine ⟨(t.info.name :: tail).dropLast, ?_⟩
  rw [h, List.dropLast_append_of_ne_nil (by simp)]
  simp [List.dropLast]

theorem IsTargetOf.disjoint {exportDir : Path} {t₁ t₂ : Torrent} {e₁ e₂ : TEntry}
    (h₁ : IsTargetOf exportDir t₁ e₁) (h₂ : IsTargetOf exportDir t₂ e₂) (hne : t₁.infoHash ≠ t₂.infoHash) :
    ¬ Path.isPrefixOf e₁.fullTarget e₂.fullTarget := by
  obtain ⟨tl₁, s₁⟩ := h₁.shape
  obtain ⟨tl₂, s₂⟩ := h₂.shape
  rintro ⟨rest, hr⟩
  rw [s₁, s₂, List.append_assoc] at hr
  have := List.append_cancel_left hr
  simp only [List.cons_append, List.cons.injEq] at this
  exact hne (C07_hex_injective _ _ this.1).symm

end TB
