/-
  Helper lemmas (RunI): run-level idle argument.
-/
import TB.Spec.ExportSpec
namespace TB.RunI

end TB.RunI
