/-
  Helper lemmas (RunI): run-level idle argument.
-/
import TB.Spec.ExportSpec
import TB.Props.C04
import TB.Props.C04a
import TB.Lemmas.RunB
import TB.Lemmas.RunC
import TB.Lemmas.RunG
import TB.Lemmas.RunARun
import TB.Lemmas.RunF
import TB.Lemmas.RunDReplay
namespace TB.RunI
open TB.RC

/-! ### names of a well-formed tree -/

theorem fst_unique {α β : Type} {l : List (α × β)} (hnd : (l.map (·.1)).Nodup) {p : α} {i j : β}
    (hi : (p, i) ∈ l) (hj : (p, j) ∈ l) : i = j := by
  induction l with
  | nil => cases hi
  | cons a l ih =>
    rw [List.map_cons, List.nodup_cons] at hnd
    rcases List.mem_cons.1 hi with h1 | h1 <;> rcases List.mem_cons.1 hj with h2 | h2
    · rw [← h1] at h2
      exact (Prod.mk.inj h2).2.symm
    · exfalso
      apply hnd.1
      rw [← h1]
      exact List.mem_map.2 ⟨(p, j), h2, rfl⟩
    · exfalso
      apply hnd.1
      rw [← h2]
      exact List.mem_map.2 ⟨(p, i), h1, rfl⟩
    · exact ih hnd.2 h1 h2

/-- in a well-formed tree every bound name resolves to its inode -/
theorem look_of_mem {fs : Fs} (hwf : FsWF fs) {p : Path} {i : Nat} (h : (p, i) ∈ fs.files) :
    fs.look p = .file i := by
  obtain ⟨_, hnd, hnotdir, hpre⟩ := hwf
  apply RunF.look_file_of
  · rw [Bool.eq_false_iff]
    intro hany
    obtain ⟨q, hq, hs⟩ := List.any_eq_true.1 hany
    obtain ⟨j, hj⟩ := Option.isSome_iff_exists.1 hs
    have h1 := hnotdir q j (RunF.inoOf_mem hj)
    have h2 := hpre p i h q hq
    rw [h1] at h2
    cases h2
  · exact hnotdir p i h
  · cases hi : fs.inoOf p with
    | none => exact absurd rfl (RunF.inoOf_none hi (p, i) h)
    | some j => rw [fst_unique hnd (RunF.inoOf_mem hi) h]

/-! ### the cache only holds regular files -/

/-- every name in the cache resolves to the inode it is registered with -/
def CF (fs : Fs) (c : Cache) : Prop := ∀ len m, (len, m) ∈ c → ∀ x ∈ m, fs.look x.1 = .file x.2

theorem cacheGet_mem {c : Cache} {len : Nat} {m : List (Path × Nat)} (h : cacheGet c len = some m) :
    ∃ l, (l, m) ∈ c := by
  unfold cacheGet at h
  rw [Option.map_eq_some_iff] at h
  obtain ⟨e, he, rfl⟩ := h
  exact ⟨e.1, List.mem_of_find?_eq_some he⟩

theorem CF.get {fs : Fs} {c : Cache} (h : CF fs c) {len : Nat} {m : List (Path × Nat)}
    (hm : cacheGet c len = some m) : ∀ x ∈ m, fs.look x.1 = .file x.2 := by
  obtain ⟨l, hl⟩ := cacheGet_mem hm
  exact h l m hl

theorem CF.nil (fs : Fs) : CF fs [] := by
  intro len m h; cases h

theorem CF.insert {fs : Fs} {c : Cache} (h : CF fs c) (len : Nat) {p : Path} {i : Nat}
    (hp : fs.look p = .file i) : CF fs (cacheInsert c len p i) := by
  unfold cacheInsert
  cases hg : cacheGet c len with
  | none =>
    simp only
    intro l m hm x hx
    rcases List.mem_cons.1 hm with hm | hm
    · obtain ⟨_, rfl⟩ := Prod.mk.inj hm
      rw [List.mem_singleton] at hx
      subst hx
      exact hp
    · exact h l m hm x hx
  | some m0 =>
    simp only
    intro l m hm x hx
    rcases List.mem_cons.1 hm with hm | hm
    · obtain ⟨_, rfl⟩ := Prod.mk.inj hm
      rcases List.mem_cons.1 hx with rfl | hx
      · exact hp
      · exact h.get hg x (List.mem_filter.1 hx).1
    · exact h l m (List.mem_filter.1 hm).1 x hx

theorem openr_roext (st : St) (p : Path) : ROExt st (st.openr p).1 :=
  St.op_pure_ext (k := .openr) (b := fun fs => match fs.look p with | .file _ => true | .dir => true | _ => false)
    rfl (show st.op .openr p _ = ((st.openr p).1, (st.openr p).2) from rfl)

theorem addExportPaths_idle (fs : Fs) (st : St) (c : Cache) (table : List TEntry)
    (hfs : st.fs = fs) (hc : CF fs c) :
    ROExt st (addExportPaths st c table).1 ∧ CF fs (addExportPaths st c table).2 := by
  induction table generalizing st c with
  | nil => exact ⟨ROExt.refl _, hc⟩
  | cons e es ih =>
    rw [RunG.addExportPaths_cons]
    have e1 := openr_roext st e.fullTarget
    have hfs1 : (st.openr e.fullTarget).1.fs = fs := e1.fs.trans hfs
    split
    · exact ih st c hfs hc
    · split
      · obtain ⟨a, b⟩ := ih _ c hfs1 hc
        exact ⟨e1.trans a, b⟩
      · split
        · rename_i i hi
          split
          · obtain ⟨a, b⟩ := ih _ _ hfs1 (hc.insert e.fileLength (by rw [← hfs1]; exact hi))
            exact ⟨e1.trans a, b⟩
          · obtain ⟨a, b⟩ := ih _ c hfs1 hc
            exact ⟨e1.trans a, b⟩
        · obtain ⟨a, b⟩ := ih _ c hfs1 hc
          exact ⟨e1.trans a, b⟩

theorem addByDirectory_cf {fs : Fs} (hwf : FsWF fs) {c : Cache} (hc : CF fs c) (dir : Path) (lengths : List Nat) :
    CF fs (addByDirectory fs c dir lengths) := by
  unfold addByDirectory
  have key : ∀ (l : List (Path × Nat)), (∀ e ∈ l, e ∈ fs.files) → ∀ c, CF fs c →
      CF fs (l.foldl (fun c e =>
        let len := (fs.content e.2).length
        if dir.length ≤ e.1.length && e.1.take dir.length == dir && e.1 != dir && lengths.contains len
        then cacheInsert c len e.1 e.2 else c) c) := by
    intro l
    induction l with
    | nil => intro _ c hc; exact hc
    | cons a l ih =>
      intro hl c hc
      rw [List.foldl_cons]
      apply ih (fun e he => hl e (List.mem_cons_of_mem _ he))
      simp only
      split
      · exact hc.insert _ (look_of_mem hwf (hl a List.mem_cons_self))
      · exact hc
  exact key fs.files (fun _ h => h) c hc

theorem scan_cf {fs : Fs} (hwf : FsWF fs) (lengths : List Nat) (scan : List PathArg) {c : Cache} (hc : CF fs c) :
    CF fs (scan.foldl (fun c d => addByDirectory fs c d.path lengths) c) := by
  induction scan generalizing c with
  | nil => exact hc
  | cons d ds ih => exact ih (addByDirectory_cf hwf hc d.path lengths)

/-! ### candidate lists -/

theorem validSearches_sub {e : TEntry} {m : List (Path × Nat)} {obs : List Path}
    (h : validSearches e m obs = true) : ∀ p ∈ obs, ∃ i, (p, i) ∈ m := by
  unfold validSearches at h
  simp only [Bool.and_eq_true] at h
  obtain ⟨⟨⟨⟨h1, _⟩, _⟩, _⟩, _⟩ := h
  intro p hp
  have := List.all_eq_true.1 h1 p hp
  obtain ⟨j, hj⟩ := Option.isSome_iff_exists.1 this
  rw [Option.map_eq_some_iff] at hj
  obtain ⟨y, hy, hy2⟩ := hj
  have hm := List.mem_of_find?_eq_some hy
  have hp := List.find?_some hy
  refine ⟨y.2, ?_⟩
  have : y.1 = p := by simpa using hp
  rw [← this]
  exact hm

theorem mem_pruneLinks (l : List (Path × Nat)) (seen : List Nat) (p : Path) (h : p ∈ pruneLinks l seen) :
    ∃ i, (p, i) ∈ l := by
  induction l generalizing seen with
  | nil => simp [pruneLinks] at h
  | cons a rest ih =>
    obtain ⟨p0, i0⟩ := a
    rw [pruneLinks] at h
    split at h
    · obtain ⟨i, hi⟩ := ih seen h
      exact ⟨i, List.mem_cons_of_mem _ hi⟩
    · rcases List.mem_cons.1 h with rfl | h
      · exact ⟨i0, List.mem_cons_self⟩
      · obtain ⟨i, hi⟩ := ih _ h
        exact ⟨i, List.mem_cons_of_mem _ hi⟩

theorem canonicalSearches_sub (e : TEntry) (m : List (Path × Nat)) :
    ∀ p ∈ canonicalSearches e m, ∃ i, (p, i) ∈ m := by
  intro p hp
  unfold canonicalSearches at hp
  obtain ⟨i, hi⟩ := mem_pruneLinks _ _ p hp
  exact ⟨i, (RunG.mem_sortBy _ _ _).1 hi⟩

/-- insertion into a list whose head has key 0 (or inserting a key-0 element) yields a head of key 0 -/
theorem insertBy_head_zero {α : Type} (f : α → Nat) (g : α → α → Bool) (a : α) (l : List α)
    (h : f a = 0 ∨ ∃ b t, l = b :: t ∧ f b = 0) :
    ∃ b t, insertBy (fun x y => f x < f y || (f x == f y && g x y)) a l = b :: t ∧ f b = 0 := by
  cases l with
  | nil =>
    rcases h with h | ⟨b, t, hl, _⟩
    · exact ⟨a, [], rfl, h⟩
    · cases hl
  | cons b bs =>
    rw [insertBy]
    split
    · rename_i hlt
      refine ⟨a, b :: bs, rfl, ?_⟩
      rcases h with h | ⟨b', t, hl, hb⟩
      · exact h
      · cases hl
        simp only [Bool.or_eq_true, decide_eq_true_eq, Bool.and_eq_true, beq_iff_eq] at hlt
        omega
    · rename_i hlt
      refine ⟨b, _, rfl, ?_⟩
      rcases h with h | ⟨b', t, hl, hb⟩
      · simp only [Bool.or_eq_true, decide_eq_true_eq, Bool.and_eq_true, beq_iff_eq, not_or, not_and] at hlt
        omega
      · cases hl
        exact hb

theorem sortBy_head_zero {α : Type} (f : α → Nat) (g : α → α → Bool) (l : List α) (x : α) (hx : x ∈ l)
    (h0 : f x = 0) :
    ∃ b t, sortBy (fun x y => f x < f y || (f x == f y && g x y)) l = b :: t ∧ f b = 0 := by
  induction l with
  | nil => cases hx
  | cons a l ih =>
    unfold sortBy
    rw [List.foldr_cons]
    apply insertBy_head_zero
    rcases List.mem_cons.1 hx with rfl | hx
    · exact Or.inl h0
    · exact Or.inr (ih hx)

/-- the canonical order lists a registered export image first -/
theorem canonicalSearches_head (e : TEntry) (m : List (Path × Nat)) (i : Nat) (hm : (e.fullTarget, i) ∈ m) :
    ∃ rest, canonicalSearches e m = e.fullTarget :: rest := by
  unfold canonicalSearches
  obtain ⟨b, t, hs, hb⟩ := sortBy_head_zero (fun a : Path × Nat => similarity a.1 e.partialTarget e.fullTarget)
    (fun a b => pathLt a.1 b.1) m (e.fullTarget, i) hm (similarity_eq_zero.2 rfl)
  simp only at hs hb ⊢
  rw [hs]
  obtain ⟨p, j⟩ := b
  rw [pruneLinks]
  simp only [List.contains_nil, Bool.false_eq_true, if_false]
  have hp : p = e.fullTarget := similarity_eq_zero.1 hb
  rw [hp]
  exact ⟨_, rfl⟩

/-- what `populateSearches` gives an entry whose length is in the cache -/
theorem populate_spec (c : Cache) (obs : List (Nat × List Path)) (es : List TEntry) :
    ∀ e' ∈ (populateSearches c obs es).1, e'.isPad = false → ∀ m, cacheGet c e'.fileLength = some m →
      ∃ paths, e'.searches = some paths ∧ (validSearches e' m paths = true ∨ paths = canonicalSearches e' m) := by
  induction es with
  | nil => intro e' he'; simp [populateSearches] at he'
  | cons e es ih =>
    unfold populateSearches
    rcases hrest : populateSearches c obs es with ⟨rest, okRest⟩
    rw [hrest] at ih
    simp only at ih
    simp only []
    have tl : ∀ (h : TEntry), (h.isPad = false → ∀ m, cacheGet c h.fileLength = some m →
          ∃ paths, h.searches = some paths ∧ (validSearches h m paths = true ∨ paths = canonicalSearches h m)) →
        ∀ e' ∈ h :: rest, e'.isPad = false → ∀ m, cacheGet c e'.fileLength = some m →
          ∃ paths, e'.searches = some paths ∧ (validSearches e' m paths = true ∨ paths = canonicalSearches e' m) := by
      intro h hh e' he'
      rcases List.mem_cons.1 he' with rfl | he'
      · exact hh
      · exact ih e' he'
    split
    · rename_i hp
      exact tl e (fun h => by rw [h] at hp; cases hp)
    split
    · rename_i hn
      exact tl e (fun _ m hm => by rw [hn] at hm; cases hm)
    · rename_i m0 hm0
      split
      · rename_i o ho
        split
        · rename_i hv
          exact tl _ (fun _ m hm => by
            simp only at hm
            rw [hm0] at hm; cases hm
            exact ⟨o, rfl, Or.inl hv⟩)
        · exact tl _ (fun _ m hm => by
            simp only at hm
            rw [hm0] at hm; cases hm
            exact ⟨_, rfl, Or.inr rfl⟩)
      · exact tl _ (fun _ m hm => by
            simp only at hm
            rw [hm0] at hm; cases hm
            exact ⟨_, rfl, Or.inr rfl⟩)

/-! ### validation without faults -/

theorem validatePath_ok (st : St) (a : PathArg) (hf : st.faults = []) (ha : a.absolute = true)
    (hd : st.fs.look a.path = .dir) : (validatePath st a).2 = true := by
  unfold validatePath
  rw [ha]
  simp only [Bool.not_true, Bool.false_eq_true, if_false]
  rw [RB.St.op_nofault _ _ _ _ (by rw [hf]; rfl)]
  simp [hd]

theorem validateAll_ok (st : St) (args : List PathArg) (hf : st.faults = [])
    (h : ∀ a ∈ args, a.absolute = true ∧ st.fs.look a.path = .dir) : (validateAll st args).2 = true := by
  induction args generalizing st with
  | nil => rfl
  | cons a as ih =>
    unfold validateAll
    have hok := validatePath_ok st a hf (h a List.mem_cons_self).1 (h a List.mem_cons_self).2
    obtain ⟨h1, h2, _, _⟩ := RB.validatePath_spec st a
    rcases hv : validatePath st a with ⟨st1, ok⟩
    rw [hv] at hok h1 h2
    simp only at hok h1 h2
    subst hok
    simp only
    exact ih st1 (h2.trans hf) (fun b hb => by rw [h1]; exact h b (List.mem_cons_of_mem _ hb))

theorem validateAll_roext (st : St) (args : List PathArg) : ROExt st (validateAll st args).1 := by
  obtain ⟨h1, h2, ⟨new, h3, h4⟩, _⟩ := RB.validateAll_spec st args
  exact ⟨h1, h2, new, h3, fun o ho => by rw [h4 o ho]; rfl⟩

/-! ### evaluation of verified pieces -/

theorem solvePiece_idle (H : Bytes → Bytes) (st : St) (w : Work)
    (hnf : NoFutureFaults st)
    (hfirst : ∀ seg ∈ w.segs, seg.ent.isPad = false →
      ∃ rest i, seg.ent.searches = some (seg.ent.fullTarget :: rest) ∧ st.fs.look seg.ent.fullTarget = .file i
        ∧ seg.off + seg.len ≤ (st.fs.content i).length)
    (hreadable : ∀ seg ∈ w.segs, ∀ paths, seg.ent.searches = some paths → ∀ p ∈ paths, ∃ i, st.fs.look p = .file i)
    (hver : VerE H st.fs w) :
    (solvePiece H st w).2 = .found ∧ ROExt st (solvePiece H st w).1 := by
  by_cases hs : w.segs = []
  · obtain ⟨parts, hp, hh⟩ := hver
    rw [hs] at hp
    simp at hp
    subst hp
    have : solvePiece H st w = (st, .found) := by
      unfold solvePiece
      rw [hs]
      have hh' : H [] = w.hash := by simpa using hh
      simp [preload, searchProduct, writeSegs, hh']
    rw [this]
    exact ⟨rfl, ROExt.refl _⟩
  · obtain ⟨h1, h2, h3⟩ := C04b_untouched H st w hnf hs hfirst hreadable hver
    refine ⟨h1, ?_⟩
    obtain ⟨hfa, new, hops, _⟩ := RD.solvePiece_reach H st w
    refine ⟨h2, hfa, new, hops, ?_⟩
    have : newOps st (solvePiece H st w).1 = new := by
      unfold newOps
      rw [hops, List.drop_left]
    rw [this] at h3
    exact h3

theorem solveAll_idle (H : Bytes → Bytes) (P : Work → Prop) (fs : Fs)
    (hP : ∀ w st, P w → st.fs = fs → st.faults = [] →
      (solvePiece H st w).2 = .found ∧ ROExt st (solvePiece H st w).1) :
    ∀ (ws : List Work) (st : St) (c : Counters) (acc : List Counters),
      (∀ w ∈ ws, P w) → st.fs = fs → st.faults = [] →
      (solveAll H st ws c acc).2.2 = false ∧ ROExt st (solveAll H st ws c acc).1 ∧
      (((solveAll H st ws c acc).2.1 = acc ∧ ws = []) ∨
        (solveAll H st ws c acc).2.1.getLast? = some ⟨c.success + ws.length, c.failed, c.fault⟩) := by
  intro ws
  induction ws with
  | nil =>
    intro st c acc _ _ _
    exact ⟨rfl, ROExt.refl _, Or.inl ⟨rfl, rfl⟩⟩
  | cons w ws ih =>
    intro st c acc hws hfs hfa
    obtain ⟨hf, he⟩ := hP w st (hws w List.mem_cons_self) hfs hfa
    rw [RB.solveAll_cons, if_neg (by rw [hf]; exact fun h => by cases h), hf]
    obtain ⟨i1, i2, i3⟩ := ih (solvePiece H st w).1 (c.bump .found) (acc ++ [c.bump .found])
      (fun x hx => hws x (List.mem_cons_of_mem _ hx)) (he.fs.trans hfs) (he.faults.trans hfa)
    refine ⟨i1, he.trans i2, Or.inr ?_⟩
    rcases i3 with ⟨i3, rfl⟩ | i3
    · rw [i3]
      simp [Counters.bump]
    · rw [i3]
      simp only [Counters.bump, List.length_cons, Option.some.injEq, Counters.mk.injEq, and_true]
      omega

/-! ### the resize pre-flight when there is nothing to fix -/

theorem openr_val (st : St) (hf : st.faults = []) (p : Path) :
    (st.openr p).2 = (match st.fs.look p with | .file _ => true | .dir => true | _ => false) := by
  unfold St.openr
  rw [RB.St.op_nofault _ _ _ _ (by rw [hf]; rfl)]
  rfl

theorem openrw_val (st : St) (hf : st.faults = []) (p : Path) :
    (st.op .openrw p (RB.natOpenrw p)).2 = (match st.fs.look p with | .file _ => true | _ => false) := by
  rw [RB.St.op_nofault _ _ _ _ (by rw [hf]; rfl)]
  rfl

theorem openrw_roext (st : St) (p : Path) : ROExt st (st.op .openrw p (RB.natOpenrw p)).1 :=
  St.op_pure_ext (k := .openrw) (b := fun fs => match fs.look p with | .file _ => true | _ => false)
    rfl (show st.op .openrw p _ = ((st.op .openrw p (RB.natOpenrw p)).1, (st.op .openrw p (RB.natOpenrw p)).2) from rfl)

/-- no export image of the table has the wrong length, is a directory, or lies below a regular file -/
def LensOk (fs : Fs) (es : List TEntry) : Prop :=
  ∀ e ∈ es, e.isPad = false →
    (∀ i, fs.look e.fullTarget = .file i → (fs.content i).length = e.fileLength) ∧
    fs.look e.fullTarget ≠ .notDir ∧ fs.look e.fullTarget ≠ .dir

theorem LensOk.tail {fs : Fs} {e : TEntry} {es : List TEntry} (h : LensOk fs (e :: es)) : LensOk fs es :=
  fun x hx => h x (List.mem_cons_of_mem _ hx)

theorem resizePass1_idle (fs : Fs) (es : List TEntry) (h : LensOk fs es) :
    ∀ st : St, st.fs = fs → st.faults = [] →
      (resizePass1 st es).2 = .continue ∧ ROExt st (resizePass1 st es).1 := by
  induction es with
  | nil => intro st _ _; exact ⟨rfl, ROExt.refl _⟩
  | cons e es ih =>
    intro st hfs hfa
    rw [RB.resizePass1_cons]
    have e1 := openr_roext st e.fullTarget
    have tl := ih h.tail (st.openr e.fullTarget).1 (e1.fs.trans hfs) (e1.faults.trans hfa)
    have tl' : (resizePass1 (st.openr e.fullTarget).1 es).2 = .continue ∧
        ROExt st (resizePass1 (st.openr e.fullTarget).1 es).1 := ⟨tl.1, e1.trans tl.2⟩
    cases hp : e.isPad
    · obtain ⟨hl, hnd, hd⟩ := h e List.mem_cons_self hp
      rw [← hfs] at hl hnd hd
      have hv := openr_val st hfa e.fullTarget
      simp only [Bool.false_eq_true, if_false]
      cases hlook : st.fs.look e.fullTarget with
      | notDir => exact absurd hlook hnd
      | dir => exact absurd hlook hd
      | notFound =>
        rw [hlook] at hv
        simp only at hv
        rw [hv, hfa]
        simpa using tl'
      | file i =>
        rw [hlook] at hv
        simp only at hv
        have := hl i hlook
        rw [← e1.fs] at this
        rw [hv]
        simp only [Bool.not_true, Bool.false_eq_true, if_false]
        rw [if_neg (by rw [this]; exact Nat.lt_irrefl _)]
        exact tl'
    · simp only [if_true]
      exact ih h.tail st hfs hfa

theorem resizePass2_idle (fs : Fs) (es : List TEntry) (h : LensOk fs es) :
    ∀ st : St, st.fs = fs → st.faults = [] →
      (resizePass2 st es).2 = .continue ∧ ROExt st (resizePass2 st es).1 := by
  induction es with
  | nil => intro st _ _; exact ⟨rfl, ROExt.refl _⟩
  | cons e es ih =>
    intro st hfs hfa
    rw [RB.resizePass2_cons]
    have e1 := openrw_roext st e.fullTarget
    have tl := ih h.tail (st.op .openrw e.fullTarget (RB.natOpenrw e.fullTarget)).1 (e1.fs.trans hfs) (e1.faults.trans hfa)
    have tl' : (resizePass2 (st.op .openrw e.fullTarget (RB.natOpenrw e.fullTarget)).1 es).2 = .continue ∧
        ROExt st (resizePass2 (st.op .openrw e.fullTarget (RB.natOpenrw e.fullTarget)).1 es).1 := ⟨tl.1, e1.trans tl.2⟩
    cases hp : e.isPad
    · obtain ⟨hl, hnd, hd⟩ := h e List.mem_cons_self hp
      rw [← hfs] at hl hnd hd
      have hv := openrw_val st hfa e.fullTarget
      simp only [Bool.false_eq_true, if_false]
      cases hlook : st.fs.look e.fullTarget with
      | notDir => exact absurd hlook hnd
      | dir => exact absurd hlook hd
      | notFound =>
        rw [hlook] at hv
        simp only at hv
        rw [hv, hfa]
        simpa using tl'
      | file i =>
        rw [hlook] at hv
        simp only at hv
        have := hl i hlook
        rw [← e1.fs] at this
        rw [hv]
        simp only [Bool.not_true, Bool.false_eq_true, if_false]
        rw [if_neg (by rw [this]; exact Nat.lt_irrefl _)]
        exact tl'
    · simp only [if_true]
      exact ih h.tail st hfs hfa

theorem fixExportFileLengths_idle (fs : Fs) (es : List TEntry) (h : LensOk fs es) (st : St)
    (hfs : st.fs = fs) (hfa : st.faults = []) :
    (fixExportFileLengths st es).2 = .continue ∧ ROExt st (fixExportFileLengths st es).1 := by
  unfold fixExportFileLengths
  obtain ⟨a1, a2⟩ := resizePass1_idle fs es h st hfs hfa
  rcases hp : resizePass1 st es with ⟨st1, fl⟩
  rw [hp] at a1 a2
  simp only at a1 a2
  subst a1
  simp only
  obtain ⟨b1, b2⟩ := resizePass2_idle fs es h st1 (a2.fs.trans hfs) (a2.faults.trans hfa)
  exact ⟨b1, a2.trans b2⟩

/-! ### the shape of a run that gets past the pre-flight -/

theorem run_continue (H : Bytes → Bytes) (inp : RunIn) (hne : inp.torrents ≠ [])
    (st1 st2 st3 : St) (cache0 : Cache) (table : List TEntry) (okS : Bool)
    (hval : validateAll ⟨inp.fs, [], inp.faults⟩ (inp.scan ++ [inp.exportDir]) = (st1, true))
    (hflow : (if inp.resize then
        fixExportFileLengths st1 (buildTable inp.exportDir.path (dedupTorrents (sortTorrents inp.torrents)) 0)
        else (st1, Flow.continue)) = (st2, Flow.continue))
    (hadd : addExportPaths st2 [] (buildTable inp.exportDir.path (dedupTorrents (sortTorrents inp.torrents)) 0)
      = (st3, cache0))
    (hpop : populateSearches
        (inp.scan.foldl (fun c d => addByDirectory st3.fs c d.path
          (uniqueLengths (buildTable inp.exportDir.path (dedupTorrents (sortTorrents inp.torrents)) 0))) cache0)
        inp.searchObs (buildTable inp.exportDir.path (dedupTorrents (sortTorrents inp.torrents)) 0) = (table, okS)) :
    (run H inp).table = table ∧
    ∀ work, convertPiecesToWork table (dedupTorrents (sortTorrents inp.torrents)) = some work →
      (run H inp).work = work ∧
      ∃ ordered, (∀ w ∈ ordered, w ∈ work) ∧ ordered.length = work.length ∧
        (run H inp).result = (if (solveAll H st3 ordered ⟨0, 0, 0⟩ []).2.2 then .panic else .ok ()) ∧
        (run H inp).ops = (solveAll H st3 ordered ⟨0, 0, 0⟩ []).1.ops ∧
        (run H inp).fs = (solveAll H st3 ordered ⟨0, 0, 0⟩ []).1.fs ∧
        (run H inp).counters = (solveAll H st3 ordered ⟨0, 0, 0⟩ []).2.1 := by
  have hemp : inp.torrents.isEmpty = false := by cases ht : inp.torrents <;> simp_all
  unfold run
  simp only [hemp, Bool.false_eq_true, if_false, hval, hflow, hadd, hpop]
  constructor
  · split <;> rfl
  · intro work hw
    simp only [hw]
    refine ⟨trivial, (match reorder work inp.order with
                          | some o => (o, true)
                          | none => (defaultOrder work, inp.order.isEmpty)).fst, ?_, ?_, rfl, rfl, rfl, rfl⟩
    · cases hr : reorder work inp.order with
      | some o => exact reorder_mem hr
      | none => intro w hw; exact List.mem_reverse.1 hw
    · cases hr : reorder work inp.order with
      | some o => exact RB.reorder_length _ _ _ hr
      | none => simp [defaultOrder]

/-! ### small facts about tables and `mapM` -/

theorem mapM_some_all {α β : Type} {f : α → Option β} {l : List α} {ys : List β}
    (h : l.mapM f = some ys) : ∀ a ∈ l, ∃ b, f a = some b := by
  induction l generalizing ys with
  | nil => intro a ha; cases ha
  | cons a l ih =>
    rw [List.mapM_cons] at h
    cases ha : f a with
    | none => simp [ha] at h
    | some b =>
      cases hl : l.mapM f with
      | none => simp [ha, hl] at h
      | some bs =>
        intro x hx
        rcases List.mem_cons.1 hx with rfl | hx
        · exact ⟨b, ha⟩
        · exact ih hl x hx

theorem entriesOfFiles_searches (exportDir : Path) (t : Torrent) (fs : List FileRec) (idx id : Nat) :
    ∀ e ∈ entriesOfFiles exportDir t fs idx id, e.searches = none := by
  induction fs generalizing idx id with
  | nil => intro e he; simp [entriesOfFiles] at he
  | cons f fs ih =>
    intro e he
    rw [entriesOfFiles] at he
    rcases List.mem_cons.1 he with rfl | he
    · rfl
    · exact ih _ _ e he

theorem buildTable_searches (exportDir : Path) (ts : List Torrent) (id : Nat) :
    ∀ e ∈ buildTable exportDir ts id, e.searches = none := by
  induction ts generalizing id with
  | nil => intro e he; simp [buildTable] at he
  | cons t ts ih =>
    intro e he
    rw [buildTable] at he
    split at he
    · simp only at he
      rcases List.mem_append.1 he with he | he
      · exact entriesOfFiles_searches _ _ _ _ _ e he
      · exact ih _ e he
    · rcases List.mem_cons.1 he with rfl | he
      · rfl
      · exact ih _ e he
    · exact ih _ e he

/-- a candidate list in the populated table is either inherited or drawn from one cache class -/
theorem populate_searches_sub (c : Cache) (obs : List (Nat × List Path)) (es : List TEntry) :
    ∀ e' ∈ (populateSearches c obs es).1, ∀ paths, e'.searches = some paths →
      (∃ e ∈ es, e.searches = some paths) ∨
      (∃ len m, cacheGet c len = some m ∧ ∀ p ∈ paths, ∃ i, (p, i) ∈ m) := by
  induction es with
  | nil => intro e' he'; simp [populateSearches] at he'
  | cons e es ih =>
    unfold populateSearches
    rcases hrest : populateSearches c obs es with ⟨rest, okRest⟩
    rw [hrest] at ih
    simp only at ih
    simp only []
    have tl : ∀ (h : TEntry), (∀ paths, h.searches = some paths →
          (∃ e0 ∈ e :: es, e0.searches = some paths) ∨
          (∃ len m, cacheGet c len = some m ∧ ∀ p ∈ paths, ∃ i, (p, i) ∈ m)) →
        ∀ e' ∈ h :: rest, ∀ paths, e'.searches = some paths →
          (∃ e0 ∈ e :: es, e0.searches = some paths) ∨
          (∃ len m, cacheGet c len = some m ∧ ∀ p ∈ paths, ∃ i, (p, i) ∈ m) := by
      intro h hh e' he'
      rcases List.mem_cons.1 he' with rfl | he'
      · exact hh
      · intro paths hp
        rcases ih e' he' paths hp with ⟨e0, he0, h0⟩ | r
        · exact Or.inl ⟨e0, List.mem_cons_of_mem _ he0, h0⟩
        · exact Or.inr r
    have self : ∀ paths, e.searches = some paths →
          (∃ e0 ∈ e :: es, e0.searches = some paths) ∨
          (∃ len m, cacheGet c len = some m ∧ ∀ p ∈ paths, ∃ i, (p, i) ∈ m) :=
      fun paths hp => Or.inl ⟨e, List.mem_cons_self, hp⟩
    split
    · exact tl e self
    split
    · exact tl e self
    · rename_i m0 hm0
      split
      · rename_i o ho
        split
        · rename_i hv
          exact tl _ (fun paths hp => by
            simp only [Option.some.injEq] at hp
            subst hp
            exact Or.inr ⟨_, m0, hm0, validSearches_sub hv⟩)
        · exact tl _ (fun paths hp => by
            simp only [Option.some.injEq] at hp
            subst hp
            exact Or.inr ⟨_, m0, hm0, canonicalSearches_sub e m0⟩)
      · exact tl _ (fun paths hp => by
            simp only [Option.some.injEq] at hp
            subst hp
            exact Or.inr ⟨_, m0, hm0, canonicalSearches_sub e m0⟩)

/-! ### the idle run -/

theorem idle_core (H : Bytes → Bytes) (inp : RunIn) (hwf : FsWF inp.fs) (hne : inp.torrents ≠ [])
    (hfa : inp.faults = []) (st1 st2 : St)
    (hval : validateAll ⟨inp.fs, [], inp.faults⟩ (inp.scan ++ [inp.exportDir]) = (st1, true))
    (hflow : (if inp.resize then
        fixExportFileLengths st1 (buildTable inp.exportDir.path (dedupTorrents (sortTorrents inp.torrents)) 0)
        else (st1, Flow.continue)) = (st2, Flow.continue))
    (h2 : ROExt ⟨inp.fs, [], inp.faults⟩ st2)
    (hwork : ∃ ws, convertPiecesToWork (run H inp).table (dedupTorrents (sortTorrents inp.torrents)) = some ws)
    (hall : ∀ w ∈ (run H inp).work, VerE H inp.fs w ∧ ∀ s ∈ w.segs, s.ent.isPad = false →
      ∃ i, inp.fs.look s.ent.fullTarget = .file i ∧ (inp.fs.content i).length = s.ent.fileLength) :
    (run H inp).result = .ok () ∧ (run H inp).fs = inp.fs ∧
    (∀ o ∈ (run H inp).ops, o.kind.mutating = false) ∧
    (∀ c ∈ (run H inp).counters.getLast?, c.success = (run H inp).work.length ∧ c.failed = 0 ∧ c.fault = 0) := by
  have h2fs : st2.fs = inp.fs := h2.fs
  have h2fa : st2.faults = [] := h2.faults.trans hfa
  obtain ⟨e3, cf0⟩ := addExportPaths_idle inp.fs st2 []
    (buildTable inp.exportDir.path (dedupTorrents (sortTorrents inp.torrents)) 0) h2fs (CF.nil _)
  have hreg0 := fun e i he hpad hlook hlen => RunG.addExportPaths_registers st2 h2fa []
    (buildTable inp.exportDir.path (dedupTorrents (sortTorrents inp.torrents)) 0) e i he hpad hlook hlen
  rcases hadd : addExportPaths st2 []
    (buildTable inp.exportDir.path (dedupTorrents (sortTorrents inp.torrents)) 0) with ⟨st3, cache0⟩
  rw [hadd] at e3 cf0 hreg0
  simp only at e3 cf0 hreg0
  have h3fs : st3.fs = inp.fs := e3.fs.trans h2fs
  have h3fa : st3.faults = [] := e3.faults.trans h2fa
  have cf : CF inp.fs (inp.scan.foldl (fun c d => addByDirectory st3.fs c d.path
      (uniqueLengths (buildTable inp.exportDir.path (dedupTorrents (sortTorrents inp.torrents)) 0))) cache0) := by
    rw [h3fs]
    exact scan_cf hwf _ _ cf0
  have hspec := populate_spec (inp.scan.foldl (fun c d => addByDirectory st3.fs c d.path
      (uniqueLengths (buildTable inp.exportDir.path (dedupTorrents (sortTorrents inp.torrents)) 0))) cache0)
      inp.searchObs (buildTable inp.exportDir.path (dedupTorrents (sortTorrents inp.torrents)) 0)
  have hsub := populate_searches_sub (inp.scan.foldl (fun c d => addByDirectory st3.fs c d.path
      (uniqueLengths (buildTable inp.exportDir.path (dedupTorrents (sortTorrents inp.torrents)) 0))) cache0)
      inp.searchObs (buildTable inp.exportDir.path (dedupTorrents (sortTorrents inp.torrents)) 0)
  have hrel := (populateSearches_rel (inp.scan.foldl (fun c d => addByDirectory st3.fs c d.path
      (uniqueLengths (buildTable inp.exportDir.path (dedupTorrents (sortTorrents inp.torrents)) 0))) cache0)
      inp.searchObs (buildTable inp.exportDir.path (dedupTorrents (sortTorrents inp.torrents)) 0)).2
  rcases hpop : populateSearches (inp.scan.foldl (fun c d => addByDirectory st3.fs c d.path
      (uniqueLengths (buildTable inp.exportDir.path (dedupTorrents (sortTorrents inp.torrents)) 0))) cache0)
      inp.searchObs (buildTable inp.exportDir.path (dedupTorrents (sortTorrents inp.torrents)) 0) with ⟨table, okS⟩
  rw [hpop] at hspec hsub hrel
  simp only at hspec hsub hrel
  obtain ⟨htab, hrun⟩ := run_continue H inp hne st1 st2 st3 cache0 table okS hval hflow hadd hpop
  obtain ⟨ws, hws⟩ := hwork
  rw [htab] at hws
  obtain ⟨hw, ordered, hmem, hlen, hres, hops, hfs, hcnt⟩ := hrun ws hws
  rw [hw] at hall
  have hent := convertPiecesToWork_ent hws
  -- every piece of the run is found without touching anything
  have hP : ∀ w st, w ∈ ws → st.fs = inp.fs → st.faults = [] →
      (solvePiece H st w).2 = .found ∧ ROExt st (solvePiece H st w).1 := by
    intro w st hwm hsfs hsfa
    obtain ⟨hver, himg⟩ := hall w hwm
    apply solvePiece_idle
    · intro idx hidx
      rw [hsfa] at hidx
      cases hidx
    · intro seg hseg hpad
      obtain ⟨i, hlook, hlen⟩ := himg seg hseg hpad
      have het := hent w hwm seg hseg
      obtain ⟨e, he, s, hes⟩ := hrel seg.ent het
      have hpad0 : e.isPad = false := by rw [hes] at hpad; exact hpad
      have hlook0 : st2.fs.look e.fullTarget = .file i := by rw [h2fs]; rw [hes] at hlook; exact hlook
      have hlen0 : (st2.fs.content i).length = e.fileLength := by rw [h2fs]; rw [hes] at hlen; exact hlen
      have hreg := RunG.reg_scan (hreg0 e i he hpad0 hlook0 hlen0) st3.fs
        (uniqueLengths (buildTable inp.exportDir.path (dedupTorrents (sortTorrents inp.torrents)) 0)) inp.scan
      obtain ⟨m, hm, k, hk⟩ := hreg
      have hm' : cacheGet (inp.scan.foldl (fun c d => addByDirectory st3.fs c d.path
          (uniqueLengths (buildTable inp.exportDir.path (dedupTorrents (sortTorrents inp.torrents)) 0))) cache0)
          seg.ent.fileLength = some m := by rw [hes]; exact hm
      have hk' : (seg.ent.fullTarget, k) ∈ m := by rw [hes]; exact hk
      have hki : k = i := by
        have := cf.get hm' _ hk'
        simp only at this
        rw [hlook] at this
        cases this
        rfl
      subst hki
      obtain ⟨paths, hps, hor⟩ := hspec seg.ent het hpad m hm'
      -- the segment lies inside the image
      have hle : seg.off + seg.len ≤ (inp.fs.content k).length := by
        obtain ⟨parts, hparts, _⟩ := hver
        obtain ⟨b, hb⟩ := mapM_some_all hparts seg hseg
        unfold segBytesIn at hb
        rw [hpad, hlook] at hb
        simp only [Bool.false_eq_true, if_false] at hb
        split at hb
        · assumption
        · cases hb
      rw [hsfs]
      rcases hor with hv | hc
      · have hhead := C04_export_first seg.ent m paths k hv hk' (fun x hx hxe => by
          have := cf.get hm' x hx
          rw [hxe, hlook] at this
          cases this
          rfl)
        cases paths with
        | nil => cases hhead
        | cons a rest =>
          simp only [List.head?_cons, Option.some.injEq] at hhead
          subst hhead
          exact ⟨rest, k, hps, hlook, hle⟩
      · obtain ⟨rest, hrest⟩ := canonicalSearches_head seg.ent m k hk'
        rw [hrest] at hc
        subst hc
        exact ⟨rest, k, hps, hlook, hle⟩
    · intro seg hseg paths hps p hp
      have het := hent w hwm seg hseg
      rw [hsfs]
      rcases hsub seg.ent het paths hps with ⟨e0, he0, h0⟩ | ⟨len, m, hm, hall'⟩
      · rw [buildTable_searches _ _ _ e0 he0] at h0
        cases h0
      · obtain ⟨i, hi⟩ := hall' p hp
        exact ⟨i, cf.get hm _ hi⟩
    · rw [hsfs]
      exact hver
  obtain ⟨r1, r2, r3⟩ := solveAll_idle H (fun w => w ∈ ws) inp.fs hP ordered st3 ⟨0, 0, 0⟩ [] hmem h3fs h3fa
  have hext : ROExt ⟨inp.fs, [], inp.faults⟩ (solveAll H st3 ordered ⟨0, 0, 0⟩ []).1 := (h2.trans e3).trans r2
  refine ⟨?_, ?_, ?_, ?_⟩
  · rw [hres, r1]
    rfl
  · rw [hfs]
    exact hext.fs
  · rw [hops]
    obtain ⟨new, hnew, hmut⟩ := hext.ops
    rw [hnew]
    exact hmut
  · rw [hcnt, hw, ← hlen]
    intro c hc
    rcases r3 with ⟨r3, rfl⟩ | r3
    · rw [r3] at hc
      cases hc
    · rw [r3] at hc
      simp only [Option.mem_def, Option.some.injEq] at hc
      subst hc
      simp

/-- whatever way the run ends after validation, its table covers the table built from the torrents -/
theorem run_table_cover (H : Bytes → Bytes) (inp : RunIn) (hne : inp.torrents ≠ []) (st1 : St)
    (hval : validateAll ⟨inp.fs, [], inp.faults⟩ (inp.scan ++ [inp.exportDir]) = (st1, true)) :
    ∀ e ∈ buildTable inp.exportDir.path (dedupTorrents (sortTorrents inp.torrents)) 0,
      ∃ e' ∈ (run H inp).table, UpToSearches e e' := by
  have hemp : inp.torrents.isEmpty = false := by cases ht : inp.torrents <;> simp_all
  unfold run
  simp only [hemp, Bool.false_eq_true, if_false, hval]
  split
  · intro e he
    exact ⟨e, he, UpToSearches.refl e⟩
  · split <;> exact (populateSearches_rel _ _ _).1

end TB.RunI
