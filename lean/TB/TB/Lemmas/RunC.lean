/-
  Helper lemmas about TB.Model.Run (RunC): operations, reads, the single/multi scanners, the product search,
  the candidate index.
-/
import TB.Spec.ExportSpec
namespace TB.RC
/-! ### fault points, read-only extensions of a state -/

/-- unfolded form of `NoFutureFaults` (which is defined in `TB.Props.C02`) -/
def NFF (st : St) : Prop := ∀ idx ∈ st.faults, idx < st.ops.length

/-- `st'` is `st` after some non-mutating operations: same tree, same fault points, a longer log -/
structure ROExt (st st' : St) : Prop where
  fs : st'.fs = st.fs
  faults : st'.faults = st.faults
  ops : ∃ extra, st'.ops = st.ops ++ extra ∧ ∀ o ∈ extra, o.kind.mutating = false

theorem ROExt.refl (st : St) : ROExt st st := ⟨rfl, rfl, [], by simp, by simp⟩

theorem ROExt.trans {a b c : St} (h1 : ROExt a b) (h2 : ROExt b c) : ROExt a c := by
  obtain ⟨f1, g1, e1, o1, m1⟩ := h1
  obtain ⟨f2, g2, e2, o2, m2⟩ := h2
  refine ⟨f2.trans f1, g2.trans g1, e1 ++ e2, ?_, ?_⟩
  · rw [o2, o1, List.append_assoc]
  · intro o ho
    rcases List.mem_append.1 ho with h | h
    · exact m1 o h
    · exact m2 o h

theorem ROExt.nff {a b : St} (h : ROExt a b) (hn : NFF a) : NFF b := by
  obtain ⟨_, g, e, o, _⟩ := h
  intro idx hidx
  rw [g] at hidx
  have := hn idx hidx
  rw [o, List.length_append]
  omega

theorem ROExt.newOps {a b : St} (h : ROExt a b) : ∀ o ∈ newOps a b, o.kind.mutating = false := by
  obtain ⟨_, _, e, o, m⟩ := h
  unfold TB.newOps
  rw [o, List.drop_left]
  exact m

theorem newOps_self (st : St) : newOps st st = [] := by
  unfold newOps; simp

/-- an operation whose natural effect leaves the tree alone -/
theorem St.op_pure_spec {st : St} {k : OpKind} {p : Path} {b : Fs → Bool} {st1 : St} {ok : Bool}
    (h : st.op k p (fun fs => (fs, b fs)) = (st1, ok)) :
    st1.fs = st.fs ∧ st1.faults = st.faults ∧ st1.ops = st.ops ++ [⟨k, p, ok⟩] ∧ (NFF st → ok = b st.fs) := by
  unfold St.op at h
  split at h
  · rename_i hc
    obtain ⟨rfl, rfl⟩ := Prod.mk.inj h
    refine ⟨rfl, rfl, rfl, ?_⟩
    intro hn
    have := hn _ (List.contains_iff_mem.1 hc)
    omega
  · obtain ⟨rfl, rfl⟩ := Prod.mk.inj h
    exact ⟨rfl, rfl, rfl, fun _ => rfl⟩

theorem St.op_pure_ext {st : St} {k : OpKind} {p : Path} {b : Fs → Bool} {st1 : St} {ok : Bool}
    (hk : k.mutating = false)
    (h : st.op k p (fun fs => (fs, b fs)) = (st1, ok)) : ROExt st st1 := by
  obtain ⟨h1, h2, h3, _⟩ := St.op_pure_spec h
  refine ⟨h1, h2, [⟨k, p, ok⟩], h3, ?_⟩
  intro o ho
  rw [List.mem_singleton] at ho
  subst ho
  exact hk

/-! ### `read_bytes` -/

theorem readAt_zero (fs : Fs) (i off : Nat) : fs.readAt i off 0 = [] := by
  unfold Fs.readAt; simp

theorem readBytes_spec (st : St) (p : Path) (len off : Nat) :
    ROExt st (st.readBytes p len off).1 ∧
    (∀ bytes i, (st.readBytes p len off).2 = some bytes → st.fs.look p = .file i →
      bytes = st.fs.readAt i off len) ∧
    (NFF st → ∀ i, st.fs.look p = .file i → (st.readBytes p len off).2 = some (st.fs.readAt i off len)) := by
  unfold St.readBytes
  split
  rename_i st1 ok1 h1
  have e1 := St.op_pure_ext (by rfl) h1
  have s1 := St.op_pure_spec h1
  split
  · rename_i hok1
    refine ⟨e1, by simp, ?_⟩
    intro hn i hi
    have := s1.2.2.2 hn
    rw [hi] at this
    simp [this] at hok1
  · split
    rename_i st2 ok2 h2
    have e2 := e1.trans (St.op_pure_ext (by rfl) h2)
    have s2 := St.op_pure_spec h2
    split
    · rename_i hok2
      refine ⟨e2, by simp, ?_⟩
      intro hn i hi
      have := s2.2.2.2 (e1.nff hn)
      simp [this] at hok2
    · split
      · rename_i hlen
        have hlen : len = 0 := by simpa using hlen
        subst hlen
        refine ⟨e2, ?_, ?_⟩
        · intro bytes i hb _
          simp at hb
          rw [readAt_zero]; exact hb
        · intro _ i _
          rw [readAt_zero]
      · split
        rename_i st3 ok3 h3
        have e3 := e2.trans (St.op_pure_ext (by rfl) h3)
        have s3 := St.op_pure_spec h3
        split
        · rename_i hok3
          refine ⟨e3, by simp, ?_⟩
          intro hn i hi
          have := s3.2.2.2 (e2.nff hn)
          rw [e2.fs, hi] at this
          simp [this] at hok3
        · split
          · rename_i i hi
            rw [e3.fs] at hi
            refine ⟨e3, ?_, ?_⟩
            · intro bytes j hb hj
              rw [hi] at hj
              cases hj
              simp at hb
              rw [← hb, e3.fs]
            · intro _ j hj
              rw [hi] at hj
              cases hj
              rw [e3.fs]
          · rename_i hno
            refine ⟨e3, by simp, ?_⟩
            intro _ i hi
            rw [e3.fs] at hno
            exact absurd hi (hno i)

theorem readBytes_ext (st : St) (p : Path) (len off : Nat) : ROExt st (st.readBytes p len off).1 :=
  (readBytes_spec st p len off).1

theorem readBytes_eq {st st1 : St} {p : Path} {len off : Nat} {bytes : Bytes}
    (h : st.readBytes p len off = (st1, some bytes)) {i : Nat} (hi : st.fs.look p = .file i) :
    bytes = st.fs.readAt i off len :=
  (readBytes_spec st p len off).2.1 bytes i (by rw [h]) hi

theorem readBytes_nff {st : St} (hn : NFF st) {p : Path} {i : Nat} (hi : st.fs.look p = .file i) (len off : Nat) :
    st.readBytes p len off = ((st.readBytes p len off).1, some (st.fs.readAt i off len)) := by
  have := (readBytes_spec st p len off).2.2 hn i hi
  rw [← this]

/-! ### `firstM` in `Option`, the writer -/

theorem firstM_option_some {α β : Type} {f : α → Option β} {l : List α} {r : β}
    (h : l.firstM f = some r) : ∃ c ∈ l, f c = some r := by
  induction l with
  | nil => simp [List.firstM] at h
  | cons a as ih =>
    cases ha : f a with
    | some b =>
      simp [List.firstM, ha] at h
      exact ⟨a, by simp, by rw [ha, h]⟩
    | none =>
      simp [List.firstM, ha] at h
      obtain ⟨c, hc, hfc⟩ := ih h
      exact ⟨c, by simp [hc], hfc⟩

theorem firstM_option_isSome {α β : Type} {f : α → Option β} {l : List α} {c : α}
    (hc : c ∈ l) (hf : (f c).isSome = true) : (l.firstM f).isSome = true := by
  induction l with
  | nil => cases hc
  | cons a as ih =>
    cases ha : f a with
    | some b => simp [List.firstM, ha]
    | none =>
      simp [List.firstM, ha]
      rcases List.mem_cons.1 hc with rfl | h
      · rw [ha] at hf; cases hf
      · simpa using ih h

theorem firstM_option_head {α β : Type} {f : α → Option β} {l : List α} {c : α} {r : β}
    (hc : l.head? = some c) (hf : f c = some r) : l.firstM f = some r := by
  cases l with
  | nil => cases hc
  | cons a as =>
    simp at hc; subst hc
    simp [List.firstM, hf]

theorem writeSegs_ne_notFound (st : St) (pairs : List (WSeg × Option Path)) (buf : Bytes) (start : Nat) :
    (writeSegs st pairs buf start).2 ≠ .notFound := by
  induction pairs generalizing st start with
  | nil => simp [writeSegs]
  | cons x rest ih =>
    obtain ⟨seg, src⟩ := x
    unfold writeSegs
    simp only
    split
    · exact ih _ _
    split
    · exact ih _ _
    split
    · simp
    split
    · simp
    split
    · split
      · simp
      split
      · simp
      split
      · simp
      split
      · simp
      · exact ih _ _
    · simp


/-! ### single scan, preload of one segment -/

theorem scanSingle_ext (H : Bytes → Bytes) (hash : Bytes) (seg : WSeg) (st : St) (paths : List Path) :
    ROExt st (scanSingle H hash seg st paths).1 := by
  induction paths generalizing st with
  | nil => exact ROExt.refl _
  | cons p ps ih =>
    simp only [scanSingle]
    have e := readBytes_ext st p seg.len seg.off
    split
    · rename_i st1 h; rw [h] at e; exact e
    · rename_i st1 bytes h; rw [h] at e
      split
      · exact e
      · exact e.trans (ih st1)

theorem scanSingle_none {H : Bytes → Bytes} {hash : Bytes} {seg : WSeg} {st st' : St} {paths : List Path}
    (h : scanSingle H hash seg st paths = (st', .ok none)) :
    ∀ p ∈ paths, ∀ i, st.fs.look p = .file i → H (st.fs.readAt i seg.off seg.len) ≠ hash := by
  induction paths generalizing st with
  | nil => intro p hp; cases hp
  | cons q ps ih =>
    simp only [scanSingle] at h
    split at h
    · cases h
    · rename_i st1 bytes hr
      split at h
      · cases h
      · rename_i hne
        have e := readBytes_ext st q seg.len seg.off
        rw [hr] at e
        intro p hp i hi
        rcases List.mem_cons.1 hp with rfl | hp
        · have := readBytes_eq hr hi
          rw [← this]
          intro hh
          exact hne (by simp [hh])
        · have := ih h p hp i (by rw [e.fs]; exact hi)
          rw [e.fs] at this
          exact this

theorem preloadSeg_ext (seg : WSeg) (st : St) (paths : List Path) (acc : List (Option Path × Bytes)) :
    ROExt st (preloadSeg seg st paths acc).1 := by
  induction paths generalizing st acc with
  | nil => exact ROExt.refl _
  | cons p ps ih =>
    simp only [preloadSeg]
    have e := readBytes_ext st p seg.len seg.off
    split
    · rename_i st1 h; rw [h] at e; exact e
    · rename_i st1 bytes h; rw [h] at e
      split
      · exact e.trans (ih st1 _)
      · exact e.trans (ih st1 _)

theorem preloadSeg_spec {seg : WSeg} {st st' : St} {paths : List Path} {acc r : List (Option Path × Bytes)}
    (h : preloadSeg seg st paths acc = (st', .ok r)) :
    (∃ extra, r = acc ++ extra) ∧
    ∀ p ∈ paths, ∀ i, st.fs.look p = .file i → ∃ x ∈ r, x.2 = st.fs.readAt i seg.off seg.len := by
  induction paths generalizing st acc with
  | nil =>
    simp only [preloadSeg] at h
    obtain ⟨_, h2⟩ := Prod.mk.inj h
    cases h2
    exact ⟨⟨[], by simp⟩, fun p hp => by cases hp⟩
  | cons q ps ih =>
    simp only [preloadSeg] at h
    split at h
    · cases h
    · rename_i st1 bytes hr
      have e := readBytes_ext st q seg.len seg.off
      rw [hr] at e
      split at h
      · rename_i hany
        obtain ⟨⟨extra, hex⟩, hall⟩ := ih h
        refine ⟨⟨extra, hex⟩, ?_⟩
        intro p hp i hi
        rcases List.mem_cons.1 hp with rfl | hp
        · have hb := readBytes_eq hr hi
          obtain ⟨x, hx, hxb⟩ := List.any_eq_true.1 hany
          refine ⟨x, ?_, ?_⟩
          · rw [hex]; exact List.mem_append_left _ hx
          · rw [← hb]; simpa using hxb
        · have := hall p hp i (by rw [e.fs]; exact hi)
          rw [e.fs] at this
          exact this
      · obtain ⟨⟨extra, hex⟩, hall⟩ := ih h
        refine ⟨⟨(some q, bytes) :: extra, by rw [hex]; simp⟩, ?_⟩
        intro p hp i hi
        rcases List.mem_cons.1 hp with rfl | hp
        · have hb := readBytes_eq hr hi
          refine ⟨(some p, bytes), ?_, hb⟩
          rw [hex]; simp
        · have := hall p hp i (by rw [e.fs]; exact hi)
          rw [e.fs] at this
          exact this

theorem preloadSeg_ok {seg : WSeg} {st : St} (hn : NFF st) {paths : List Path}
    (hr : ∀ p ∈ paths, ∃ i, st.fs.look p = .file i) (acc : List (Option Path × Bytes)) :
    ∃ r, (preloadSeg seg st paths acc).2 = .ok r := by
  induction paths generalizing st acc with
  | nil => exact ⟨acc, rfl⟩
  | cons q ps ih =>
    obtain ⟨i, hi⟩ := hr q (by simp)
    have e := readBytes_ext st q seg.len seg.off
    have hrest : ∀ p ∈ ps, ∃ i, (st.readBytes q seg.len seg.off).1.fs.look p = .file i := by
      intro p hp; rw [e.fs]; exact hr p (by simp [hp])
    simp only [preloadSeg]
    rw [readBytes_nff hn hi]
    simp only
    split
    · exact ih (e.nff hn) hrest _
    · exact ih (e.nff hn) hrest _

theorem preloadSeg_head {seg : WSeg} {st st' : St} {p : Path} {ps : List Path} {r : List (Option Path × Bytes)}
    {i : Nat} (hi : st.fs.look p = .file i)
    (h : preloadSeg seg st (p :: ps) [] = (st', .ok r)) :
    r.head? = some (some p, st.fs.readAt i seg.off seg.len) := by
  simp only [preloadSeg] at h
  split at h
  · cases h
  · rename_i st1 bytes hr
    have hb := readBytes_eq hr hi
    simp only [List.any_nil, Bool.false_eq_true, if_false, List.nil_append] at h
    obtain ⟨⟨extra, hex⟩, _⟩ := preloadSeg_spec h
    rw [hex, hb]; rfl


/-! ### preload -/

/-- what `preload` guarantees about the candidate list of one segment -/
structure CandOK (fs : Fs) (seg : WSeg) (cands : List (Option Path × Bytes)) : Prop where
  pad : seg.ent.isPad = true → cands = [(none, List.replicate seg.len 0)]
  empty : seg.ent.isPad = false → seg.ent.searches = none → cands = [(none, [])]
  all : seg.ent.isPad = false → ∀ paths, seg.ent.searches = some paths →
    ∀ p ∈ paths, ∀ i, fs.look p = .file i → ∃ x ∈ cands, x.2 = fs.readAt i seg.off seg.len
  head : seg.ent.isPad = false → ∀ p ps i, seg.ent.searches = some (p :: ps) → fs.look p = .file i →
    cands.head? = some (some p, fs.readAt i seg.off seg.len)

inductive All2 {α β : Type} (R : α → β → Prop) : List α → List β → Prop
  | nil : All2 R [] []
  | cons {a b l1 l2} : R a b → All2 R l1 l2 → All2 R (a :: l1) (b :: l2)

theorem preload_ext (st : St) (segs : List WSeg) : ROExt st (preload st segs).1 := by
  induction segs generalizing st with
  | nil => exact ROExt.refl _
  | cons seg rest ih =>
    simp only [preload]
    split
    · have := ih st
      split <;> (rename_i h; rw [h] at this; exact this)
    · split
      · have := ih st
        split <;> (rename_i h; rw [h] at this; exact this)
      · rename_i paths _
        have e1 := preloadSeg_ext seg st paths []
        split
        · rename_i st1 r h1
          rw [h1] at e1
          have e2 := ih st1
          split <;> (rename_i h; rw [h] at e2; exact e1.trans e2)
        · rename_i h; rw [h] at e1; exact e1
        · rename_i h; rw [h] at e1; exact e1

theorem preload_spec {st st' : St} {segs : List WSeg} {loaded : List (List (Option Path × Bytes))}
    (h : preload st segs = (st', .ok loaded)) : All2 (CandOK st.fs) segs loaded := by
  induction segs generalizing st st' loaded with
  | nil =>
    simp only [preload] at h
    obtain ⟨_, h2⟩ := Prod.mk.inj h
    cases h2
    exact .nil
  | cons seg rest ih =>
    simp only [preload] at h
    split at h
    · rename_i hpad
      split at h
      · rename_i st1 r hr
        obtain ⟨_, h2⟩ := Prod.mk.inj h
        cases h2
        refine .cons ⟨fun _ => rfl, ?_, ?_, ?_⟩ (ih hr) <;> (intro hp; rw [hpad] at hp; cases hp)
      · cases h
      · cases h
    · rename_i hpad
      have hpad : seg.ent.isPad = false := by simpa using hpad
      split at h
      · rename_i hs
        split at h
        · rename_i st1 r hr
          obtain ⟨_, h2⟩ := Prod.mk.inj h
          cases h2
          refine .cons ⟨?_, fun _ _ => rfl, ?_, ?_⟩ (ih hr)
          · intro hp; rw [hpad] at hp; cases hp
          · intro _ paths hp; rw [hs] at hp; cases hp
          · intro _ p ps i hp; rw [hs] at hp; cases hp
        · cases h
        · cases h
      · rename_i paths hs
        split at h
        · rename_i st1 r h1
          have e1 := preloadSeg_ext seg st paths []
          rw [h1] at e1
          split at h
          · rename_i st2 rs hr
            obtain ⟨_, h2⟩ := Prod.mk.inj h
            cases h2
            have := ih hr
            rw [e1.fs] at this
            refine .cons ⟨?_, ?_, ?_, ?_⟩ this
            · intro hp; rw [hpad] at hp; cases hp
            · intro _ hp; rw [hs] at hp; cases hp
            · intro _ paths' hp
              rw [hs] at hp; cases hp
              exact (preloadSeg_spec h1).2
            · intro _ p ps i hp hi
              rw [hs] at hp; cases hp
              exact preloadSeg_head hi h1
          · cases h
          · cases h
        · cases h
        · cases h

theorem preload_ok {st : St} (hn : NFF st) {segs : List WSeg}
    (hr : ∀ seg ∈ segs, ∀ paths, seg.ent.searches = some paths → ∀ p ∈ paths, ∃ i, st.fs.look p = .file i) :
    ∃ loaded, (preload st segs).2 = .ok loaded := by
  induction segs generalizing st with
  | nil => exact ⟨[], rfl⟩
  | cons seg rest ih =>
    have hrest : ∀ s ∈ rest, ∀ paths, s.ent.searches = some paths → ∀ p ∈ paths, ∃ i, st.fs.look p = .file i :=
      fun s hs => hr s (by simp [hs])
    simp only [preload]
    split
    · obtain ⟨l, hl⟩ := ih hn hrest
      split <;> (rename_i h; rw [h] at hl; first | exact ⟨_, rfl⟩ | cases hl)
    · split
      · obtain ⟨l, hl⟩ := ih hn hrest
        split <;> (rename_i h; rw [h] at hl; first | exact ⟨_, rfl⟩ | cases hl)
      · rename_i paths hs
        obtain ⟨r, hr1⟩ := preloadSeg_ok (seg := seg) hn (hr seg (by simp) paths hs) []
        have e1 := preloadSeg_ext seg st paths []
        split
        · rename_i st1 r' h1
          rw [h1] at e1
          obtain ⟨l, hl⟩ := ih (e1.nff hn) (by rw [e1.fs]; exact hrest)
          split <;> (rename_i h; rw [h] at hl; first | exact ⟨_, rfl⟩ | cases hl)
        · rename_i h; rw [h] at hr1; cases hr1
        · rename_i h; rw [h] at hr1; cases hr1

theorem forall₂_getElem? {α β : Type} {R : α → β → Prop} {l1 : List α} {l2 : List β}
    (h : All2 R l1 l2) :
    l1.length = l2.length ∧ ∀ (k : Nat) a b, l1[k]? = some a → l2[k]? = some b → R a b := by
  induction h with
  | nil => exact ⟨rfl, by simp⟩
  | cons hab _ ih =>
    refine ⟨by simp [ih.1], ?_⟩
    intro k a b ha hb
    cases k with
    | zero => simp at ha hb; subst ha; subst hb; exact hab
    | succ k => simp at ha hb; exact ih.2 k a b ha hb


/-! ### candidate orders (`validSearches`) -/

theorem similarity_eq_zero {p partialT fullT : Path} : similarity p partialT fullT = 0 ↔ p = fullT := by
  unfold similarity
  constructor
  · intro h
    split at h
    · rename_i h'; simpa using h'
    · split at h
      · cases h
      · split at h <;> cases h
  · intro h; simp [h]

theorem sorted_head_le {α : Type} (f : α → Nat) (a : α) (l : List α)
    (h : (List.zip (a :: l) ((a :: l).drop 1)).all (fun pq => decide (f pq.1 ≤ f pq.2)) = true) :
    ∀ x ∈ a :: l, f a ≤ f x := by
  induction l generalizing a with
  | nil => intro x hx; simp at hx; subst hx; exact Nat.le_refl _
  | cons b l ih =>
    simp only [List.drop_one, List.tail_cons, List.zip_cons_cons, List.all_cons, Bool.and_eq_true,
      decide_eq_true_eq] at h
    intro x hx
    rcases List.mem_cons.1 hx with rfl | hx
    · exact Nat.le_refl _
    · have := ih b (by simpa using h.2) x hx
      omega

theorem validSearches_mem {e : TEntry} {m : List (Path × Nat)} {obs : List Path}
    (h : validSearches e m obs = true) :
    ∀ x ∈ m, ∃ p ∈ obs, (∃ y ∈ m, y.1 = p ∧ y.2 = x.2) ∧
      similarity p e.partialTarget e.fullTarget ≤ similarity x.1 e.partialTarget e.fullTarget := by
  unfold validSearches at h
  simp only [Bool.and_eq_true] at h
  obtain ⟨⟨⟨⟨_, _⟩, _⟩, h4⟩, _⟩ := h
  intro x hx
  have := List.all_eq_true.1 h4 x hx
  obtain ⟨p, hp, hpp⟩ := List.any_eq_true.1 this
  simp only [Bool.and_eq_true, decide_eq_true_eq, beq_iff_eq] at hpp
  obtain ⟨hino, hsim⟩ := hpp
  refine ⟨p, hp, ?_, hsim⟩
  rw [Option.map_eq_some_iff] at hino
  obtain ⟨y, hy, hy2⟩ := hino
  have hm := List.mem_of_find?_eq_some hy
  have hp := List.find?_some hy
  exact ⟨y, hm, by simpa using hp, hy2⟩

theorem validSearches_head {e : TEntry} {m : List (Path × Nat)} {obs : List Path}
    (h : validSearches e m obs = true) (a : Path) (l : List Path) (ho : obs = a :: l) :
    ∀ x ∈ obs, similarity a e.partialTarget e.fullTarget ≤ similarity x e.partialTarget e.fullTarget := by
  unfold validSearches at h
  simp only [Bool.and_eq_true] at h
  obtain ⟨_, h5⟩ := h
  subst ho
  exact sorted_head_le (fun p => similarity p e.partialTarget e.fullTarget) a l h5


/-! ### the file cache, `addByDirectory` -/

/-- path `p` is registered in the cache under length `l` -/
def Reg (c : Cache) (l : Nat) (p : Path) : Prop := ∃ m, cacheGet c l = some m ∧ ∃ j, (p, j) ∈ m

theorem cacheGet_cons (l' : Nat) (m : List (Path × Nat)) (c : Cache) (l : Nat) :
    cacheGet ((l', m) :: c) l = if l' = l then some m else cacheGet c l := by
  unfold cacheGet
  by_cases h : l' = l
  · simp [h]
  · simp [h]

theorem cacheGet_filter_ne {l' l : Nat} (h : l' ≠ l) (c : Cache) :
    cacheGet (c.filter (fun e => e.1 != l')) l = cacheGet c l := by
  unfold cacheGet
  rw [List.find?_filter]
  congr 2
  funext e
  by_cases he : e.1 = l
  · have : e.1 ≠ l' := by omega
    simp [he]
    omega
  · simp [he]

theorem cacheGet_insert (c : Cache) (l' : Nat) (p' : Path) (i' : Nat) (l : Nat) :
    cacheGet (cacheInsert c l' p' i') l =
      if l' = l then some ((p', i') :: ((cacheGet c l).getD []).filter (fun e => e.1 != p')) else cacheGet c l := by
  unfold cacheInsert
  cases hc : cacheGet c l' with
  | none =>
    simp only [cacheGet_cons]
    split
    · rename_i h; subst h; simp [hc]
    · rfl
  | some m =>
    simp only [cacheGet_cons]
    split
    · rename_i h; subst h; simp [hc]
    · rename_i h; exact cacheGet_filter_ne h c

theorem reg_insert {c : Cache} {l : Nat} {p : Path} (h : Reg c l p) (l' : Nat) (p' : Path) (i' : Nat) :
    Reg (cacheInsert c l' p' i') l p := by
  obtain ⟨m, hm, j, hj⟩ := h
  unfold Reg
  rw [cacheGet_insert]
  split
  · refine ⟨_, rfl, ?_⟩
    by_cases hp : p = p'
    · exact ⟨i', by simp [hp]⟩
    · refine ⟨j, List.mem_cons_of_mem _ ?_⟩
      rw [hm]
      simp only [Option.getD_some]
      exact List.mem_filter.2 ⟨hj, by simpa using hp⟩
  · exact ⟨m, hm, j, hj⟩

theorem reg_insert_self (c : Cache) (l : Nat) (p : Path) (i : Nat) : Reg (cacheInsert c l p i) l p := by
  unfold Reg
  rw [cacheGet_insert]
  simp only [if_true]
  exact ⟨_, rfl, i, by simp⟩

/-- one step of `addByDirectory` -/
def addStep (fs : Fs) (dir : Path) (lengths : List Nat) (c : Cache) (e : Path × Nat) : Cache :=
  let len := (fs.content e.2).length
  if dir.length ≤ e.1.length && e.1.take dir.length == dir && e.1 != dir && lengths.contains len
  then cacheInsert c len e.1 e.2 else c

theorem addByDirectory_eq (fs : Fs) (c : Cache) (dir : Path) (lengths : List Nat) :
    addByDirectory fs c dir lengths = fs.files.foldl (addStep fs dir lengths) c := rfl

theorem reg_addStep {c : Cache} {l : Nat} {p : Path} (h : Reg c l p) (fs : Fs) (dir : Path) (lengths : List Nat)
    (e : Path × Nat) : Reg (addStep fs dir lengths c e) l p := by
  unfold addStep
  simp only
  split
  · exact reg_insert h _ _ _
  · exact h

theorem reg_foldl {c : Cache} {l : Nat} {p : Path} (h : Reg c l p) (fs : Fs) (dir : Path) (lengths : List Nat)
    (files : List (Path × Nat)) : Reg (files.foldl (addStep fs dir lengths) c) l p := by
  induction files generalizing c with
  | nil => exact h
  | cons e es ih => exact ih (reg_addStep h fs dir lengths e)

theorem foldl_registers (fs : Fs) (dir : Path) (lengths : List Nat) (files : List (Path × Nat)) (c : Cache)
    (p : Path) (i : Nat) (hmem : (p, i) ∈ files)
    (hdir : dir.length < p.length ∧ p.take dir.length = dir)
    (hlen : lengths.contains (fs.content i).length = true) :
    Reg (files.foldl (addStep fs dir lengths) c) (fs.content i).length p := by
  induction files generalizing c with
  | nil => cases hmem
  | cons e es ih =>
    rcases List.mem_cons.1 hmem with rfl | h
    · rw [List.foldl_cons]
      apply reg_foldl
      unfold addStep
      have hne : p ≠ dir := by
        intro h; rw [h] at hdir; omega
      have : (dir.length ≤ p.length && p.take dir.length == dir && p != dir &&
          lengths.contains (fs.content i).length) = true := by
        simp only [Bool.and_eq_true, decide_eq_true_eq, bne_iff_ne, beq_iff_eq, ne_eq]
        exact ⟨⟨⟨by omega, hdir.2⟩, hne⟩, hlen⟩
      simp only [this, if_true]
      exact reg_insert_self _ _ _ _
    · exact ih _ h


/-! ### choosing one candidate per segment -/

theorem picks_of_cands (parts : List Bytes) (loaded : List (List (Option Path × Bytes)))
    (hlen : parts.length = loaded.length)
    (h : ∀ (k : Nat) part cands, parts[k]? = some part → loaded[k]? = some cands → ∃ x ∈ cands, x.2 = part) :
    ∃ picks : List (Option Path × Bytes), picks.length = loaded.length ∧
      (∀ k (hk : k < picks.length) (hl : k < loaded.length), picks[k] ∈ loaded[k]) ∧
      picks.flatMap (·.2) = parts.flatten := by
  induction parts generalizing loaded with
  | nil =>
    cases loaded with
    | nil => exact ⟨[], rfl, fun k hk => (by cases hk), rfl⟩
    | cons _ _ => simp at hlen
  | cons part parts ih =>
    cases loaded with
    | nil => simp at hlen
    | cons cands loaded =>
      obtain ⟨x, hx, hxp⟩ := h 0 part cands (by simp) (by simp)
      obtain ⟨picks, hpl, hpm, hpf⟩ := ih loaded (by simpa using hlen) (fun k part cands hp hc =>
        h (k + 1) part cands (by simpa using hp) (by simpa using hc))
      refine ⟨x :: picks, by simp [hpl], ?_, by simp [hpf, hxp]⟩
      intro k hk hl
      cases k with
      | zero => simpa using hx
      | succ k =>
        simp only [List.getElem_cons_succ]
        exact hpm k (by simpa using hk) (by simpa using hl)

theorem cand_supplies {fs : Fs} {seg : WSeg} {cands : List (Option Path × Bytes)} {part : Bytes}
    (hc : CandOK fs seg cands)
    (hreadable : ∀ paths, seg.ent.searches = some paths → ∀ p ∈ paths, ∃ i, fs.look p = .file i)
    (hne : seg.ent.searches ≠ some [])
    (hav : (seg.ent.isPad = true → part = List.replicate seg.len 0) ∧
        (seg.ent.isPad = false → seg.len = 0 → part = []) ∧
        (seg.ent.isPad = false → seg.len ≠ 0 →
          ∃ paths p i, seg.ent.searches = some paths ∧ p ∈ paths ∧ fs.look p = .file i
            ∧ part = fs.readAt i seg.off seg.len)) :
    ∃ x ∈ cands, x.2 = part := by
  cases hpad : seg.ent.isPad with
  | true =>
    rw [hc.pad hpad, hav.1 hpad]
    exact ⟨_, List.mem_singleton.2 rfl, rfl⟩
  | false =>
    by_cases hl : seg.len = 0
    · rw [hav.2.1 hpad hl]
      cases hs : seg.ent.searches with
      | none => rw [hc.empty hpad hs]; exact ⟨_, List.mem_singleton.2 rfl, rfl⟩
      | some paths =>
        cases paths with
        | nil => exact absurd hs hne
        | cons p ps =>
          obtain ⟨i, hi⟩ := hreadable _ hs p (by simp)
          obtain ⟨x, hx, hxb⟩ := hc.all hpad _ hs p (by simp) i hi
          rw [hl, readAt_zero] at hxb
          exact ⟨x, hx, hxb⟩
    · obtain ⟨paths, p, i, hs, hp, hi, hpart⟩ := hav.2.2 hpad hl
      obtain ⟨x, hx, hxb⟩ := hc.all hpad _ hs p hp i hi
      exact ⟨x, hx, by rw [hxb, hpart]⟩


/-! ### the export tree as first candidate -/

theorem mapM_option_some {α β : Type} {f : α → Option β} {l : List α} {ys : List β}
    (h : l.mapM f = some ys) (d : β) : ys = l.map (fun a => (f a).getD d) := by
  induction l generalizing ys with
  | nil => simp at h; simp [h]
  | cons a l ih =>
    rw [List.mapM_cons] at h
    cases ha : f a with
    | none => simp [ha] at h
    | some b =>
      cases hl : l.mapM f with
      | none => simp [ha, hl] at h
      | some bs =>
        simp [ha, hl] at h
        rw [← h, ih hl]
        simp [ha]

theorem mem_zip_map_self {α β : Type} (g : α → β) (l : List α) : ∀ x ∈ List.zip l (l.map g), x.2 = g x.1 := by
  induction l with
  | nil => intro x hx; cases hx
  | cons a l ih =>
    intro x hx
    simp only [List.map_cons, List.zip_cons_cons, List.mem_cons] at hx
    rcases hx with rfl | hx
    · rfl
    · exact ih x hx

/-- the candidate the export tree itself supplies for a segment -/
def firstOf (fs : Fs) (s : WSeg) : Option Path × Bytes :=
  (if s.ent.isPad then none else some s.ent.fullTarget, (segBytesIn fs s).getD [])

theorem cand_head {fs : Fs} {seg : WSeg} {cands : List (Option Path × Bytes)} (hc : CandOK fs seg cands)
    (hfirst : seg.ent.isPad = false →
      ∃ rest i, seg.ent.searches = some (seg.ent.fullTarget :: rest) ∧ fs.look seg.ent.fullTarget = .file i
        ∧ seg.off + seg.len ≤ (fs.content i).length) :
    cands.head? = some (firstOf fs seg) := by
  unfold firstOf segBytesIn
  cases hpad : seg.ent.isPad with
  | true => rw [hc.pad hpad]; simp
  | false =>
    obtain ⟨rest, i, hs, hi, hle⟩ := hfirst hpad
    rw [hc.head hpad _ _ i hs hi]
    simp [hi, hle]

end TB.RC