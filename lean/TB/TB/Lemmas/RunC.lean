/-
  Helper lemmas about TB.Model.Run (RunC).
-/
import TB.Spec.ExportSpec
namespace TB

end TB
