/-
  Helper lemmas for C08, part 2: soundness of `decodeAny` / `decodeListLoop` / `decodeDictLoop`
  by induction on the fuel, and absence of panics.
-/
import TB.Lemmas.BencodeBase
namespace TB

/-! ### positions inside an ambient full input -/

/-- `inp` is the suffix of `full` starting at absolute position `pos` -/
def At (full : Bytes) (pos : Nat) (inp : Bytes) : Prop := pos ≤ full.length ∧ full.drop pos = inp

theorem At.zero (inp : Bytes) : At inp 0 inp := ⟨Nat.zero_le _, rfl⟩

theorem At.append {full : Bytes} {pos : Nat} {a r : Bytes} (h : At full pos (a ++ r)) :
    At full (pos + a.length) r ∧ pos + a.length ≤ full.length
      ∧ slice full pos (pos + a.length) = a := by
  obtain ⟨h1, h2⟩ := h
  have hl : full.length - pos = a.length + r.length := by
    have := congrArg List.length h2
    simpa using this
  refine ⟨⟨by omega, ?_⟩, by omega, ?_⟩
  · rw [← List.drop_drop, h2]; simp
  · unfold slice
    rw [h2]
    have : pos + a.length - pos = a.length := by omega
    rw [this]; simp

theorem span_ok {full : Bytes} {pos : Nat} {a r : Bytes} (h : At full pos (a ++ r)) {s c : Nat}
    (hs : s = pos) (hc : c = pos + a.length) :
    (decide (s ≤ c) && decide (c ≤ full.length) && slice full s c == a) = true := by
  obtain ⟨_, h2, h3⟩ := h.append
  subst hs hc
  simp [h2, h3]

/-! ### soundness statements, indexed by fuel -/

theorem decodeStrTok_ok {inp : Bytes} {pos : Nat} {st : StrTok} {r : Bytes}
    (h : decodeStrTok inp pos = .ok (st, r)) :
    inp = encodeStr st.val ++ r ∧ st.s = pos ∧ st.c = pos + (encodeStr st.val).length
      ∧ st.val.length ≤ usizeMax := by
  unfold decodeStrTok at h
  cases hd : decodeStr inp pos with
  | err => simp [hd] at h
  | panic => simp [hd] at h
  | ok x =>
    obtain ⟨v, c, r'⟩ := x
    simp only [hd, Res.ok.injEq, Prod.mk.injEq] at h
    obtain ⟨rfl, rfl⟩ := h
    obtain ⟨e1, e2, e3⟩ := decodeStr_ok hd
    exact ⟨e1, rfl, e2, e3⟩

theorem strSpanOk_of {full : Bytes} {pos : Nat} {st : StrTok} {r : Bytes}
    (h : At full pos (encodeStr st.val ++ r)) (hs : st.s = pos)
    (hc : st.c = pos + (encodeStr st.val).length) : strSpanOk full st = true := by
  unfold strSpanOk
  exact span_ok h hs hc

/-- the key that the next dictionary key must exceed -/
def lastKey : List StrTok → List Bytes
  | [] => []
  | k :: _ => [k.val]

theorem map_fst_eraseDict : ∀ (ks : List StrTok) (vs : List Tok), ks.length = vs.length →
    (eraseDict ks vs).map (·.1) = ks.map (·.val)
  | [], [], _ => by simp [eraseDict]
  | [], _ :: _, h => by simp at h
  | _ :: _, [], h => by simp at h
  | k :: ks, v :: vs, h => by
    simp only [eraseDict, List.map_cons, List.cons.injEq, true_and]
    exact map_fst_eraseDict ks vs (by simpa using h)

def SoundAny (fuel : Nat) : Prop :=
  ∀ (inp : Bytes) (pos : Nat) (t : Tok) (rest : Bytes), decodeAny fuel inp pos = .ok (t, rest) →
    inp = encode (erase t) ++ rest ∧ t.start = pos ∧ t.cont = pos + (encode (erase t)).length
      ∧ canon (erase t) = true ∧ ∀ full, At full pos inp → spansExact full t = true

def SoundList (fuel : Nat) : Prop :=
  ∀ (inp : Bytes) (pos start : Nat) (acc : List Tok) (t : Tok) (rest : Bytes),
    decodeListLoop fuel inp pos start acc = .ok (t, rest) →
    ∃ items, t = .list (acc.reverse ++ items) start (pos + (encodeList (eraseList items)).length + 1)
      ∧ inp = encodeList (eraseList items) ++ 101 :: rest
      ∧ canonList (eraseList items) = true
      ∧ ∀ full, At full pos inp → spansExactList full items = true

def SoundDict (fuel : Nat) : Prop :=
  ∀ (inp : Bytes) (pos start : Nat) (ks : List StrTok) (vs : List Tok) (t : Tok) (rest : Bytes),
    decodeDictLoop fuel inp pos start ks vs = .ok (t, rest) →
    ∃ ks' vs', t = .dict (ks.reverse ++ ks') (vs.reverse ++ vs') start
          (pos + (encodeDict (eraseDict ks' vs')).length + 1)
      ∧ ks'.length = vs'.length
      ∧ inp = encodeDict (eraseDict ks' vs') ++ 101 :: rest
      ∧ canonDict (eraseDict ks' vs') = true
      ∧ keysAscending (lastKey ks ++ ks'.map (·.val)) = true
      ∧ ∀ full, At full pos inp → ks'.all (strSpanOk full) = true ∧ spansExactList full vs' = true

theorem sound_any_step (fuel : Nat) (hL : SoundList fuel) (hD : SoundDict fuel) : SoundAny (fuel + 1) := by
  intro inp pos t rest h
  cases inp with
  | nil => simp [decodeAny] at h
  | cons b rest0 =>
    simp only [decodeAny] at h
    by_cases hb : isDigit b = true
    · simp only [hb, if_true] at h
      cases hk : decodeStrTok (b :: rest0) pos with
      | err => simp [hk] at h
      | panic => simp [hk] at h
      | ok x =>
        obtain ⟨st, r⟩ := x
        simp only [hk, Res.ok.injEq, Prod.mk.injEq] at h
        obtain ⟨rfl, rfl⟩ := h
        obtain ⟨e1, e2, e3, e4⟩ := decodeStrTok_ok hk
        refine ⟨by simpa [erase, encode] using e1, e2, by simpa [erase, encode, Tok.cont] using e3,
          by simpa [erase, canon] using e4, ?_⟩
        intro full hat
        rw [e1] at hat
        simp only [spansExact]
        exact strSpanOk_of hat e2 e3
    · simp only [hb, Bool.false_eq_true, if_false] at h
      by_cases hi : (b == 105) = true
      · simp only [hi, if_true] at h
        cases hk : decodeInt (b :: rest0) pos with
        | err => simp [hk] at h
        | panic => simp [hk] at h
        | ok x =>
          obtain ⟨v, c, r⟩ := x
          simp only [hk, Res.ok.injEq, Prod.mk.injEq] at h
          obtain ⟨rfl, rfl⟩ := h
          obtain ⟨e1, e2, e3⟩ := decodeInt_ok hk
          refine ⟨by simpa [erase, encode] using e1, rfl, by simpa [erase, encode, Tok.cont] using e2,
            by simpa [erase, canon] using e3, ?_⟩
          intro full hat
          rw [e1] at hat
          simp only [spansExact]
          exact span_ok hat rfl e2
      · simp only [hi, Bool.false_eq_true, if_false] at h
        by_cases hl : (b == 108) = true
        · simp only [hl, if_true] at h
          have hb' : b = 108 := by simpa using hl
          obtain ⟨items, e1, e2, e3, e4⟩ := hL _ _ _ _ _ _ h
          subst e1
          have henc : b :: rest0 = encode (erase (Tok.list ([].reverse ++ items) pos
              (pos + 1 + (encodeList (eraseList items)).length + 1))) ++ rest := by
            simp [erase, encode, e2, hb']
          refine ⟨henc, rfl, by simp [erase, encode, Tok.cont]; omega, by simpa [erase, canon] using e3, ?_⟩
          intro full hat
          have hat1 : At full (pos + 1) rest0 := by
            have := (At.append (a := [b]) (r := rest0) hat).1
            simpa using this
          have hs := e4 full hat1
          rw [henc] at hat
          have hsp := span_ok hat (s := pos) (c := pos + 1 + (encodeList (eraseList items)).length + 1) rfl
            (by simp [erase, encode]; omega)
          simp only [List.reverse_nil, List.nil_append, erase] at hsp
          simp only [List.reverse_nil, List.nil_append, spansExact, hsp, hs, Bool.and_self]
        · simp only [hl, Bool.false_eq_true, if_false] at h
          by_cases hd : (b == 100) = true
          · simp only [hd, if_true] at h
            have hb' : b = 100 := by simpa using hd
            obtain ⟨ks', vs', e1, elen, e2, e3, e5, e4⟩ := hD _ _ _ _ _ _ _ h
            subst e1
            have henc : b :: rest0 = encode (erase (Tok.dict ([].reverse ++ ks') ([].reverse ++ vs') pos
                (pos + 1 + (encodeDict (eraseDict ks' vs')).length + 1))) ++ rest := by
              simp [erase, encode, e2, hb']
            refine ⟨henc, rfl, by simp [erase, encode, Tok.cont]; omega, ?_, ?_⟩
            · simp only [List.reverse_nil, List.nil_append, erase, canon, map_fst_eraseDict ks' vs' elen,
                Bool.and_eq_true]
              exact ⟨by simpa [lastKey] using e5, e3⟩
            · intro full hat
              have hat1 : At full (pos + 1) rest0 := by
                have := (At.append (a := [b]) (r := rest0) hat).1
                simpa using this
              obtain ⟨hs1, hs2⟩ := e4 full hat1
              rw [henc] at hat
              have hsp := span_ok hat (s := pos) (c := pos + 1 + (encodeDict (eraseDict ks' vs')).length + 1) rfl
                (by simp [erase, encode]; omega)
              simp only [List.reverse_nil, List.nil_append, erase] at hsp
              simp only [Bool.and_eq_true] at hsp
              simp only [List.reverse_nil, List.nil_append, spansExact, hsp, hs1, hs2, elen, decide_true,
                Bool.and_self]
          · simp [hd] at h

theorem sound_list_step (fuel : Nat) (hA : SoundAny fuel) (hL : SoundList fuel) : SoundList (fuel + 1) := by
  intro inp pos start acc t rest h
  cases inp with
  | nil => simp [decodeListLoop] at h
  | cons b rest0 =>
    simp only [decodeListLoop] at h
    by_cases hb : isValueStart b = true
    · simp only [hb, if_true] at h
      cases hk : decodeAny fuel (b :: rest0) pos with
      | err => simp [hk] at h
      | panic => simp [hk] at h
      | ok x =>
        obtain ⟨t1, r⟩ := x
        simp only [hk] at h
        obtain ⟨a1, a2, a3, a4, a5⟩ := hA _ _ _ _ hk
        obtain ⟨items, e1, e2, e3, e4⟩ := hL _ _ _ _ _ _ h
        refine ⟨t1 :: items, ?_, ?_, ?_, ?_⟩
        · rw [e1, a3]; simp [eraseList, encodeList]; omega
        · rw [a1, e2]; simp [eraseList, encodeList]
        · simp [eraseList, canonList, a4, e3]
        · intro full hat
          have h1 := a5 full hat
          rw [a1] at hat
          have hat' := hat.append.1
          rw [← a3] at hat'
          simp [spansExactList, h1, e4 full hat']
    · simp only [hb, Bool.false_eq_true, if_false] at h
      by_cases he : (b == 101) = true
      · have hb' : b = 101 := by simpa using he
        simp only [he, if_true, Res.ok.injEq, Prod.mk.injEq] at h
        obtain ⟨rfl, rfl⟩ := h
        exact ⟨[], by simp [eraseList, encodeList], by simp [eraseList, encodeList, hb'],
          by simp [eraseList, canonList], by intro full _; simp [spansExactList]⟩
      · simp [he] at h

/-- the decoder's key-order test in state KeyEntry -/
def ordOk (ks : List StrTok) (kv : Bytes) : Bool :=
  match ks with
  | [] => true
  | last :: _ => bytesLt last.val kv

/-- names the (auto-generated) matcher of the `okOrder` test inside `decodeDictLoop` -/
theorem ordMatch_eq (ks : List StrTok) (kv : Bytes) :
    decodeDictLoop.match_3 (fun _ => Bool) ks (fun _ => true) (fun last _ => bytesLt last.val kv)
      = ordOk ks kv := by
  cases ks <;> rfl

theorem keysAscending_cons_lastKey (ks : List StrTok) (k : StrTok) (l : List Bytes)
    (hord : ordOk ks k.val = true)
    (h : keysAscending (k.val :: l) = true) : keysAscending (lastKey ks ++ k.val :: l) = true := by
  cases ks with
  | nil => simpa [lastKey] using h
  | cons last _ =>
    simp only [ordOk] at hord
    simp [lastKey, keysAscending, hord, h]

theorem sound_dict_step (fuel : Nat) (hA : SoundAny fuel) (hD : SoundDict fuel) : SoundDict (fuel + 1) := by
  intro inp pos start ks vs t rest h
  cases inp with
  | nil => simp [decodeDictLoop] at h
  | cons b rest0 =>
    simp only [decodeDictLoop] at h
    by_cases hb : isDigit b = true
    · simp only [hb, if_true] at h
      cases hk : decodeStrTok (b :: rest0) pos with
      | err => simp [hk] at h
      | panic => simp [hk] at h
      | ok x =>
        obtain ⟨k, r⟩ := x
        simp only [hk, ordMatch_eq] at h
        by_cases hord : ordOk ks k.val = true
        · simp only [hord, if_true] at h
          cases r with
          | nil => simp at h
          | cons b2 r' =>
            simp only at h
            by_cases hv : isValueStart b2 = true
            · simp only [hv, if_true] at h
              cases ha : decodeAny fuel (b2 :: r') k.c with
              | err => simp [ha] at h
              | panic => simp [ha] at h
              | ok y =>
                obtain ⟨t1, r2⟩ := y
                simp only [ha] at h
                obtain ⟨k1, k2, k3, k4⟩ := decodeStrTok_ok hk
                obtain ⟨a1, a2, a3, a4, a5⟩ := hA _ _ _ _ ha
                obtain ⟨ks', vs', e1, elen, e2, e3, e5, e4⟩ := hD _ _ _ _ _ _ _ h
                refine ⟨k :: ks', t1 :: vs', ?_, by simp [elen], ?_, ?_, ?_, ?_⟩
                · rw [e1, a3, k3]; simp [eraseDict, encodeDict]; omega
                · rw [k1, a1, e2]; simp [eraseDict, encodeDict]
                · simp [eraseDict, canonDict, k4, a4, e3]
                · simp only [List.map_cons]
                  exact keysAscending_cons_lastKey ks k _ hord (by simpa [lastKey] using e5)
                · intro full hat
                  rw [k1] at hat
                  have hk' := strSpanOk_of hat k2 k3
                  have hat1 := hat.append.1
                  rw [← k3] at hat1
                  have h1 := a5 full hat1
                  rw [a1] at hat1
                  have hat2 := hat1.append.1
                  rw [← a3] at hat2
                  obtain ⟨h2, h3⟩ := e4 full hat2
                  simp [spansExactList, hk', h1, h2, h3]
            · simp [hv] at h
        · simp [hord] at h
    · simp only [hb, Bool.false_eq_true, if_false] at h
      by_cases he : (b == 101) = true
      · have hb' : b = 101 := by simpa using he
        simp only [he, if_true, Res.ok.injEq, Prod.mk.injEq] at h
        obtain ⟨rfl, rfl⟩ := h
        refine ⟨[], [], by simp [eraseDict, encodeDict], rfl, by simp [eraseDict, encodeDict, hb'],
          by simp [eraseDict, canonDict], ?_, by intro full _; simp [spansExactList]⟩
        cases ks <;> simp [lastKey, keysAscending]
      · simp [he] at h

theorem sound_all : ∀ fuel, SoundAny fuel ∧ SoundList fuel ∧ SoundDict fuel := by
  intro fuel
  induction fuel with
  | zero =>
    refine ⟨?_, ?_, ?_⟩
    · intro inp pos t rest h; simp [decodeAny] at h
    · intro inp pos start acc t rest h; simp [decodeListLoop] at h
    · intro inp pos start ks vs t rest h; simp [decodeDictLoop] at h
  | succ n ih =>
    obtain ⟨hA, hL, hD⟩ := ih
    exact ⟨sound_any_step n hL hD, sound_list_step n hA hL, sound_dict_step n hA hD⟩

theorem decodeAny_sound {fuel : Nat} {inp : Bytes} {pos : Nat} {t : Tok} {rest : Bytes}
    (h : decodeAny fuel inp pos = .ok (t, rest)) :
    inp = encode (erase t) ++ rest ∧ t.start = pos ∧ t.cont = pos + (encode (erase t)).length
      ∧ canon (erase t) = true ∧ ∀ full, At full pos inp → spansExact full t = true :=
  (sound_all fuel).1 inp pos t rest h

/-! ### no panics -/

theorem no_panic_all : ∀ fuel,
    (∀ inp pos, decodeAny fuel inp pos ≠ .panic)
    ∧ (∀ inp pos start acc, decodeListLoop fuel inp pos start acc ≠ .panic)
    ∧ (∀ inp pos start ks vs, decodeDictLoop fuel inp pos start ks vs ≠ .panic) := by
  intro fuel
  induction fuel with
  | zero => simp [decodeAny, decodeListLoop, decodeDictLoop]
  | succ n ih =>
    obtain ⟨hA, hL, hD⟩ := ih
    refine ⟨?_, ?_, ?_⟩
    · intro inp pos
      cases inp with
      | nil => simp [decodeAny]
      | cons b rest0 =>
        simp only [decodeAny]
        split
        · have := decodeStrTok_no_panic (b :: rest0) pos
          cases hk : decodeStrTok (b :: rest0) pos with
          | err => simp
          | panic => exact absurd hk this
          | ok x => simp
        · split
          · have := decodeInt_no_panic (b :: rest0) pos
            cases hk : decodeInt (b :: rest0) pos with
            | err => simp
            | panic => exact absurd hk this
            | ok x => simp
          · split
            · exact hL _ _ _ _
            · split
              · exact hD _ _ _ _ _
              · simp
    · intro inp pos start acc
      cases inp with
      | nil => simp [decodeListLoop]
      | cons b rest0 =>
        simp only [decodeListLoop]
        split
        · have := hA (b :: rest0) pos
          cases hk : decodeAny n (b :: rest0) pos with
          | err => simp
          | panic => exact absurd hk this
          | ok x => exact hL _ _ _ _
        · split <;> simp
    · intro inp pos start ks vs
      cases inp with
      | nil => simp [decodeDictLoop]
      | cons b rest0 =>
        simp only [decodeDictLoop, ordMatch_eq]
        split
        · have := decodeStrTok_no_panic (b :: rest0) pos
          cases hk : decodeStrTok (b :: rest0) pos with
          | err => simp
          | panic => exact absurd hk this
          | ok x =>
            obtain ⟨k, r⟩ := x
            simp only
            split
            · cases r with
              | nil => simp
              | cons b2 r' =>
                simp only
                split
                · have := hA (b2 :: r') k.c
                  cases ha : decodeAny n (b2 :: r') k.c with
                  | err => simp
                  | panic => exact absurd ha this
                  | ok y => exact hD _ _ _ _ _
                · simp
            · simp
        · split <;> simp

theorem decodeAny_no_panic (fuel : Nat) (inp : Bytes) (pos : Nat) : decodeAny fuel inp pos ≠ .panic :=
  (no_panic_all fuel).1 inp pos

end TB
