/-
  Helper lemmas (RunQ): chaining the parts of C02 into run-level statements (TB.Props.C02chain).

  * `run_eval_or`, `evalOrder`, `cacheOf`: the shape of a run that evaluates pieces;
  * `Timg`, `setup_loc`, `solveAll_loc`: the set-up phases and the evaluation as local changes (`RunF.Loc`) of export images;
  * `CNE`, `populate_nonempty`, `candidates_files`, `avail_candidate`, `piece_not_failed`, `not_failed_at`: T1;
  * `solveAll_cut`, `sinv_of_reach`, `recovered_at`, `avail_length`: T2;
  * `ReachW`, `run_prefix_wf`: the tree is well-formed at every prefix of the log;
  * `run_table_sub`, `avail_transport`: T3;
  * `solveAll_failed_zero`, `counters_failed_zero`: the counters;
  * `Wr`, `writeOne_none`, `writeSegs_no_fault`, `solvePiece_no_fault`, `wr_replay`: when the writer cannot fail.
-/
import TB.Spec.ExportSpec
import TB.Props.C02
import TB.Props.C02run
import TB.Props.C04a
import TB.Props.C04h
import TB.Props.C03frame
import TB.Props.C16total
import TB.Lemmas.RunI
import TB.Lemmas.RunN
namespace TB.RunQ
open TB TB.RB

/-! ### the shape of a run that evaluates pieces -/

/-- the order in which `run` evaluates the work list `work` when the observed order is `order` -/
def evalOrder (work : List Work) (order : List (List (Nat × Nat × Nat) × Bytes)) : List Work :=
  match reorder work order with
  | some o => o
  | none => defaultOrder work

/-- the candidate cache of a run: the export images registered by `addExportPaths`, then the scan directories -/
def cacheOf (inp : RunIn) : Cache :=
  inp.scan.foldl (fun c d => addByDirectory (runSt3 inp).fs c d.path (uniqueLengths (runTable0 inp)))
    (addExportPaths (runSt2 inp) [] (runTable0 inp)).2

/-- the flow value of the resize pre-flight of a run -/
def flowOf (inp : RunIn) : Flow :=
  (if inp.resize then fixExportFileLengths (runSt1 inp) (runTable0 inp) else (runSt1 inp, .continue)).2

/-- a run either has an empty work list or went through all the set-up phases; in the latter case the outputs of
    the run are those of `solveAll` started in `runSt3 inp` on `evalOrder work order` -/
theorem run_eval_or (H : Bytes → Bytes) (inp : RunIn) :
    ((run H inp).work = [] ∧ (run H inp).counters = []) ∨
    (inp.torrents ≠ [] ∧
     (validateAll ⟨inp.fs, [], inp.faults⟩ (inp.scan ++ [inp.exportDir])).2 = true ∧
     flowOf inp = .continue ∧
     (run H inp).table = (populateSearches (cacheOf inp) inp.searchObs (runTable0 inp)).1 ∧
     convertPiecesToWork (run H inp).table (dedupTorrents (sortTorrents inp.torrents)) = some (run H inp).work ∧
     (run H inp).ops = (solveAll H (runSt3 inp) (evalOrder (run H inp).work inp.order) ⟨0, 0, 0⟩ []).1.ops ∧
     (run H inp).fs = (solveAll H (runSt3 inp) (evalOrder (run H inp).work inp.order) ⟨0, 0, 0⟩ []).1.fs ∧
     (run H inp).counters = (solveAll H (runSt3 inp) (evalOrder (run H inp).work inp.order) ⟨0, 0, 0⟩ []).2.1 ∧
     (run H inp).result =
       (if (solveAll H (runSt3 inp) (evalOrder (run H inp).work inp.order) ⟨0, 0, 0⟩ []).2.2 then .panic else .ok ())) := by
  by_cases hne : inp.torrents = []
  · left
    unfold run
    simp [hne]
  have hemp : inp.torrents.isEmpty = false := by cases ht : inp.torrents <;> simp_all
  rcases hv : validateAll ⟨inp.fs, [], inp.faults⟩ (inp.scan ++ [inp.exportDir]) with ⟨st1, ok⟩
  cases ok
  · left
    unfold run
    simp only [hemp, Bool.false_eq_true, if_false, hv, and_self]
  rcases hfl : (if inp.resize then
      fixExportFileLengths st1 (buildTable inp.exportDir.path (dedupTorrents (sortTorrents inp.torrents)) 0)
      else (st1, Flow.continue)) with ⟨st2, flow⟩
  cases flow
  rotate_left
  · left
    unfold run
    simp only [hemp, Bool.false_eq_true, if_false, hv, hfl, and_self]
  rcases hadd : addExportPaths st2 [] (buildTable inp.exportDir.path (dedupTorrents (sortTorrents inp.torrents)) 0)
    with ⟨st3, cache0⟩
  rcases hpop : populateSearches
      (inp.scan.foldl (fun c d => addByDirectory st3.fs c d.path
        (uniqueLengths (buildTable inp.exportDir.path (dedupTorrents (sortTorrents inp.torrents)) 0))) cache0)
      inp.searchObs (buildTable inp.exportDir.path (dedupTorrents (sortTorrents inp.torrents)) 0) with ⟨table, okS⟩
  have e1 : runSt1 inp = st1 := by simp only [runSt1, hv]
  have e2 : runSt2 inp = st2 := by simp only [runSt2, e1, runTable0, hfl]
  have e3 : runSt3 inp = st3 := by simp only [runSt3, e2, runTable0, hadd]
  have ec : cacheOf inp = inp.scan.foldl (fun c d => addByDirectory st3.fs c d.path
        (uniqueLengths (buildTable inp.exportDir.path (dedupTorrents (sortTorrents inp.torrents)) 0))) cache0 := by
    simp only [cacheOf, e3, e2, runTable0, hadd]
  have ef : flowOf inp = .continue := by simp only [flowOf, e1, runTable0, hfl]
  cases hwk : convertPiecesToWork table (dedupTorrents (sortTorrents inp.torrents)) with
  | none =>
    left
    unfold run
    simp only [hemp, Bool.false_eq_true, if_false, hv, hfl, hadd, hpop, hwk, and_self]
  | some work =>
    right
    rw [e3, ec, ef]
    unfold run
    simp only [hemp, Bool.false_eq_true, if_false, hv, hfl, hadd, hpop, hwk, runTable0]
    refine ⟨hne, trivial, trivial, trivial, trivial, ?_, ?_, ?_, ?_⟩ <;>
      (unfold evalOrder; cases hr : reorder work inp.order <;> rfl)

/-! ### the set-up phases and the evaluation as local changes of the tree -/

/-- `p` is the export image of a non-padding entry of `table` -/
def Timg (table : List TEntry) (p : Path) : Prop := ∃ e ∈ table, e.isPad = false ∧ p = e.fullTarget

theorem resizePass1_fs (es : List TEntry) : ∀ st, (resizePass1 st es).1.fs = st.fs := by
  induction es with
  | nil => intro st; rfl
  | cons e es ih =>
    intro st
    rcases resizePass1_cases st e es with h | h | h <;> rw [h]
    · exact ih st
    · exact St.openr_fs st e.fullTarget
    · exact (ih _).trans (St.openr_fs st e.fullTarget)

theorem resizePass2_loc (table : List TEntry) (es : List TEntry) (hsub : ∀ e ∈ es, e ∈ table) :
    ∀ st, RunF.Loc (Timg table) st.fs (resizePass2 st es).1.fs := by
  induction es with
  | nil => intro st; exact RunF.Loc.refl _ _
  | cons e es ih =>
    intro st
    have ih' := ih (fun x hx => hsub x (List.mem_cons_of_mem _ hx))
    have hfs1 := RunN.openrw_fs st e.fullTarget
    have tl1 : RunF.Loc (Timg table) st.fs
        (resizePass2 (st.op .openrw e.fullTarget (natOpenrw e.fullTarget)).1 es).1.fs :=
      (RunF.Loc.of_eq hfs1).trans (ih' _)
    rw [resizePass2_cons]
    split
    · exact ih' st
    · rename_i hpad
      have hpad : e.isPad = false := by simpa using hpad
      split
      · split
        · exact tl1
        · exact RunF.Loc.of_eq hfs1
      · split
        · rename_i i hl
          split
          · have hi : (st.op .openrw e.fullTarget (natOpenrw e.fullTarget)).1.fs.inoOf e.fullTarget = some i := by
              rw [hfs1]; exact RunF.look_file_inoOf hl
            have hop : RunF.Loc (Timg table) st.fs
                ((st.op .openrw e.fullTarget (natOpenrw e.fullTarget)).1.op (.setlen e.fileLength) e.fullTarget
                  (fun fs => (fs.setLen i e.fileLength, true))).1.fs :=
              (RunF.Loc.of_eq hfs1).trans (RunF.loc_op (T := Timg table) (n := fun fs => (fs.setLen i e.fileLength, true)) rfl
                (RunF.loc_setLen (T := Timg table) (t := e.fullTarget)
                  (show Timg table e.fullTarget from ⟨e, hsub e List.mem_cons_self, hpad, rfl⟩) hi _))
            split
            · exact hop.trans (ih' _)
            · exact hop
          · exact tl1
        · exact tl1

theorem fixExportFileLengths_loc (table : List TEntry) (st : St) :
    RunF.Loc (Timg table) st.fs (fixExportFileLengths st table).1.fs := by
  unfold fixExportFileLengths
  have h1 := resizePass1_fs table st
  split <;> rename_i st1 hp <;> rw [hp] at h1
  · exact RunF.Loc.of_eq h1
  · have := resizePass2_loc table table (fun _ h => h) st1
    rw [h1] at this
    exact this

/-- from the initial tree to the tree in which the first piece is evaluated: only export images change, and the
    fault points are those of the input -/
theorem setup_loc (inp : RunIn) :
    RunF.Loc (Timg (runTable0 inp)) inp.fs (runSt3 inp).fs ∧ (runSt3 inp).faults = inp.faults := by
  have v := validateAll_spec ⟨inp.fs, [], inp.faults⟩ (inp.scan ++ [inp.exportDir])
  have h1 : (runSt1 inp).fs = inp.fs := v.1
  have f1 : (runSt1 inp).faults = inp.faults := v.2.1
  have h2 : RunF.Loc (Timg (runTable0 inp)) (runSt1 inp).fs (runSt2 inp).fs := by
    unfold runSt2
    split
    · exact fixExportFileLengths_loc _ _
    · exact RunF.Loc.refl _ _
  have f2 : (runSt2 inp).faults = (runSt1 inp).faults := by
    unfold runSt2
    split
    · exact (RD.fixExportFileLengths_reach _ _).faults
    · rfl
  have h3 : (runSt3 inp).fs = (runSt2 inp).fs := RunG.addExportPaths_fs _ _ _
  have f3 : (runSt3 inp).faults = (runSt2 inp).faults := (RD.addExportPaths_reach _ _ _).faults
  rw [h1] at h2
  rw [h3]
  exact ⟨h2, f3.trans (f2.trans f1)⟩

theorem Timg_of_work {table : List TEntry} {w : Work} (hent : ∀ s ∈ w.segs, s.ent ∈ table) (p : Path)
    (h : RunF.Tw w p) : Timg table p := by
  obtain ⟨s, hs, hpad, rfl⟩ := h
  exact ⟨s.ent, hent s hs, hpad, rfl⟩

theorem solveAll_loc (H : Bytes → Bytes) (table : List TEntry) (ws : List Work)
    (hent : ∀ w ∈ ws, ∀ s ∈ w.segs, s.ent ∈ table) :
    ∀ st c acc, RunF.Loc (Timg table) st.fs (solveAll H st ws c acc).1.fs := by
  induction ws with
  | nil => intro st c acc; exact RunF.Loc.refl _ _
  | cons w ws ih =>
    intro st c acc
    have h1 : RunF.Loc (Timg table) st.fs (solvePiece H st w).1.fs :=
      (RunF.solvePiece_loc H st w).mono (Timg_of_work (hent w List.mem_cons_self))
    rw [solveAll_cons]
    split
    · exact h1
    · exact h1.trans (ih (fun x hx => hent x (List.mem_cons_of_mem _ hx)) _ _ _)

/-! ### the candidate cache: classes are never empty -/

/-- no length class of the cache is empty -/
def CNE (c : Cache) : Prop := ∀ len m, (len, m) ∈ c → m ≠ []

theorem CNE.nil : CNE [] := by
  intro len m h; cases h

theorem CNE.get {c : Cache} (h : CNE c) {len : Nat} {m : List (Path × Nat)} (hm : cacheGet c len = some m) :
    m ≠ [] := by
  obtain ⟨l, hl⟩ := RunI.cacheGet_mem hm
  exact h l m hl

theorem CNE.insert {c : Cache} (h : CNE c) (len : Nat) (p : Path) (i : Nat) : CNE (cacheInsert c len p i) := by
  unfold cacheInsert
  cases hg : cacheGet c len with
  | none =>
    simp only
    intro l m hm
    rcases List.mem_cons.1 hm with hm | hm
    · obtain ⟨_, rfl⟩ := Prod.mk.inj hm
      simp
    · exact h l m hm
  | some m0 =>
    simp only
    intro l m hm
    rcases List.mem_cons.1 hm with hm | hm
    · obtain ⟨_, rfl⟩ := Prod.mk.inj hm
      simp
    · exact h l m (List.mem_filter.1 hm).1

theorem CNE.exportPaths {c : Cache} (h : CNE c) (st : St) (table : List TEntry) :
    CNE (addExportPaths st c table).2 := by
  induction table generalizing st c with
  | nil => exact h
  | cons e es ih =>
    rw [RunG.addExportPaths_cons]
    split
    · exact ih h st
    · split
      · exact ih h _
      · split
        · split
          · exact ih (h.insert _ _ _) _
          · exact ih h _
        · exact ih h _

theorem CNE.byDir {c : Cache} (h : CNE c) (fs : Fs) (dir : Path) (lengths : List Nat) :
    CNE (addByDirectory fs c dir lengths) := by
  rw [RC.addByDirectory_eq]
  generalize fs.files = files
  induction files generalizing c with
  | nil => exact h
  | cons a l ih =>
    rw [List.foldl_cons]
    apply ih
    unfold RC.addStep
    simp only
    split
    · exact h.insert _ _ _
    · exact h

theorem CNE.scan {c : Cache} (h : CNE c) (fs : Fs) (lengths : List Nat) (scan : List PathArg) :
    CNE (scan.foldl (fun c d => addByDirectory fs c d.path lengths) c) := by
  induction scan generalizing c with
  | nil => exact h
  | cons d ds ih => exact ih (h.byDir fs d.path lengths)

theorem cacheOf_cne (inp : RunIn) : CNE (cacheOf inp) :=
  (CNE.nil.exportPaths _ _).scan _ _ _

/-- a candidate list produced by `populateSearches` from a cache without empty classes is never `some []` -/
theorem populate_nonempty (c : Cache) (hc : CNE c) (obs : List (Nat × List Path)) (es : List TEntry)
    (hes : ∀ e ∈ es, e.searches = none) :
    ∀ e' ∈ (populateSearches c obs es).1, e'.searches ≠ some [] := by
  induction es with
  | nil => intro e' he'; simp [populateSearches] at he'
  | cons e es ih =>
    have ih' := ih (fun x hx => hes x (List.mem_cons_of_mem _ hx))
    have he := hes e List.mem_cons_self
    unfold populateSearches
    rcases hrest : populateSearches c obs es with ⟨rest, okRest⟩
    rw [hrest] at ih'
    simp only at ih'
    simp only []
    have tl : ∀ h : TEntry, h.searches ≠ some [] → ∀ e' ∈ h :: rest, e'.searches ≠ some [] := by
      intro h hh e' he'
      rcases List.mem_cons.1 he' with rfl | he'
      · exact hh
      · exact ih' e' he'
    have hcanon : ∀ m0, cacheGet c e.fileLength = some m0 → canonicalSearches e m0 ≠ [] := by
      intro m0 hm0 hnil
      obtain ⟨x, hx⟩ := List.exists_mem_of_ne_nil _ (hc.get hm0)
      obtain ⟨q, hq, _⟩ := RunG.canonicalSearches_keeps e m0 x hx
      rw [hnil] at hq
      cases hq
    split
    · exact tl e (by rw [he]; simp)
    split
    · exact tl e (by rw [he]; simp)
    · rename_i m0 hm0
      split
      · rename_i o ho
        split
        · rename_i hv
          refine tl _ ?_
          simp only [ne_eq, Option.some.injEq]
          intro hnil
          subst hnil
          obtain ⟨x, hx⟩ := List.exists_mem_of_ne_nil _ (hc.get hm0)
          obtain ⟨q, hq, _⟩ := RC.validSearches_mem hv x hx
          cases hq
        · exact tl _ (by simpa using hcanon m0 hm0)
      · exact tl _ (by simpa using hcanon m0 hm0)

/-! ### completeness of the matchers for one piece, whatever the fault points -/

open TB.RC in
/-- `C02_piece` without its hypothesis `NoFutureFaults` (which its proof does not use): an injected I/O error makes the
    answer `.fault`, never `.notFound` -/
theorem piece_not_failed (H : Bytes → Bytes) (st : St) (w : Work)
    (hreadable : ∀ seg ∈ w.segs, ∀ paths, seg.ent.searches = some paths → ∀ p ∈ paths, ∃ i, st.fs.look p = .file i)
    (hnonempty : ∀ seg ∈ w.segs, seg.ent.searches ≠ some [])
    (havail : ∃ parts : List Bytes, parts.length = w.segs.length ∧ H parts.flatten = w.hash ∧
      ∀ (k : Nat) (seg : WSeg) (part : Bytes), w.segs[k]? = some seg → parts[k]? = some part →
        (seg.ent.isPad = true → part = List.replicate seg.len 0) ∧
        (seg.ent.isPad = false → seg.len = 0 → part = []) ∧
        (seg.ent.isPad = false → seg.len ≠ 0 →
          ∃ paths p i, seg.ent.searches = some paths ∧ p ∈ paths ∧ st.fs.look p = .file i
            ∧ part = st.fs.readAt i seg.off seg.len)) :
    (solvePiece H st w).2 ≠ .notFound := by
  obtain ⟨parts, hplen, hphash, hparts⟩ := havail
  -- no segment is rejected up front
  have hnorej : (w.segs.any (fun s => !s.ent.isPad && s.ent.searches.isNone && s.len != 0)) = false := by
    rw [Bool.eq_false_iff]
    intro hrej
    obtain ⟨s, hs, hcond⟩ := List.any_eq_true.1 hrej
    obtain ⟨k, hk⟩ := List.getElem?_of_mem hs
    have hklt : k < w.segs.length := (List.getElem?_eq_some_iff.1 hk).1
    have hp : parts[k]? = some (parts[k]'(by omega)) := List.getElem?_eq_getElem _
    simp only [Bool.and_eq_true, Bool.not_eq_true', bne_iff_ne, ne_eq, Option.isNone_iff_eq_none] at hcond
    obtain ⟨paths, _, _, hsome, _⟩ := (hparts k s _ hk hp).2.2 hcond.1.1 hcond.2
    rw [hcond.1.2] at hsome
    cases hsome
  unfold solvePiece
  simp only [hnorej, Bool.false_eq_true, if_false]
  split
  · -- a single segment
    rename_i seg hseg
    have hpl : parts.length = 1 := by rw [hplen, hseg]; rfl
    obtain ⟨part, rfl⟩ := List.length_eq_one_iff.1 hpl
    have hpart := hparts 0 seg part (by rw [hseg]; rfl) rfl
    have hH : H part = w.hash := by simpa using hphash
    split
    · rename_i hpad
      rw [hpart.1 hpad] at hH
      rw [if_pos (by simp [hH])]
      simp
    · rename_i hpad
      have hpad : seg.ent.isPad = false := by simpa using hpad
      split
      · simp
      · rename_i paths hs
        split
        · exact writeSegs_ne_notFound _ _ _ _
        · rename_i st1 hscan
          exfalso
          have hnone := scanSingle_none hscan
          by_cases hl : seg.len = 0
          · cases paths with
            | nil => exact hnonempty seg (by rw [hseg]; simp) hs
            | cons p ps =>
              obtain ⟨i, hi⟩ := hreadable seg (by rw [hseg]; simp) _ hs p (by simp)
              have := hnone p (by simp) i hi
              rw [hl, readAt_zero] at this
              rw [hpart.2.1 hpad hl] at hH
              exact this hH
          · obtain ⟨paths', p, i, hs', hp, hi, hpp⟩ := hpart.2.2 hpad hl
            rw [hs] at hs'
            cases hs'
            exact hnone p hp i hi (by rw [← hpp]; exact hH)
        · simp
        · simp
  · -- several segments (or none)
    split
    · rename_i st1 loaded hpre
      obtain ⟨hll, hcand⟩ := forall₂_getElem? (preload_spec hpre)
      have hpick : ∀ (k : Nat) part cands, parts[k]? = some part → loaded[k]? = some cands →
          ∃ x ∈ cands, x.2 = part := by
        intro k part cands hp hc
        have hklt : k < loaded.length := (List.getElem?_eq_some_iff.1 hc).1
        have hs : w.segs[k]? = some (w.segs[k]'(by omega)) := List.getElem?_eq_getElem _
        have hmem : w.segs[k]'(by omega) ∈ w.segs := List.getElem_mem _
        exact cand_supplies (hcand k _ cands hs hc) (hreadable _ hmem) (hnonempty _ hmem) (hparts k _ part hs hp)
      obtain ⟨picks, hpl, hpm, hpf⟩ := picks_of_cands parts loaded (by omega) hpick
      have := C02_search_complete H w.hash loaded [] picks hpl hpm (by simpa [hpf] using hphash)
      split
      · exact writeSegs_ne_notFound _ _ _ _
      · rename_i hnone
        rw [hnone] at this
        cases this
    · simp
    · simp

/-! ### availability in scan-only files, and the piece-level hypotheses at any later state -/

/-- the data of `w` is present (in tree `fs`) in files strictly below the scan directories whose inodes are not
    the inodes of export images of non-padding entries of `table` (same body as `TB.AvailScan`) -/
def Avail (H : Bytes → Bytes) (fs : Fs) (scan : List PathArg) (table : List TEntry) (w : Work) : Prop :=
  ∃ parts : List Bytes, parts.length = w.segs.length ∧ H parts.flatten = w.hash ∧
    ∀ (k : Nat) (seg : WSeg) (part : Bytes), w.segs[k]? = some seg → parts[k]? = some part →
      (seg.ent.isPad = true → part = List.replicate seg.len 0) ∧
      (seg.ent.isPad = false → seg.len = 0 → part = []) ∧
      (seg.ent.isPad = false → seg.len ≠ 0 →
        ∃ (p : Path) (i : Nat) (d : PathArg), (p, i) ∈ fs.files ∧ d ∈ scan ∧
          (d.path.length < p.length ∧ p.take d.path.length = d.path) ∧
          (fs.content i).length = seg.ent.fileLength ∧
          (∀ e ∈ table, e.isPad = false → fs.inoOf e.fullTarget ≠ some i) ∧
          part = fs.readAt i seg.off seg.len)

/-- facts about a run that evaluates pieces, collected once -/
structure Facts (H : Bytes → Bytes) (inp : RunIn) : Prop where
  conv : convertPiecesToWork (run H inp).table (dedupTorrents (sortTorrents inp.torrents)) = some (run H inp).work
  tab : (run H inp).table = (populateSearches (cacheOf inp) inp.searchObs (runTable0 inp)).1
  loc : RunF.Loc (Timg (run H inp).table) inp.fs (runSt3 inp).fs
  faults : (runSt3 inp).faults = inp.faults

theorem facts (H : Bytes → Bytes) (inp : RunIn) (hw : (run H inp).work ≠ []) : Facts H inp := by
  rcases run_eval_or H inp with ⟨h0, _⟩ | ⟨_, _, _, htab, hconv, _⟩
  · exact absurd h0 hw
  obtain ⟨L0, f3⟩ := setup_loc inp
  refine ⟨hconv, htab, L0.mono ?_, f3⟩
  rintro p ⟨e, he, hp, rfl⟩
  obtain ⟨e', he', s, rfl⟩ := (populateSearches_rel (cacheOf inp) inp.searchObs (runTable0 inp)).1 e he
  exact ⟨{ e with searches := s }, by rw [htab]; exact he', hp, rfl⟩

/-- the cache of a run started on a well-formed tree holds regular files of the tree `runSt3 inp` only -/
theorem cacheOf_cf (inp : RunIn) (hwf3 : FsWF (runSt3 inp).fs) : RunI.CF (runSt3 inp).fs (cacheOf inp) := by
  have h32 : (runSt3 inp).fs = (runSt2 inp).fs := RunG.addExportPaths_fs _ _ _
  have c0 := (RunI.addExportPaths_idle (runSt3 inp).fs (runSt2 inp) [] (runTable0 inp) h32.symm (RunI.CF.nil _)).2
  exact RunI.scan_cf hwf3 _ _ c0

/-- every candidate of every entry of the run's table is a regular file in any tree that arises from `runSt3 inp`
    by local changes of export images -/
theorem candidates_files (H : Bytes → Bytes) (inp : RunIn) (F : Facts H inp) (hwf : FsWF inp.fs)
    (fs : Fs) (hloc : RunF.Loc (Timg (run H inp).table) (runSt3 inp).fs fs) :
    ∀ e ∈ (run H inp).table, ∀ paths, e.searches = some paths → ∀ p ∈ paths, ∃ i, fs.look p = .file i := by
  have hwf3 : FsWF (runSt3 inp).fs := F.loc.wf hwf
  have hcf := cacheOf_cf inp hwf3
  intro e he paths hps p hp
  rw [F.tab] at he
  rcases RunI.populate_searches_sub _ _ _ e he paths hps with ⟨e0, he0, h0⟩ | ⟨len, m, hm, hall⟩
  · rw [RunI.buildTable_searches _ _ _ e0 he0] at h0
    cases h0
  · obtain ⟨i, hi⟩ := hall p hp
    exact ⟨i, hloc.look_pres hwf3 p i (hcf.get hm _ hi)⟩

theorem candidates_nonempty (H : Bytes → Bytes) (inp : RunIn) (F : Facts H inp) :
    ∀ e ∈ (run H inp).table, e.searches ≠ some [] := by
  intro e he
  rw [F.tab] at he
  exact populate_nonempty _ (cacheOf_cne inp) _ _ (RunI.buildTable_searches _ _ _) e he

/-- a file below a scan directory that has the declared length of the non-padding entry `e` and whose inode is not
    the inode of an export image is represented among the candidates of `e` by a name of the same inode, and in any
    later tree that name still resolves to that inode, whose content is still the initial one -/
theorem avail_candidate (H : Bytes → Bytes) (inp : RunIn) (F : Facts H inp) (hwf : FsWF inp.fs)
    (fs : Fs) (hloc : RunF.Loc (Timg (run H inp).table) (runSt3 inp).fs fs)
    (e : TEntry) (he : e ∈ (run H inp).table) (hpad : e.isPad = false)
    (p : Path) (i : Nat) (d : PathArg) (hmem : (p, i) ∈ inp.fs.files) (hd : d ∈ inp.scan)
    (hunder : d.path.length < p.length ∧ p.take d.path.length = d.path)
    (hlen : (inp.fs.content i).length = e.fileLength)
    (hout : ∀ e' ∈ (run H inp).table, e'.isPad = false → inp.fs.inoOf e'.fullTarget ≠ some i) :
    ∃ paths q, e.searches = some paths ∧ q ∈ paths ∧ fs.look q = .file i ∧ fs.content i = inp.fs.content i := by
  have hwf3 : FsWF (runSt3 inp).fs := F.loc.wf hwf
  have hcf := cacheOf_cf inp hwf3
  have hino : inp.fs.inoOf p = some i := RunF.look_file_inoOf (RunI.look_of_mem hwf hmem)
  have hlt : i < inp.fs.next := hwf.1 p i hmem
  have hT : ∀ t, Timg (run H inp).table t → inp.fs.inoOf t ≠ some i := by
    rintro t ⟨e', he', hp', rfl⟩
    exact hout e' he' hp'
  have hc : fs.content i = inp.fs.content i := (F.loc.trans hloc).content i hlt hT
  have hc3 : (runSt3 inp).fs.content i = inp.fs.content i := F.loc.content i hlt hT
  have hmem3 : (p, i) ∈ (runSt3 inp).fs.files := RunF.inoOf_mem (F.loc.ino_pres p i hino)
  have he' := he
  rw [F.tab] at he'
  obtain ⟨e0, he0, s, hes⟩ := (populateSearches_rel (cacheOf inp) inp.searchObs (runTable0 inp)).2 e he'
  have hpad0 : e0.isPad = false := by rw [hes] at hpad; exact hpad
  have hfl0 : e0.fileLength = e.fileLength := by rw [hes]
  have hcont : (uniqueLengths (runTable0 inp)).contains ((runSt3 inp).fs.content i).length = true := by
    rw [hc3, hlen, ← hfl0]
    exact RunG.uniqueLengths_contains _ e0 he0 hpad0
  obtain ⟨m, hm, j, hj⟩ := RunG.scan_registers (runSt3 inp).fs (uniqueLengths (runTable0 inp)) inp.scan
    (addExportPaths (runSt2 inp) [] (runTable0 inp)).2 d p i hd hmem3 hunder hcont
  have hm' : cacheGet (cacheOf inp) e.fileLength = some m := by
    rw [hc3, hlen] at hm
    exact hm
  have hji : j = i := by
    have h1 := hcf.get hm' _ hj
    have h2 := RunI.look_of_mem hwf3 hmem3
    simp only at h1
    rw [h1] at h2
    cases h2
    rfl
  subst hji
  obtain ⟨paths, hps, hor⟩ := RunI.populate_spec (cacheOf inp) inp.searchObs (runTable0 inp) e he' hpad m hm'
  have hq : ∃ q ∈ paths, ∃ y ∈ m, y.1 = q ∧ y.2 = j := by
    rcases hor with hv | rfl
    · obtain ⟨q, hq, hy, _⟩ := RC.validSearches_mem hv (p, j) hj
      exact ⟨q, hq, hy⟩
    · exact RunG.canonicalSearches_keeps e m (p, j) hj
  obtain ⟨q, hq, y, hy, rfl, rfl⟩ := hq
  exact ⟨paths, y.1, hps, hq, hloc.look_pres hwf3 _ _ (hcf.get hm' y hy), hc⟩

/-- T1 at any state that arises from `runSt3 inp` by local changes of export images (whatever its fault points):
    a work item of the run whose data is available in scan-only files of the initial tree is not reported as failed -/
theorem not_failed_at (H : Bytes → Bytes) (inp : RunIn) (hwf : FsWF inp.fs)
    (w : Work) (hw : w ∈ (run H inp).work) (havail : Avail H inp.fs inp.scan (run H inp).table w)
    (st : St) (hloc : RunF.Loc (Timg (run H inp).table) (runSt3 inp).fs st.fs) :
    (solvePiece H st w).2 ≠ .notFound := by
  have F := facts H inp (List.ne_nil_of_mem hw)
  have hent := convertPiecesToWork_ent F.conv w hw
  apply piece_not_failed H st w
  · intro seg hseg paths hps p hp
    exact candidates_files H inp F hwf st.fs hloc seg.ent (hent seg hseg) paths hps p hp
  · intro seg hseg
    exact candidates_nonempty H inp F seg.ent (hent seg hseg)
  · obtain ⟨parts, hl, hh, hp⟩ := havail
    refine ⟨parts, hl, hh, fun k seg part hk hpk => ?_⟩
    obtain ⟨a, b, c⟩ := hp k seg part hk hpk
    refine ⟨a, b, fun hpad hlen => ?_⟩
    obtain ⟨p, i, d, hmem, hd, hunder, hclen, hout, rfl⟩ := c hpad hlen
    obtain ⟨paths, q, hps, hq, hlook, hc⟩ := avail_candidate H inp F hwf st.fs hloc seg.ent
      (hent seg (List.mem_of_getElem? hk)) hpad p i d hmem hd hunder hclen hout
    refine ⟨paths, q, i, hps, hq, hlook, ?_⟩
    unfold Fs.readAt
    rw [hc]

/-! ### the evaluation order -/

theorem reorder_perm (ws : List Work) (os : List (List (Nat × Nat × Nat) × Bytes)) (r : List Work)
    (h : reorder ws os = some r) : r.Perm ws := by
  induction os generalizing ws r with
  | nil =>
    cases ws with
    | nil => simp [reorder] at h; subst h; exact List.Perm.refl _
    | cons w ws =>
      simp only [reorder, Option.some.injEq] at h
      subst h
      exact List.reverse_perm _
  | cons o os ih =>
    rw [reorder_cons] at h
    cases hf : ws.find? (fun w => workSig w == o) with
    | none => rw [hf] at h; cases h
    | some w =>
      rw [hf] at h
      simp only [Option.bind_some, Option.map_eq_some_iff] at h
      obtain ⟨r', hr', rfl⟩ := h
      have hm : w ∈ ws := List.mem_of_find?_eq_some hf
      exact ((ih _ _ hr').cons w).trans (List.perm_cons_erase hm).symm

theorem evalOrder_perm (work : List Work) (order : List (List (Nat × Nat × Nat) × Bytes)) :
    (evalOrder work order).Perm work := by
  unfold evalOrder
  cases hr : reorder work order with
  | some o => exact reorder_perm _ _ _ hr
  | none => exact List.reverse_perm _

theorem mem_evalOrder {work : List Work} {order : List (List (Nat × Nat × Nat) × Bytes)} {w : Work} :
    w ∈ evalOrder work order ↔ w ∈ work := (evalOrder_perm work order).mem_iff

/-! ### evaluation without a panic, cut at one piece -/

theorem solveAll_append (H : Bytes → Bytes) (pre : List Work) :
    ∀ (st : St) (c : Counters) (acc : List Counters) (post : List Work),
      (solveAll H st (pre ++ post) c acc).2.2 = false →
      ∃ c' acc', solveAll H st (pre ++ post) c acc = solveAll H (solveAll H st pre c acc).1 post c' acc' := by
  induction pre with
  | nil => intro st c acc post _; exact ⟨c, acc, rfl⟩
  | cons w pre ih =>
    intro st c acc post h
    rw [List.cons_append, solveAll_cons] at h ⊢
    rw [solveAll_cons]
    split
    · rename_i hp
      rw [if_pos hp] at h
      cases h
    · rename_i hp
      rw [if_neg hp] at h
      exact ih _ _ _ _ h

/-- if the evaluation of `pre ++ w :: post` does not panic, then `w` is evaluated in the state reached after `pre`,
    does not panic, and the rest of the evaluation starts in the state `w` leaves -/
theorem solveAll_cut (H : Bytes → Bytes) (pre : List Work) (w : Work) (post : List Work) (st : St) (c : Counters)
    (acc : List Counters) (h : (solveAll H st (pre ++ w :: post) c acc).2.2 = false) :
    (solvePiece H (solveAll H st pre c acc).1 w).2 ≠ .panic ∧
    ∃ c' acc', solveAll H st (pre ++ w :: post) c acc
      = solveAll H (solvePiece H (solveAll H st pre c acc).1 w).1 post c' acc' := by
  obtain ⟨c1, acc1, e1⟩ := solveAll_append H pre st c acc (w :: post) h
  rw [e1] at h ⊢
  rw [solveAll_cons] at h ⊢
  by_cases hp : (solvePiece H (solveAll H st pre c acc).1 w).2 = .panic
  · rw [if_pos hp] at h
    cases h
  · rw [if_neg hp]
    exact ⟨hp, _, _, rfl⟩

/-! ### states of a run and the log -/

theorem replay_eq_replayD : replay = RD.replayD := by
  have e : applyOp = RD.applyOpD := by
    funext fs o
    unfold applyOp RD.applyOpD
    cases o.kind <;> rfl
  funext fs ops
  unfold replay RD.replayD
  rw [e]

theorem reach_st3 (inp : RunIn) : RD.Reach ⟨inp.fs, [], inp.faults⟩ (runSt3 inp) := by
  have r1 : RD.Reach ⟨inp.fs, [], inp.faults⟩ (runSt1 inp) := RD.validateAll_reach _ _
  have r2 : RD.Reach (runSt1 inp) (runSt2 inp) := by
    unfold runSt2
    split
    · exact RD.fixExportFileLengths_reach _ _
    · exact RD.Reach.refl _
  exact (r1.trans r2).trans (RD.addExportPaths_reach _ _ _)

/-- the structural invariant of `RunK` for a tree reached from the initial tree of a run -/
theorem sinv_of_reach {table : List TEntry} {fs0 : Fs} {F : List Nat} {st : St} (hwf : FsWF fs0)
    (hna : RunJ.NoAl fs0 table) (h : RD.Reach ⟨fs0, [], F⟩ st) : RunK.SInv table fs0 st.fs := by
  rw [h.replay_init, ← replay_eq_replayD]
  exact RunK.replay_ind (Q := RunK.SInv table fs0) (F := fun _ => True)
    (fun _ o _ hq => hq.step o) st.ops fs0 (fun _ _ => trivial) (RunK.SInv.base hwf hna)

/-! ### a found piece verifies from then on -/

/-- T2 at one state: if `w` is found when evaluated in a state `st` of the run, it verifies in the tree replayed from
    the state after that evaluation by any operations of the run's log -/
theorem recovered_at (H : Bytes → Bytes) (inp : RunIn) (hwf : FsWF inp.fs)
    (hna : RunJ.NoAl inp.fs (run H inp).table) (hsame : RunJ.SameLen (run H inp).table)
    (hdisj : RunK.Disj (run H inp).work) (hinj : RunK.HInj H (run H inp).work)
    (w : Work) (hw : w ∈ (run H inp).work) (hrange : SegsInRange w)
    (hzero : ∀ s ∈ w.segs, s.len = 0 → s.ent.fileLength = 0)
    (hlen : ∀ b, H b = w.hash → b.length = (w.segs.map (·.len)).sum)
    (st : St) (hreach : RD.Reach ⟨inp.fs, [], inp.faults⟩ st)
    (hloc : RunF.Loc (Timg (run H inp).table) (runSt3 inp).fs st.fs)
    (hfound : (solvePiece H st w).2 = .found)
    (ops : List Op) (hops : ∀ o ∈ ops, o ∈ (run H inp).ops) :
    VerE H (replay (solvePiece H st w).1.fs ops) w := by
  have F := facts H inp (List.ne_nil_of_mem hw)
  have hent := convertPiecesToWork_ent F.conv w hw
  have hwfst : FsWF st.fs := (F.loc.trans hloc).wf hwf
  have S : RunK.SInv (run H inp).table inp.fs st.fs := sinv_of_reach hwf hna hreach
  have hdist : ImagesDistinct st.fs w := by
    intro a b s t ha hb hab hs ht
    have hne := hdisj.2 w hw a b s t ha hb hab hs ht
    refine ⟨hne, ?_⟩
    intro i j hi hj hij
    subst hij
    exact hne (S.na t.ent (hent t (List.mem_of_getElem? hb)) ht _ _ hj hi)
  have hfiles : ∀ s ∈ w.segs, ∀ paths, s.ent.searches = some paths → ∀ p ∈ paths, ∃ i, st.fs.look p = .file i :=
    fun s hs paths hps p hp => candidates_files H inp F hwf st.fs hloc s.ent (hent s hs) paths hps p hp
  have hver := C04a_found_verifies H st w hwfst hdist hrange hlen hzero hfiles hfound
  have hwf' : FsWF (solvePiece H st w).1.fs := C04a_wf_preserved H st w hwfst
  have S' : RunK.SInv (run H inp).table inp.fs (solvePiece H st w).1.fs :=
    sinv_of_reach hwf hna (hreach.trans (RD.solvePiece_reach H st w))
  obtain ⟨ps, hps, hH⟩ := hver
  have h0 : RunK.MInv (run H inp).table w (solvePiece H st w).1.fs (solvePiece H st w).1.fs := by
    refine ⟨RunK.SInv.base hwf' S'.na, ?_⟩
    intro seg _ _ i _ hl
    exact ⟨hl, fun _ _ _ => rfl⟩
  have := RunK.replay_ind (Q := RunK.MInv (run H inp).table w (solvePiece H st w).1.fs)
    (F := RunJ.OpFact H (run H inp).work (run H inp).table)
    (fun fs o hf h => RunK.MInv.step hsame hrange hent hdisj hinj hw hps hH o hf h)
    ops (solvePiece H st w).1.fs (fun o ho => RunJ.run_opFact H inp o (hops o ho)) h0
  exact this.verE hwf' ⟨ps, hps, hH⟩

/-- the parts of an available piece have the lengths of its segments -/
theorem avail_length {H : Bytes → Bytes} {fs : Fs} {scan : List PathArg} {table : List TEntry} {w : Work}
    (hrange : SegsInRange w) {parts : List Bytes} (hl : parts.length = w.segs.length)
    (hp : ∀ (k : Nat) (seg : WSeg) (part : Bytes), w.segs[k]? = some seg → parts[k]? = some part →
      (seg.ent.isPad = true → part = List.replicate seg.len 0) ∧
      (seg.ent.isPad = false → seg.len = 0 → part = []) ∧
      (seg.ent.isPad = false → seg.len ≠ 0 →
        ∃ (p : Path) (i : Nat) (d : PathArg), (p, i) ∈ fs.files ∧ d ∈ scan ∧
          (d.path.length < p.length ∧ p.take d.path.length = d.path) ∧
          (fs.content i).length = seg.ent.fileLength ∧
          (∀ e ∈ table, e.isPad = false → fs.inoOf e.fullTarget ≠ some i) ∧
          part = fs.readAt i seg.off seg.len)) :
    parts.flatten.length = (w.segs.map (·.len)).sum := by
  have _ := H
  have key : ∀ (k : Nat) (seg : WSeg) (part : Bytes), w.segs[k]? = some seg → parts[k]? = some part →
      part.length = seg.len := by
    intro k seg part hk hpk
    obtain ⟨a, b, c⟩ := hp k seg part hk hpk
    cases hpad : seg.ent.isPad with
    | true => rw [a hpad]; simp
    | false =>
      by_cases h0 : seg.len = 0
      · rw [b hpad h0, h0]; rfl
      · obtain ⟨p, i, d, _, _, _, hcl, _, rfl⟩ := c hpad h0
        have := hrange seg (List.mem_of_getElem? hk)
        unfold Fs.readAt
        rw [List.length_take, List.length_drop]
        omega
  clear hp
  generalize w.segs = segs at hl key
  induction parts generalizing segs with
  | nil =>
    cases segs with
    | nil => rfl
    | cons s ss => simp at hl
  | cons part parts ih =>
    cases segs with
    | nil => simp at hl
    | cons s ss =>
      simp only [List.flatten_cons, List.length_append, List.map_cons, List.sum_cons]
      rw [key 0 s part rfl rfl, ih ss (by simpa using hl) (fun k seg part hk hpk => key (k + 1) seg part hk hpk)]

/-! ### well-formedness of the tree at every prefix of the log -/

/-- `FsWF` looks only at names, directories and `next` -/
theorem wf_congr {fs fs' : Fs} (hf : fs'.files = fs.files) (hd : fs'.dirs = fs.dirs) (hn : fs'.next = fs.next)
    (h : FsWF fs) : FsWF fs' := by
  have hdir : ∀ p, fs'.isDir p = fs.isDir p := by intro p; unfold Fs.isDir; rw [hd]
  obtain ⟨w1, w2, w3, w4⟩ := h
  refine ⟨?_, ?_, ?_, ?_⟩
  · intro p i hp; rw [hn]; rw [hf] at hp; exact w1 p i hp
  · rw [hf]; exact w2
  · intro p i hp; rw [hdir]; rw [hf] at hp; exact w3 p i hp
  · intro p i hp q hq; rw [hdir]; rw [hf] at hp; exact w4 p i hp q hq

/-- an operation that neither creates directories nor files -/
def Safe (o : Op) : Prop := o.kind ≠ .mkdirs ∧ o.kind ≠ .openc

theorem applyOp_wf_safe {fs : Fs} (hwf : FsWF fs) (o : Op) (hs : Safe o) : FsWF (applyOp fs o) := by
  unfold applyOp
  cases hk : o.kind with
  | mkdirs => exact absurd hk hs.1
  | openc => exact absurd hk hs.2
  | setlen n =>
    simp only []
    split
    · cases fs.look o.path with
      | file i => exact wf_congr (fs := fs) rfl rfl rfl hwf
      | _ => exact hwf
    · exact hwf
  | write off d =>
    simp only []
    split
    · cases fs.look o.path with
      | file i => exact wf_congr (fs := fs) rfl rfl rfl hwf
      | _ => exact hwf
    · exact hwf
  | _ => exact hwf

theorem replay_append (fs : Fs) (a b : List Op) : replay fs (a ++ b) = replay (replay fs a) b := by
  unfold replay
  rw [List.foldl_append]

/-- `st'` is reached from `st` by logged operations, and if the tree of `st` is well-formed then so is the tree
    replayed from every prefix of the new operations -/
structure ReachW (st st' : St) : Prop where
  ext : ∃ new, st'.ops = st.ops ++ new ∧ st'.fs = replay st.fs new ∧
    (FsWF st.fs → ∀ k, FsWF (replay st.fs (new.take k)))

theorem ReachW.refl (st : St) : ReachW st st :=
  ⟨[], by simp, rfl, fun h k => by simpa [replay] using h⟩

theorem ReachW.trans {a b c : St} (h1 : ReachW a b) (h2 : ReachW b c) : ReachW a c := by
  obtain ⟨n1, o1, f1, w1⟩ := h1
  obtain ⟨n2, o2, f2, w2⟩ := h2
  refine ⟨n1 ++ n2, by rw [o2, o1, List.append_assoc], by rw [f2, f1, replay_append], ?_⟩
  intro hwf k
  rw [List.take_append]
  rw [replay_append]
  by_cases hk : k ≤ n1.length
  · have : k - n1.length = 0 := by omega
    rw [this]
    simpa [replay] using w1 hwf k
  · rw [List.take_of_length_le (by omega), ← f1]
    refine w2 ?_ _
    rw [f1]
    have := w1 hwf n1.length
    rwa [List.take_length] at this

theorem ReachW.wf {a b : St} (h : ReachW a b) (hwf : FsWF a.fs) : FsWF b.fs := by
  obtain ⟨n1, _, f1, w1⟩ := h
  rw [f1]
  have := w1 hwf n1.length
  rwa [List.take_length] at this

/-- one logged operation whose natural effect keeps well-formedness -/
theorem ReachW.of_op {st st1 : St} {ok : Bool} {k : OpKind} {p : Path} {n : Fs → Fs × Bool}
    (h : st.op k p n = (st1, ok)) (hg : RD.Good st.fs k p n) (hw : FsWF st.fs → FsWF (n st.fs).1) :
    ReachW st st1 := by
  obtain ⟨_, new, ho, hf⟩ := RD.Reach.of_op h hg
  have hops := St.op_eq_ops h
  have hnew : new = [⟨k, p, ok⟩] := List.append_cancel_left (ho.symm.trans hops)
  subst hnew
  rw [← replay_eq_replayD] at hf
  refine ⟨_, ho, hf, ?_⟩
  intro hwf j
  cases j with
  | zero => simpa [replay] using hwf
  | succ j =>
    rw [List.take_of_length_le (by simp), ← hf]
    rcases RD.St.op_fs h with ⟨e, _⟩ | ⟨e, _⟩
    · rw [e]; exact hwf
    · rw [e]; exact hw hwf

/-- a phase that logs only safe operations -/
theorem ReachW.of_safe {st st' : St} (r : RD.Reach st st') (e : Ext Safe st st') : ReachW st st' := by
  obtain ⟨_, new, ho, hf⟩ := r
  obtain ⟨new', ho', hs⟩ := e
  have : new' = new := List.append_cancel_left (ho'.symm.trans ho)
  subst this
  rw [← replay_eq_replayD] at hf
  refine ⟨_, ho, hf, ?_⟩
  intro hwf k
  have hs' : ∀ o ∈ new'.take k, Safe o := fun o ho => hs o (List.mem_of_mem_take ho)
  exact RunK.replay_ind (Q := FsWF) (F := Safe) (fun fs o hf hq => applyOp_wf_safe hq o hf) _ st.fs hs' hwf

theorem safe_of_nonmutating {o : Op} (h : o.kind.mutating = false) : Safe o := by
  constructor <;> (intro hk; rw [hk] at h; cases h)

theorem ReachW.of_ro {st st' : St} (r : RD.Reach st st') (e : RC.ROExt st st') : ReachW st st' := by
  obtain ⟨_, _, extra, ho, hm⟩ := e
  exact ReachW.of_safe r ⟨extra, ho, fun o h => safe_of_nonmutating (hm o h)⟩

theorem writeSegs_reachW (pairs : List (WSeg × Option Path)) :
    ∀ st buf start, ReachW st (writeSegs st pairs buf start).1 := by
  induction pairs with
  | nil => intro st buf start; exact ReachW.refl st
  | cons x rest ih =>
    obtain ⟨seg, src⟩ := x
    intro st buf start
    rw [writeSegs]; simp -iota only
    split; · exact ih _ _ _
    split; · exact ih _ _ _
    split; rename_i st1 ok1 h1
    have r1 : ReachW st st1 :=
      ReachW.of_op h1 (RD.Good.mkdirs _ _) (RunF.loc_mkdirs (fun _ => True) _ _).wf
    split; · exact r1
    rename_i hok1
    have hok1 : ok1 = true := by simpa using hok1
    subst hok1
    obtain ⟨e1, s1⟩ := RunF.op_ok h1
    have hpre : ∀ q ∈ Fs.properPrefixes seg.ent.fullTarget, st1.fs.isDir q = true := by
      intro q hq
      rw [e1]
      exact (RunF.mkdirs_spec st.fs _).2.2.2.2.2 s1 q (RunF.properPrefixes_sub_dropLast hq)
    split; rename_i st2 ok2 h2
    have r2 : ReachW st st2 := r1.trans (ReachW.of_op h2 (RD.Good.openc _ _)
      (RunF.loc_openCreate (T := fun _ => True) trivial hpre).wf)
    split; · exact r2
    split
    · rename_i i hl
      split; rename_i st3 ok3 h3
      have r3 : ReachW st st3 := r2.trans (ReachW.of_op h3 (RD.Good.setlen _ hl) (wf_congr rfl rfl rfl))
      have hl3 : st3.fs.look seg.ent.fullTarget = .file i := by
        rcases RD.St.op_fs h3 with ⟨e, _⟩ | ⟨e, _⟩
        · rw [e, hl]
        · rw [e]; exact hl
      split; · exact r3
      split; rename_i st4 ok4 h4
      have r4 : ReachW st st4 := r3.trans (ReachW.of_op h4 rfl (fun h => h))
      have hl4 : st4.fs.look seg.ent.fullTarget = .file i := by
        rw [RD.St.op_fs_same h4 rfl, hl3]
      split; · exact r4
      split; · exact r4
      split; rename_i st5 ok5 h5
      have r5 : ReachW st st5 := r4.trans (ReachW.of_op h5 (RD.Good.write _ _ hl4) (wf_congr rfl rfl rfl))
      split; · exact r5
      exact r5.trans (ih _ _ _)
    · exact r2

theorem solvePiece_reachW (H : Bytes → Bytes) (st : St) (w : Work) : ReachW st (solvePiece H st w).1 := by
  unfold solvePiece; simp -iota only
  split; · exact ReachW.refl st
  split
  · rename_i seg _
    split
    · split <;> exact ReachW.refl st
    · split
      · exact ReachW.refl st
      · rename_i paths _
        have r := ReachW.of_ro (RD.scanSingle_reach H w.hash seg paths st) (RC.scanSingle_ext H w.hash seg st paths)
        split <;> rename_i h1 <;> rw [h1] at r
        · exact r.trans (writeSegs_reachW _ _ _ _)
        · exact r
        · exact r
        · exact r
  · have r := ReachW.of_ro (RD.preload_reach w.segs st) (RC.preload_ext st w.segs)
    split <;> rename_i h1 <;> rw [h1] at r
    · split
      · exact r.trans (writeSegs_reachW _ _ _ _)
      · exact r
    · exact r
    · exact r

theorem solveAll_reachW (H : Bytes → Bytes) (ws : List Work) :
    ∀ st c acc, ReachW st (solveAll H st ws c acc).1 := by
  induction ws with
  | nil => intro st c acc; exact ReachW.refl st
  | cons w ws ih =>
    intro st c acc
    rw [solveAll_cons]
    split
    · exact solvePiece_reachW H st w
    · exact (solvePiece_reachW H st w).trans (ih _ _ _)

theorem safe_setupOp {table : List TEntry} {o : Op} (h : SetupOp table o) : Safe o := by
  rcases h with h | h | ⟨e, _, _, h | h, _⟩ <;> (constructor <;> (intro hk; rw [hk] at h; cases h))

theorem reachW_st1 (inp : RunIn) : ReachW ⟨inp.fs, [], inp.faults⟩ (runSt1 inp) :=
  ReachW.of_safe (RD.validateAll_reach _ _)
    ((validateAll_ext _ _).mono (fun o h => by constructor <;> (intro hk; rw [hk] at h; cases h)))

theorem reachW_st2 (inp : RunIn) : ReachW (runSt1 inp) (runSt2 inp) := by
  unfold runSt2
  split
  · exact ReachW.of_safe (RD.fixExportFileLengths_reach _ _)
      ((fixExportFileLengths_ext _ _).mono (fun o h => safe_setupOp h))
  · exact ReachW.refl _

theorem reachW_st3 (inp : RunIn) : ReachW ⟨inp.fs, [], inp.faults⟩ (runSt3 inp) :=
  ((reachW_st1 inp).trans (reachW_st2 inp)).trans
    (ReachW.of_safe (RD.addExportPaths_reach _ _ _)
      ((addExportPaths_ext _ _ _).mono (fun o h => by constructor <;> (intro hk; rw [hk] at h; cases h))))

theorem ReachW.prefix_wf {fs0 : Fs} {F : List Nat} {st : St} (h : ReachW ⟨fs0, [], F⟩ st) (hwf : FsWF fs0) (n : Nat) :
    FsWF (replay fs0 (st.ops.take n)) := by
  obtain ⟨new, ho, _, hw⟩ := h
  rw [ho]
  simpa using hw hwf n

/-- the tree at every interruption point of any run (faults anywhere) on a well-formed tree is well-formed -/
theorem run_prefix_wf (H : Bytes → Bytes) (inp : RunIn) (hwf : FsWF inp.fs) (n : Nat) :
    FsWF (replay inp.fs ((run H inp).ops.take n)) := by
  by_cases hne : inp.torrents = []
  · have : (run H inp).ops = [] := by
      unfold run
      simp [hne]
    rw [this]
    simpa [replay] using hwf
  rcases run_shape H inp hne with ⟨_, ho, _⟩ | ⟨_, ho, _⟩ | ⟨_, ho, _⟩ | ⟨ordered, _, _, _, ho, _⟩ <;> rw [ho]
  · exact (reachW_st1 inp).prefix_wf hwf n
  · exact ((reachW_st1 inp).trans (reachW_st2 inp)).prefix_wf hwf n
  · exact (reachW_st3 inp).prefix_wf hwf n
  · exact ((reachW_st3 inp).trans (solveAll_reachW H ordered _ _ _)).prefix_wf hwf n

/-! ### resuming on the tree left by an earlier run -/

/-- the table of a run, however it ends, consists of entries of the table built from the torrents, up to `searches` -/
theorem run_table_sub (H : Bytes → Bytes) (inp : RunIn) :
    ∀ e ∈ (run H inp).table, ∃ e0 ∈ runTable0 inp, UpToSearches e0 e := by
  unfold run runTable0
  simp only []
  split
  · intro e he; cases he
  split
  · intro e he; cases he
  · split
    · intro e he; exact ⟨e, he, UpToSearches.refl e⟩
    · split <;> exact (populateSearches_rel _ _ _).2

theorem noAl_sub {fs : Fs} {table0 table : List TEntry} (h : RunJ.NoAl fs table0)
    (hsub : ∀ e ∈ table, ∃ e0 ∈ table0, UpToSearches e0 e) : RunJ.NoAl fs table := by
  intro e he hpad q i h1 h2
  obtain ⟨e0, he0, s, rfl⟩ := hsub e he
  exact h e0 he0 hpad q i h1 h2

theorem sinv_replay {table : List TEntry} {fs0 : Fs} (hwf : FsWF fs0) (hna : RunJ.NoAl fs0 table) (ops : List Op) :
    RunK.SInv table fs0 (replay fs0 ops) :=
  RunK.replay_ind (Q := RunK.SInv table fs0) (F := fun _ => True)
    (fun _ o _ hq => hq.step o) ops fs0 (fun _ _ => trivial) (RunK.SInv.base hwf hna)

/-- availability in scan-only files is transported from the initial tree of a run to the tree at any interruption
    point of that run, for any table `table'` that consists of entries of the static table up to `searches` -/
theorem avail_transport (H : Bytes → Bytes) (inp : RunIn) (hwf : FsWF inp.fs)
    (hna : RunJ.NoAl inp.fs (runTable0 inp)) (n : Nat) (table' : List TEntry)
    (hsub : ∀ e ∈ table', ∃ e0 ∈ runTable0 inp, UpToSearches e0 e)
    (w : Work) (havail : Avail H inp.fs inp.scan (runTable0 inp) w) :
    Avail H (replay inp.fs ((run H inp).ops.take n)) inp.scan table' w := by
  obtain ⟨parts, hl, hh, hp⟩ := havail
  refine ⟨parts, hl, hh, fun k seg part hk hpk => ?_⟩
  obtain ⟨a, b, c⟩ := hp k seg part hk hpk
  refine ⟨a, b, fun hpad hlen => ?_⟩
  obtain ⟨p, i, d, hmem, hd, hunder, hclen, hout, rfl⟩ := c hpad hlen
  have hino : inp.fs.inoOf p = some i := RunF.look_file_inoOf (RunI.look_of_mem hwf hmem)
  have hnot : ∀ e ∈ runTable0 inp, e.isPad = false → e.fullTarget ≠ p := by
    intro e he hpe heq
    apply hout e he hpe
    rw [heq]; exact hino
  obtain ⟨f1, f2⟩ := C03_frame H inp hwf (noAl_sub hna (run_table_sub H inp)) n p i hino (by
    intro e he hpe
    obtain ⟨e0, he0, s, rfl⟩ := run_table_sub H inp e he
    exact hnot e0 he0 hpe)
  have S := sinv_replay (table := table') hwf (noAl_sub hna hsub) ((run H inp).ops.take n)
  refine ⟨p, i, d, RunF.inoOf_mem f1, hd, hunder, by rw [f2]; exact hclen, ?_, ?_⟩
  · intro e he hpe hi
    obtain ⟨e0, he0, s, rfl⟩ := hsub e he
    exact hnot e0 he0 hpe (S.na _ he hpe p i hi f1).symm
  · unfold Fs.readAt
    rw [f2]

/-! ### the counters: no piece is counted as failed -/

theorem solveAll_failed_zero (H : Bytes → Bytes) (P : St → Prop) (ws : List Work)
    (hstep : ∀ st, P st → ∀ w ∈ ws, P (solvePiece H st w).1 ∧ (solvePiece H st w).2 ≠ .notFound) :
    ∀ (st : St) (c : Counters) (acc : List Counters), P st → c.failed = 0 → (∀ x ∈ acc, x.failed = 0) →
      ∀ x ∈ (solveAll H st ws c acc).2.1, x.failed = 0 := by
  induction ws with
  | nil => intro st c acc _ _ hacc; exact hacc
  | cons w ws ih =>
    intro st c acc hP hc hacc
    obtain ⟨hP', hnf⟩ := hstep st hP w List.mem_cons_self
    rw [solveAll_cons]
    split
    · exact hacc
    · have hb : (c.bump (solvePiece H st w).2).failed = 0 := by
        cases hr : (solvePiece H st w).2 with
        | notFound => exact absurd hr hnf
        | found => exact hc
        | fault => exact hc
        | panic => exact hc
      refine ih (fun st hst v hv => hstep st hst v (List.mem_cons_of_mem _ hv)) _ _ _ hP' hb ?_
      intro x hx
      rcases List.mem_append.1 hx with hx | hx
      · exact hacc x hx
      · rw [List.mem_singleton] at hx
        rw [hx]; exact hb

/-- if every work item of a run on a well-formed tree is available in scan-only files, no counter snapshot of the run
    counts a failed piece -/
theorem counters_failed_zero (H : Bytes → Bytes) (inp : RunIn) (hwf : FsWF inp.fs)
    (hall : ∀ w ∈ (run H inp).work, Avail H inp.fs inp.scan (run H inp).table w) :
    ∀ c ∈ (run H inp).counters, c.failed = 0 := by
  rcases run_eval_or H inp with ⟨_, h0⟩ | ⟨_, _, _, _, hconv, _, _, hcnt, _⟩
  · rw [h0]; intro c hc; cases hc
  by_cases hw : (run H inp).work = []
  · rw [hcnt, hw]
    have : evalOrder [] inp.order = [] := by
      have := (evalOrder_perm [] inp.order).length_eq
      exact List.eq_nil_of_length_eq_zero this
    rw [this]
    intro c hc; cases hc
  have F := facts H inp hw
  rw [hcnt]
  refine solveAll_failed_zero H
    (fun st => RunF.Loc (Timg (run H inp).table) (runSt3 inp).fs st.fs)
    (evalOrder (run H inp).work inp.order) ?_ _ _ _ (RunF.Loc.refl _ _) rfl
    (fun x hx => by cases hx)
  intro st hloc w hw'
  have hwm : w ∈ (run H inp).work := mem_evalOrder.1 hw'
  refine ⟨hloc.trans ((RunF.solvePiece_loc H st w).mono
    (Timg_of_work (convertPiecesToWork_ent hconv w hwm))), ?_⟩
  exact not_failed_at H inp hwf w hwm (hall w hwm) st hloc

/-! ## when the writer cannot fail

  Without fault points the writer reports an I/O error only if `create_dir_all` meets a regular file, the create-open
  meets a directory, or the matched bytes are too short. -/

/-! ### writable targets -/

/-- the export image `t` can be written in tree `fs`: no proper prefix of `t` is a regular file and `t` is not a
    directory (`t` is a regular file, or absent with nothing in the way) -/
def Wr (fs : Fs) (t : Path) : Prop := (∀ q ∈ Fs.properPrefixes t, fs.inoOf q = none) ∧ fs.isDir t = false

theorem Wr_iff_look {fs : Fs} {t : Path} : Wr fs t ↔ fs.look t ≠ .notDir ∧ fs.look t ≠ .dir := by
  unfold Wr Fs.look
  by_cases hany : (Fs.properPrefixes t).any (fun q => (fs.inoOf q).isSome) = true
  · rw [if_pos hany]
    constructor
    · rintro ⟨h, _⟩
      obtain ⟨q, hq, hs⟩ := List.any_eq_true.1 hany
      rw [h q hq] at hs
      cases hs
    · rintro ⟨h, _⟩
      exact absurd rfl h
  · rw [if_neg hany]
    have hall : ∀ q ∈ Fs.properPrefixes t, fs.inoOf q = none := by
      intro q hq
      cases hi : fs.inoOf q with
      | none => rfl
      | some j =>
        exfalso
        apply hany
        exact List.any_eq_true.2 ⟨q, hq, by rw [hi]; rfl⟩
    by_cases hd : fs.isDir t = true
    · rw [if_pos hd]
      constructor
      · rintro ⟨_, h⟩
        rw [hd] at h
        cases h
      · rintro ⟨_, h⟩
        exact absurd rfl h
    · rw [if_neg hd]
      have hd' : fs.isDir t = false := by simpa using hd
      constructor
      · intro _
        cases fs.inoOf t with
        | none => simp
        | some i => simp
      · intro _
        exact ⟨hall, hd'⟩

theorem Wr.ne_nil {fs : Fs} {t : Path} (h : Wr fs t) : t ≠ [] := by
  intro e
  subst e
  have := h.2
  simp [Fs.isDir] at this

/-- `Wr` looks only at names and directories -/
theorem Wr.congr {fs fs' : Fs} {t : Path} (hf : fs'.files = fs.files) (hd : fs'.dirs = fs.dirs) (h : Wr fs t) :
    Wr fs' t := by
  refine ⟨fun q hq => ?_, ?_⟩
  · rw [RunF.inoOf_congr hf]; exact h.1 q hq
  · have : fs'.isDir t = fs.isDir t := by unfold Fs.isDir; rw [hd]
    rw [this]; exact h.2

theorem mem_dropLast_prefixes {t q : Path} (h : q ∈ Fs.properPrefixes t.dropLast ++ [t.dropLast]) :
    q = [] ∨ q ∈ Fs.properPrefixes t := by
  rcases List.mem_append.1 h with h | h
  · obtain ⟨n, h1, h2, rfl⟩ := RunF.mem_properPrefixes.1 h
    right
    simp only [List.length_dropLast] at h2
    refine RunF.mem_properPrefixes.2 ⟨n, h1, by omega, ?_⟩
    rw [List.dropLast_eq_take, List.take_take, Nat.min_eq_left (by omega)]
  · rw [List.mem_singleton] at h
    subst h
    by_cases hl : t.length ≤ 1
    · left
      rw [List.dropLast_eq_take]
      apply List.eq_nil_of_length_eq_zero
      simp; omega
    · right
      exact RunF.mem_properPrefixes.2 ⟨t.length - 1, by omega, by omega, List.dropLast_eq_take⟩

theorem prefix_dropLast {t t' : Path} (h : Path.isPrefixOf t' t.dropLast) : t' = [] ∨ t' ∈ Fs.properPrefixes t := by
  obtain ⟨rest, hr⟩ := h
  by_cases h0 : t'.length = 0
  · exact Or.inl (List.eq_nil_of_length_eq_zero h0)
  · right
    have hl := congrArg List.length hr
    simp only [List.length_dropLast, List.length_append] at hl
    refine RunF.mem_properPrefixes.2 ⟨t'.length, by omega, by omega, ?_⟩
    have : t.take t'.length = t.dropLast.take t'.length := by
      rw [List.dropLast_eq_take, List.take_take, Nat.min_eq_left (by omega)]
    rw [this, hr, List.take_left]

theorem mkdirsAux_isSome (l : List Path) :
    ∀ fs : Fs, (∀ q ∈ l, fs.isDir q = true ∨ fs.inoOf q = none) → (Fs.mkdirsAux fs l).isSome = true := by
  induction l with
  | nil => intro fs _; rfl
  | cons q rest ih =>
    intro fs h
    simp only [Fs.mkdirsAux]
    split
    · exact ih fs (fun x hx => h x (List.mem_cons_of_mem _ hx))
    · rename_i hq
      split
      · rename_i hs
        rcases h q List.mem_cons_self with h' | h'
        · exact absurd h' hq
        · rw [h'] at hs; cases hs
      · apply ih
        intro x hx
        rcases h x (List.mem_cons_of_mem _ hx) with h' | h'
        · left
          rw [RunF.isDir_cons, h']; rfl
        · right
          exact h'

theorem mkdirs_ok {fs : Fs} {t : Path} (h : Wr fs t) : (fs.mkdirs t.dropLast).2 = true := by
  have hs := mkdirsAux_isSome (Fs.properPrefixes t.dropLast ++ [t.dropLast]) fs (by
    intro q hq
    rcases mem_dropLast_prefixes hq with rfl | hq'
    · left; rfl
    · right; exact h.1 q hq')
  unfold Fs.mkdirs
  split
  · rfl
  · rename_i hn
    rw [hn] at hs
    cases hs

/-- after `create_dir_all(parent(t))` the target `t` is still writable and its parent is a directory -/
theorem Wr.mkdirs {fs : Fs} {t t' : Path} (h : Wr fs t') (hn : t' ∉ Fs.properPrefixes t) :
    Wr (fs.mkdirs t.dropLast).1 t' := by
  obtain ⟨h1, _, _, _, _, _⟩ := RunF.mkdirs_spec fs t.dropLast
  refine ⟨fun q hq => ?_, ?_⟩
  · rw [RunF.inoOf_congr h1]; exact h.1 q hq
  · cases hd : (fs.mkdirs t.dropLast).1.isDir t' with
    | false => rfl
    | true =>
      exfalso
      rcases RunM.mkdirs_new fs _ _ hd with h' | h'
      · rw [h.2] at h'; cases h'
      · rcases prefix_dropLast h' with e | e
        · exact h.ne_nil e
        · exact hn e

/-- the create-open of a writable target whose parent is a directory succeeds and leaves a regular file there -/
theorem openCreate_ok {fs : Fs} {t : Path} (h : Wr fs t) (hd : fs.isDir t.dropLast = true) :
    ∃ i, (fs.openCreate t).2 = some i ∧ (fs.openCreate t).1.look t = .file i := by
  obtain ⟨n1, n2⟩ := Wr_iff_look.1 h
  unfold Fs.openCreate
  cases hl : fs.look t with
  | notDir => exact absurd hl n1
  | dir => exact absurd hl n2
  | file i => exact ⟨i, rfl, hl⟩
  | notFound =>
    simp only [hd, if_true]
    refine ⟨fs.next, rfl, ?_⟩
    show (RunF.addFile fs t).look t = .file fs.next
    apply RunF.look_file_of
    · rw [List.any_eq_false]
      intro q hq
      rw [RunF.inoOf_addFile, if_neg (fun e => RunF.properPrefix_ne hq e.symm), h.1 q hq]
      simp
    · rw [RunF.isDir_addFile]; exact h.2
    · rw [RunF.inoOf_addFile, if_pos rfl]

/-- creating the file `t` leaves every target writable of which `t` is not a proper prefix -/
theorem Wr.openCreate {fs : Fs} {t t' : Path} (h : Wr fs t') (hn : t ∉ Fs.properPrefixes t') :
    Wr (fs.openCreate t).1 t' := by
  rcases RunF.openCreate_cases fs t with e | ⟨_, e⟩
  · rw [e]; exact h
  · rw [e]
    refine ⟨fun q hq => ?_, ?_⟩
    · rw [RunF.inoOf_addFile]
      split
      · rename_i e'
        subst e'
        exact absurd hq hn
      · exact h.1 q hq
    · rw [RunF.isDir_addFile]; exact h.2

/-! ### the writer without fault points -/

/-- one operation in a state without fault points: its natural effect happens -/
theorem op_nf {st st1 : St} {ok : Bool} {k : OpKind} {p : Path} {n : Fs → Fs × Bool} (hf : st.faults = [])
    (h : st.op k p n = (st1, ok)) : st1.fs = (n st.fs).1 ∧ st1.faults = [] ∧ ok = (n st.fs).2 := by
  rw [St.op_nofault _ _ _ _ (by rw [hf]; rfl)] at h
  obtain ⟨es, eo⟩ := Prod.mk.inj h
  subst es
  exact ⟨rfl, hf, eo.symm⟩

theorem writeOne_none (st : St) (seg : WSeg) (buf : Bytes) (start : Nat) (hf : st.faults = [])
    (hwr : Wr st.fs seg.ent.fullTarget) (hlen : start + seg.len ≤ buf.length) :
    ∃ st5, RunF.writeOne st seg buf start = (st5, none) ∧ st5.faults = [] ∧
      ∀ t', Wr st.fs t' → seg.ent.fullTarget ∉ Fs.properPrefixes t' → t' ∉ Fs.properPrefixes seg.ent.fullTarget →
        Wr st5.fs t' := by
  have hmk := mkdirs_ok hwr
  have hw1 : Wr (st.fs.mkdirs seg.ent.fullTarget.dropLast).1 seg.ent.fullTarget :=
    hwr.mkdirs (fun h => RunF.properPrefix_ne h rfl)
  have hd1 : (st.fs.mkdirs seg.ent.fullTarget.dropLast).1.isDir seg.ent.fullTarget.dropLast = true :=
    (RunF.mkdirs_spec st.fs _).2.2.2.2.2 hmk _ (by simp)
  obtain ⟨i, ho, hl⟩ := openCreate_ok hw1 hd1
  unfold RunF.writeOne
  simp -iota only
  split; rename_i st1 ok1 h1
  obtain ⟨e1, f1, o1⟩ := op_nf hf h1
  rw [hmk] at o1
  split
  · rename_i hbad; rw [o1] at hbad; cases hbad
  split; rename_i st2 ok2 h2
  obtain ⟨e2, f2, o2⟩ := op_nf f1 h2
  simp only [e1] at e2 o2
  rw [ho] at o2
  split
  · rename_i hbad; rw [o2] at hbad; cases hbad
  have hl2 : st2.fs.look seg.ent.fullTarget = .file i := by rw [e2]; exact hl
  split
  · rename_i j hj
    rw [hl2] at hj
    cases hj
    split; rename_i st3 ok3 h3
    obtain ⟨e3, f3, o3⟩ := op_nf f2 h3
    split
    · rename_i hbad; rw [o3] at hbad; cases hbad
    split; rename_i st4 ok4 h4
    obtain ⟨e4, f4, o4⟩ := op_nf f3 h4
    split
    · rename_i hbad; rw [o4] at hbad; cases hbad
    split
    · omega
    split; rename_i st5 ok5 h5
    obtain ⟨e5, f5, o5⟩ := op_nf f4 h5
    split
    · rename_i hbad; rw [o5] at hbad; cases hbad
    refine ⟨st5, rfl, f5, ?_⟩
    intro t' hw' hn1 hn2
    simp only at e3 e4 e5
    rw [e5, e4, e3, e2]
    exact Wr.congr (fs := ((st.fs.mkdirs seg.ent.fullTarget.dropLast).1.openCreate seg.ent.fullTarget).1) rfl rfl
      ((hw'.mkdirs hn2).openCreate hn1)
  · rename_i hno
    exact absurd hl2 (hno i)

theorem writeSegs_no_fault (pairs : List (WSeg × Option Path)) :
    ∀ (st : St) (buf : Bytes) (start : Nat), st.faults = [] →
      (∀ x ∈ pairs, x.1.ent.isPad = false → Wr st.fs x.1.ent.fullTarget) →
      (∀ x ∈ pairs, ∀ y ∈ pairs, x.1.ent.isPad = false → y.1.ent.isPad = false →
        x.1.ent.fullTarget ∉ Fs.properPrefixes y.1.ent.fullTarget) →
      start + (pairs.map (·.1.len)).sum ≤ buf.length →
      (writeSegs st pairs buf start).2 ≠ .fault := by
  induction pairs with
  | nil => intro st buf start _ _ _ _; simp [writeSegs]
  | cons x rest ih =>
    obtain ⟨seg, src⟩ := x
    intro st buf start hf hwr hnest hlen
    simp only [List.map_cons, List.sum_cons] at hlen
    have hwr' : ∀ x ∈ rest, x.1.ent.isPad = false → Wr st.fs x.1.ent.fullTarget :=
      fun x hx => hwr x (List.mem_cons_of_mem _ hx)
    have hnest' : ∀ x ∈ rest, ∀ y ∈ rest, x.1.ent.isPad = false → y.1.ent.isPad = false →
        x.1.ent.fullTarget ∉ Fs.properPrefixes y.1.ent.fullTarget :=
      fun x hx y hy => hnest x (List.mem_cons_of_mem _ hx) y (List.mem_cons_of_mem _ hy)
    rw [RunF.writeSegs_cons]
    split
    · exact ih st buf _ hf hwr' hnest' (by omega)
    · rename_i hpad
      have hpad : seg.ent.isPad = false := by simpa using hpad
      split
      · exact ih st buf _ hf hwr' hnest' (by omega)
      · obtain ⟨st5, h5, f5, hpres⟩ := writeOne_none st seg buf start hf (hwr _ List.mem_cons_self hpad) (by omega)
        rw [h5]
        simp only []
        refine ih st5 buf _ f5 ?_ hnest' (by omega)
        intro y hy hpy
        exact hpres _ (hwr' y hy hpy)
          (hnest _ List.mem_cons_self y (List.mem_cons_of_mem _ hy) hpad hpy)
          (hnest y (List.mem_cons_of_mem _ hy) _ List.mem_cons_self hpy hpad)

/-! ### a piece evaluation without fault points -/

theorem nff_of_nil {st : St} (h : st.faults = []) : RC.NFF st := by
  intro idx hidx
  rw [h] at hidx
  cases hidx

theorem scanSingle_no_err (H : Bytes → Bytes) (hash : Bytes) (seg : WSeg) (paths : List Path) :
    ∀ st, RC.NFF st → (∀ p ∈ paths, ∃ i, st.fs.look p = .file i) → (scanSingle H hash seg st paths).2 ≠ .err := by
  induction paths with
  | nil => intro st _ _; simp [scanSingle]
  | cons p ps ih =>
    intro st hn hr
    obtain ⟨i, hi⟩ := hr p List.mem_cons_self
    have hext := RC.readBytes_ext st p seg.len seg.off
    unfold scanSingle
    rw [RC.readBytes_nff hn hi]
    simp only []
    split
    · simp
    · refine ih _ (hext.nff hn) ?_
      intro q hq
      rw [hext.fs]
      exact hr q (List.mem_cons_of_mem _ hq)

/-- without fault points, with candidates that are regular files, buffers of the right length, writable and
    un-nested targets, the evaluation of a piece does not end in an I/O error -/
theorem solvePiece_no_fault (H : Bytes → Bytes) (st : St) (w : Work) (hf : st.faults = [])
    (hreadable : ∀ seg ∈ w.segs, ∀ paths, seg.ent.searches = some paths → ∀ p ∈ paths, ∃ i, st.fs.look p = .file i)
    (hlen : ∀ b, H b = w.hash → b.length = (w.segs.map (·.len)).sum)
    (hwr : ∀ s ∈ w.segs, s.ent.isPad = false → Wr st.fs s.ent.fullTarget)
    (hnest : ∀ s ∈ w.segs, ∀ t ∈ w.segs, s.ent.isPad = false → t.ent.isPad = false →
      s.ent.fullTarget ∉ Fs.properPrefixes t.ent.fullTarget) :
    (solvePiece H st w).2 ≠ .fault := by
  have hn := nff_of_nil hf
  unfold solvePiece
  simp -iota only
  split
  · simp
  split
  · rename_i seg hw
    split
    · split <;> simp
    · split
      · simp
      · rename_i paths hs
        have hmem : seg ∈ w.segs := by rw [hw]; simp
        have hne := scanSingle_no_err H w.hash seg paths st hn (hreadable seg hmem paths hs)
        have hext := RC.scanSingle_ext H w.hash seg st paths
        split <;> rename_i h1 <;> rw [h1] at hne hext
        · rename_i st1 src bytes
          simp only at hext
          have hb := hlen bytes (scanSingle_hash h1)
          rw [hw] at hb
          refine writeSegs_no_fault _ st1 bytes 0 (hext.faults.trans hf) ?_ ?_ (by simpa using Nat.le_of_eq hb.symm)
          · intro x hx hp
            simp only [List.mem_singleton] at hx
            subst hx
            rw [hext.fs]
            exact hwr seg hmem hp
          · intro x hx y hy hpx hpy
            simp only [List.mem_singleton] at hx hy
            subst hx; subst hy
            exact hnest seg hmem seg hmem hpx hpy
        · simp
        · exact absurd rfl hne
        · simp
  · obtain ⟨loaded, hok⟩ := RC.preload_ok (segs := w.segs) hn hreadable
    have hext := RC.preload_ext st w.segs
    split <;> rename_i h1 <;> rw [h1] at hok hext
    · rename_i st1 loaded'
      simp only at hext
      split
      · rename_i chosen hsearch
        have hb := hlen _ (searchProduct_hash hsearch)
        refine writeSegs_no_fault _ st1 _ 0 (hext.faults.trans hf) ?_ ?_ ?_
        · intro x hx hp
          rw [hext.fs]
          exact hwr x.1 (List.of_mem_zip hx).1 hp
        · intro x hx y hy hpx hpy
          exact hnest x.1 (List.of_mem_zip hx).1 y.1 (List.of_mem_zip hy).1 hpx hpy
        · have := zip_lens_le w.segs (chosen.map (·.1))
          omega
      · simp
    · cases hok
    · simp

/-! ### writable targets at the states of a run -/

theorem solveAll_ops_prefix (H : Bytes → Bytes) (pre : List Work) :
    ∀ (st : St) (c : Counters) (acc : List Counters) (post : List Work),
      ∀ o ∈ (solveAll H st pre c acc).1.ops, o ∈ (solveAll H st (pre ++ post) c acc).1.ops := by
  induction pre with
  | nil =>
    intro st c acc post o ho
    obtain ⟨_, new, hn, _⟩ := RD.solveAll_reach H post st c acc
    simp only [List.nil_append]
    rw [hn]
    exact List.mem_append_left _ ho
  | cons w pre ih =>
    intro st c acc post o ho
    rw [List.cons_append, solveAll_cons]
    rw [solveAll_cons] at ho
    split
    · rename_i hp
      rw [if_pos hp] at ho
      exact ho
    · rename_i hp
      rw [if_neg hp] at ho
      exact ih _ _ _ _ o ho

/-- a target that is writable in the initial tree and is not nested with any export image of the table is writable in
    the tree replayed from any operations of the run's log -/
theorem wr_replay (H : Bytes → Bytes) (inp : RunIn) (ops : List Op) (hsub : ∀ o ∈ ops, o ∈ (run H inp).ops)
    (t : Path) (hwr : Wr inp.fs t)
    (hnest : ∀ e ∈ (run H inp).table, e.isPad = false →
      e.fullTarget ∉ Fs.properPrefixes t ∧ t ∉ Fs.properPrefixes e.fullTarget) :
    Wr (replay inp.fs ops) t := by
  have N := RunM.nothing_new H inp ops hsub
  refine ⟨fun q hq => ?_, ?_⟩
  · cases hi : (replay inp.fs ops).inoOf q with
    | none => rfl
    | some j =>
      exfalso
      rcases N.f q j hi with h | ⟨e, he, hp, rfl⟩
      · rw [hwr.1 q hq] at h; cases h
      · exact (hnest e he hp).1 hq
  · cases hd : (replay inp.fs ops).isDir t with
    | false => rfl
    | true =>
      exfalso
      rcases N.d t hd with h | ⟨e, he, hp, hpre⟩
      · rw [hwr.2] at h; cases h
      · rcases prefix_dropLast hpre with e0 | e0
        · exact hwr.ne_nil e0
        · exact (hnest e he hp).2 e0

/-- ... in particular in the tree of every state of the run -/
theorem wr_at (H : Bytes → Bytes) (inp : RunIn) (st : St) (hreach : RD.Reach ⟨inp.fs, [], inp.faults⟩ st)
    (hsub : ∀ o ∈ st.ops, o ∈ (run H inp).ops) (t : Path) (hwr : Wr inp.fs t)
    (hnest : ∀ e ∈ (run H inp).table, e.isPad = false →
      e.fullTarget ∉ Fs.properPrefixes t ∧ t ∉ Fs.properPrefixes e.fullTarget) :
    Wr st.fs t := by
  rw [hreach.replay_init, ← replay_eq_replayD]
  exact wr_replay H inp st.ops hsub t hwr hnest

end TB.RunQ
