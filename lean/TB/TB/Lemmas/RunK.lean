/-
  Helper lemmas (RunK): preservation of verified pieces along the replay of a run's log (C04 at run level).

  `SInv` is the structural part of the invariant (names, inodes, directories); it is kept by every logged
  operation whatsoever. The content part is `Win` (a byte window of one inode still holds what it held at the
  start) for the pieces of the run, and plain equality of contents for foreign pieces. Every fact about an operation
  is `RunJ.OpFact`, taken from `RunJ.run_opFact`.

  `Disj` and `HInj` have the same bodies as `RangesDisjoint` and `HInjOn` of `TB.Props.C04h` (which imports this
  file).
-/
import TB.Spec.ExportSpec
import TB.Lemmas.RunJ
namespace TB.RunK
open TB

/-! ### the vocabulary of `TB.Props.C04h` -/

def HInj (H : Bytes → Bytes) (work : List Work) : Prop :=
  ∀ w ∈ work, ∀ b b', H b = w.hash → H b' = w.hash → b = b'

def Disj (work : List Work) : Prop :=
  (∀ (a b : Nat) (w v : Work), work[a]? = some w → work[b]? = some v → a ≠ b →
    ∀ s ∈ w.segs, ∀ t ∈ v.segs, s.ent.isPad = false → t.ent.isPad = false → s.ent.fullTarget = t.ent.fullTarget →
      s.off + s.len ≤ t.off ∨ t.off + t.len ≤ s.off) ∧
  (∀ w ∈ work, ∀ (a b : Nat) (s t : WSeg), w.segs[a]? = some s → w.segs[b]? = some t → a ≠ b →
    s.ent.isPad = false → t.ent.isPad = false → s.ent.fullTarget ≠ t.ent.fullTarget)

/-! ### the structural invariant -/

/-- what holds of the tree `fs` replayed from any list of logged operations on `fs0`: inodes are below `next`; the
    names of `fs0` keep their inodes; no export image shares its inode; the directories of `fs0` are still
    directories; no name is both a file and a directory -/
structure SInv (table : List TEntry) (fs0 fs : Fs) : Prop where
  lt : ∀ p i, fs.inoOf p = some i → i < fs.next
  keep : ∀ q i, fs0.inoOf q = some i → fs.inoOf q = some i
  na : RunJ.NoAl fs table
  dk : ∀ q, fs0.isDir q = true → fs.isDir q = true
  nd : ∀ q i, fs.inoOf q = some i → fs.isDir q = false

variable {table : List TEntry} {fs0 : Fs}

theorem SInv.base (hwf : FsWF fs0) (hna : RunJ.NoAl fs0 table) : SInv table fs0 fs0 :=
  ⟨fun p i h => hwf.1 p i (RunF.inoOf_mem h), fun _ _ h => h, hna, fun _ h => h,
    fun q i h => hwf.2.2.1 q i (RunF.inoOf_mem h)⟩

/-- the invariant looks only at names, directories and `next` -/
theorem SInv.congr {fs fs' : Fs} (hf : fs'.files = fs.files) (hd : fs'.dirs = fs.dirs) (hn : fs'.next = fs.next)
    (h : SInv table fs0 fs) : SInv table fs0 fs' := by
  have hi : ∀ p, fs'.inoOf p = fs.inoOf p := RunF.inoOf_congr hf
  have hdir : ∀ p, fs'.isDir p = fs.isDir p := by intro p; unfold Fs.isDir; rw [hd]
  refine ⟨?_, ?_, ?_, ?_, ?_⟩
  · intro p i hp; rw [hn]; rw [hi] at hp; exact h.lt p i hp
  · intro q i hq; rw [hi]; exact h.keep q i hq
  · intro e he hp q i h1 h2; rw [hi] at h1 h2; exact h.na e he hp q i h1 h2
  · intro q hq; rw [hdir]; exact h.dk q hq
  · intro q i hq; rw [hi] at hq; rw [hdir]; exact h.nd q i hq

theorem SInv.mkdirs {fs : Fs} (h : SInv table fs0 fs) (d : Path) : SInv table fs0 (fs.mkdirs d).1 := by
  obtain ⟨h1, _, h3, h4, h5, _⟩ := RunF.mkdirs_spec fs d
  have hi : ∀ p, (fs.mkdirs d).1.inoOf p = fs.inoOf p := RunF.inoOf_congr h1
  refine ⟨?_, ?_, ?_, ?_, ?_⟩
  · intro p i hp; rw [h3]; rw [hi] at hp; exact h.lt p i hp
  · intro q i hq; rw [hi]; exact h.keep q i hq
  · intro e he hp q i a b; rw [hi] at a b; exact h.na e he hp q i a b
  · intro q hq; exact h4 q (h.dk q hq)
  · intro q i hq
    rw [hi] at hq
    cases hd : (fs.mkdirs d).1.isDir q with
    | false => rfl
    | true =>
      rcases h5 q hd with h' | h'
      · rw [h.nd q i hq] at h'; cases h'
      · rw [hq] at h'; cases h'

theorem SInv.addFile {fs : Fs} {t : Path} (h : SInv table fs0 fs) (hl : fs.look t = .notFound) :
    SInv table fs0 (RunF.addFile fs t) := by
  obtain ⟨hnd, hnone⟩ := RunF.look_notFound hl
  have old : ∀ q j, (RunF.addFile fs t).inoOf q = some j → (q = t ∧ j = fs.next) ∨ (q ≠ t ∧ fs.inoOf q = some j) := by
    intro q j hq
    rw [RunF.inoOf_addFile] at hq
    split at hq
    · rename_i e; cases hq; exact Or.inl ⟨e.symm, rfl⟩
    · rename_i e; exact Or.inr ⟨fun e' => e e'.symm, hq⟩
  refine ⟨?_, ?_, ?_, ?_, ?_⟩
  · intro p i hp
    show i < fs.next + 1
    rcases old p i hp with ⟨_, rfl⟩ | ⟨_, hp⟩
    · exact Nat.lt_succ_self _
    · exact Nat.lt_succ_of_lt (h.lt p i hp)
  · intro q i hq
    have hq' := h.keep q i hq
    rw [RunF.inoOf_addFile, if_neg]
    · exact hq'
    · intro e; subst e; rw [hnone] at hq'; cases hq'
  · intro e he hp q i h1 h2
    rcases old _ _ h1 with ⟨e1, rfl⟩ | ⟨_, h1'⟩
    · rcases old _ _ h2 with ⟨e2, _⟩ | ⟨_, h2'⟩
      · rw [e1, e2]
      · exact absurd (h.lt q _ h2') (Nat.lt_irrefl _)
    · rcases old _ _ h2 with ⟨_, rfl⟩ | ⟨_, h2'⟩
      · exact absurd (h.lt _ _ h1') (Nat.lt_irrefl _)
      · exact h.na e he hp q i h1' h2'
  · intro q hq
    rw [RunF.isDir_addFile]; exact h.dk q hq
  · intro q i hq
    rw [RunF.isDir_addFile]
    rcases old _ _ hq with ⟨e1, _⟩ | ⟨_, hq'⟩
    · rw [e1]; exact hnd
    · exact h.nd q i hq'

/-- every logged operation keeps the structural invariant (nothing is assumed of the operation) -/
theorem SInv.step {fs : Fs} (h : SInv table fs0 fs) (o : Op) : SInv table fs0 (applyOp fs o) := by
  unfold applyOp
  cases o.kind with
  | mkdirs =>
    simp only []
    split
    · exact h.mkdirs o.path
    · exact h
  | openc =>
    simp only []
    split
    · rcases RunF.openCreate_cases fs o.path with e | ⟨hl, e⟩
      · rw [e]; exact h
      · rw [e]; exact h.addFile hl
    · exact h
  | setlen n =>
    simp only []
    split
    · cases fs.look o.path with
      | file i => exact SInv.congr (fs := fs) rfl rfl rfl h
      | _ => exact h
    · exact h
  | write off d =>
    simp only []
    split
    · cases fs.look o.path with
      | file i => exact SInv.congr (fs := fs) rfl rfl rfl h
      | _ => exact h
    · exact h
  | _ => exact h

/-- a regular file of the initial (well-formed) tree is still found, under the same inode: its proper prefixes
    were directories and still are, so none of them can have been created as a regular file -/
theorem SInv.look {fs : Fs} (hwf : FsWF fs0) (h : SInv table fs0 fs) {p : Path} {i : Nat}
    (hl : fs0.look p = .file i) : fs.look p = .file i := by
  obtain ⟨_, _, l3⟩ := RunF.look_file hl
  have hi := h.keep p i l3
  apply RunF.look_file_of
  · rw [List.any_eq_false]
    intro q hq
    have hd : fs.isDir q = true := h.dk q (hwf.2.2.2 p i (RunF.inoOf_mem l3) q hq)
    cases hq' : fs.inoOf q with
    | none => simp
    | some j =>
      have := h.nd q j hq'
      rw [hd] at this; cases this
  · exact h.nd p i hi
  · exact hi

/-- the content of an inode changes only under a successful `set_len` or write on a name bound to it -/
theorem applyOp_content {fs : Fs} (o : Op) (i : Nat) (hi : i < fs.next) :
    (applyOp fs o).content i = fs.content i ∨
    (fs.look o.path = .file i ∧
      ((∃ n, o.kind = .setlen n ∧ applyOp fs o = fs.setLen i n) ∨
       (∃ off d, o.kind = .write off d ∧ applyOp fs o = fs.writeAt i off d))) := by
  unfold applyOp
  cases hk : o.kind with
  | mkdirs =>
    simp only []
    split
    · exact Or.inl (RunF.content_congr (RunF.mkdirs_spec fs o.path).2.1 i)
    · exact Or.inl rfl
  | openc =>
    simp only []
    split
    · rcases RunF.openCreate_cases fs o.path with e | ⟨_, e⟩
      · rw [e]; exact Or.inl rfl
      · rw [e]; exact Or.inl (RunF.content_addFile fs o.path i (Nat.ne_of_lt hi))
    · exact Or.inl rfl
  | setlen n =>
    simp only []
    split
    · cases hl : fs.look o.path with
      | file j =>
        simp only []
        by_cases hj : i = j
        · subst hj
          exact Or.inr ⟨rfl, Or.inl ⟨n, rfl, rfl⟩⟩
        · exact Or.inl (RB.Fs.content_setData_other _ _ _ _ hj)
      | _ => exact Or.inl rfl
    · exact Or.inl rfl
  | write off d =>
    simp only []
    split
    · cases hl : fs.look o.path with
      | file j =>
        simp only []
        by_cases hj : i = j
        · subst hj
          exact Or.inr ⟨rfl, Or.inr ⟨off, d, rfl, rfl⟩⟩
        · exact Or.inl (RB.Fs.content_setData_other _ _ _ _ hj)
      | _ => exact Or.inl rfl
    · exact Or.inl rfl
  | _ => exact Or.inl rfl

theorem replay_ind {Q : Fs → Prop} {F : Op → Prop} (hstep : ∀ fs o, F o → Q fs → Q (applyOp fs o)) (ops : List Op) :
    ∀ fs, (∀ o ∈ ops, F o) → Q fs → Q (replay fs ops) := by
  induction ops with
  | nil => intro fs _ h; exact h
  | cons o ops ih =>
    intro fs hall h
    show Q (TB.replay (applyOp fs o) ops)
    exact ih _ (fun o' ho' => hall o' (List.mem_cons_of_mem _ ho')) (hstep fs o (hall o List.mem_cons_self) h)

/-! ### contents under `set_len` and positional writes -/

theorem padTo_get {c : Bytes} {off k : Nat} (hk : k < c.length) : (RunJ.padTo c off)[k]? = c[k]? := by
  unfold RunJ.padTo
  split
  · rfl
  · rw [List.getElem?_append_left hk]

theorem content_writeAt_out (fs : Fs) (i off : Nat) (d : Bytes) (k : Nat) (hk : k < (fs.content i).length)
    (hout : k < off ∨ off + d.length ≤ k) : ((fs.writeAt i off d).content i)[k]? = (fs.content i)[k]? := by
  obtain ⟨p1, _, _, _⟩ := RunJ.padTo_spec (fs.content i) off
  rw [RunJ.writeAt_eq, RD.Fs.content_setData, RunJ.getElem?_write _ _ _ p1]
  rcases hout with h | h
  · rw [if_pos h]; exact padTo_get hk
  · rw [if_neg (by omega), if_neg (by omega)]; exact padTo_get hk

theorem content_writeAt_in (fs : Fs) (i off : Nat) (d : Bytes) (k : Nat) (h1 : off ≤ k) (h2 : k < off + d.length) :
    ((fs.writeAt i off d).content i)[k]? = d[k - off]? := by
  obtain ⟨p1, _, _, _⟩ := RunJ.padTo_spec (fs.content i) off
  rw [RunJ.writeAt_eq, RD.Fs.content_setData, RunJ.getElem?_write _ _ _ p1, if_neg (by omega), if_pos h2]

theorem content_writeAt_len (fs : Fs) (i off : Nat) (d : Bytes) :
    (fs.content i).length ≤ ((fs.writeAt i off d).content i).length := by
  obtain ⟨p1, p2, _, _⟩ := RunJ.padTo_spec (fs.content i) off
  rw [RunJ.writeAt_eq, RD.Fs.content_setData, List.length_append, List.length_append, List.length_take,
    List.length_drop]
  omega

theorem content_setLen_get (fs : Fs) (i n k : Nat) (hk : k < (fs.content i).length) (hn : k < n) :
    ((fs.setLen i n).content i)[k]? = (fs.content i)[k]? := by
  show ((fs.setData i (if n ≤ (fs.content i).length then (fs.content i).take n
    else fs.content i ++ List.replicate (n - (fs.content i).length) 0)).content i)[k]? = _
  rw [RD.Fs.content_setData]
  split
  · rw [List.getElem?_take, if_pos hn]
  · rw [List.getElem?_append_left hk]

theorem content_setLen_len (fs : Fs) (i n : Nat) : ((fs.setLen i n).content i).length = n := by
  show ((fs.setData i (if n ≤ (fs.content i).length then (fs.content i).take n
    else fs.content i ++ List.replicate (n - (fs.content i).length) 0)).content i).length = _
  rw [RD.Fs.content_setData]
  split
  · rw [List.length_take]; omega
  · rw [List.length_append, List.length_replicate]; omega

/-! ### a byte window that still holds its initial content -/

/-- the bytes `[lo, hi)` of inode `i` exist in `fs` and are those of `fs0` -/
def Win (fs0 fs : Fs) (i lo hi : Nat) : Prop :=
  hi ≤ (fs.content i).length ∧ ∀ k, lo ≤ k → k < hi → (fs.content i)[k]? = (fs0.content i)[k]?

theorem Win.of_content_eq {fs fs' : Fs} {i lo hi : Nat} (he : fs'.content i = fs.content i)
    (h : Win fs0 fs i lo hi) : Win fs0 fs' i lo hi := by
  unfold Win; rw [he]; exact h

theorem Win.readAt {fs : Fs} {i off len : Nat} (h : Win fs0 fs i off (off + len)) :
    fs.readAt i off len = fs0.readAt i off len := by
  unfold Fs.readAt
  apply List.ext_getElem?
  intro j
  rw [List.getElem?_take, List.getElem?_take]
  split
  · rw [List.getElem?_drop, List.getElem?_drop]
    exact h.2 (off + j) (by omega) (by omega)
  · rfl

theorem Win.setLen {fs : Fs} {i lo hi : Nat} (h : Win fs0 fs i lo hi) {n : Nat} (hn : hi ≤ n) :
    Win fs0 (fs.setLen i n) i lo hi := by
  refine ⟨by rw [content_setLen_len]; exact hn, ?_⟩
  intro k h1 h2
  rw [content_setLen_get _ _ _ _ (by have := h.1; omega) (by omega)]
  exact h.2 k h1 h2

theorem Win.writeAt_out {fs : Fs} {i lo hi : Nat} (h : Win fs0 fs i lo hi) {off : Nat} {d : Bytes}
    (hd : hi ≤ off ∨ off + d.length ≤ lo) : Win fs0 (fs.writeAt i off d) i lo hi := by
  refine ⟨Nat.le_trans h.1 (content_writeAt_len fs i off d), ?_⟩
  intro k h1 h2
  rw [content_writeAt_out _ _ _ _ _ (by have := h.1; omega) (by omega)]
  exact h.2 k h1 h2

theorem Win.writeAt_same {fs : Fs} {i lo hi : Nat} (h : Win fs0 fs i lo hi) {d : Bytes} (hl : lo + d.length = hi)
    (hd : ∀ k, lo ≤ k → k < hi → d[k - lo]? = (fs0.content i)[k]?) : Win fs0 (fs.writeAt i lo d) i lo hi := by
  refine ⟨Nat.le_trans h.1 (content_writeAt_len fs i lo d), ?_⟩
  intro k h1 h2
  rw [content_writeAt_in _ _ _ _ _ h1 (by omega)]
  exact hd k h1 h2

/-! ### `mapM`, the parts of a verifying piece -/

theorem mapM_some_congr {α β : Type} {f g : α → Option β} {l : List α} {r : List β} (h : l.mapM f = some r)
    (hfg : ∀ a ∈ l, ∀ b, f a = some b → g a = some b) : l.mapM g = some r := by
  induction l generalizing r with
  | nil => simp at h ⊢; exact h
  | cons a l ih =>
    rw [List.mapM_cons] at h ⊢
    cases ha : f a with
    | none => simp [ha] at h
    | some b0 =>
      cases hl : l.mapM f with
      | none => simp [ha, hl] at h
      | some bs =>
        simp [ha, hl] at h
        subst h
        rw [hfg a List.mem_cons_self b0 ha, ih hl (fun a' ha' => hfg a' (List.mem_cons_of_mem _ ha'))]
        rfl

theorem segStart_zero (segs : List WSeg) : segStart segs 0 = 0 := by
  simp [segStart]

theorem segStart_succ (a : WSeg) (segs : List WSeg) (k : Nat) : segStart (a :: segs) (k + 1) = a.len + segStart segs k := by
  simp [segStart]

/-- part `k` of a successful `mapM` whose parts have the declared lengths is the slice of the concatenation that
    starts at `segStart k` -/
theorem mapM_flatten_slice (f : WSeg → Option Bytes) {segs : List WSeg} {ps : List Bytes}
    (h : segs.mapM f = some ps) (hlen : ∀ s ∈ segs, ∀ b, f s = some b → b.length = s.len) :
    ∀ k s, segs[k]? = some s → ∃ b, f s = some b ∧ (ps.flatten.drop (segStart segs k)).take s.len = b := by
  induction segs generalizing ps with
  | nil => intro k s hk; simp at hk
  | cons a l ih =>
    rw [List.mapM_cons] at h
    cases ha : f a with
    | none => simp [ha] at h
    | some b0 =>
      cases hl : l.mapM f with
      | none => simp [ha, hl] at h
      | some bs =>
        simp [ha, hl] at h
        subst h
        have hb0 : b0.length = a.len := hlen a List.mem_cons_self b0 ha
        intro k s hk
        cases k with
        | zero =>
          simp at hk
          subst hk
          refine ⟨b0, ha, ?_⟩
          rw [segStart_zero, List.drop_zero, List.flatten_cons, ← hb0, List.take_left']
          rfl
        | succ k =>
          simp at hk
          obtain ⟨b, hb, e⟩ := ih hl (fun s' hs' => hlen s' (List.mem_cons_of_mem _ hs')) k s hk
          refine ⟨b, hb, ?_⟩
          rw [segStart_succ, List.flatten_cons, ← hb0, List.drop_length_add_append]
          exact e

theorem segBytesIn_len {fs : Fs} {s : WSeg} {b : Bytes} (h : segBytesIn fs s = some b) : b.length = s.len := by
  unfold segBytesIn at h
  split at h
  · cases h; simp
  · split at h
    · split at h
      · cases h
        unfold Fs.readAt
        rw [List.length_take, List.length_drop]; omega
      · cases h
    · cases h

theorem segBytesIn_nonpad {fs : Fs} {s : WSeg} {b : Bytes} (hp : s.ent.isPad = false) (h : segBytesIn fs s = some b) :
    ∃ i, fs.look s.ent.fullTarget = .file i ∧ s.off + s.len ≤ (fs.content i).length ∧ b = fs.readAt i s.off s.len := by
  unfold segBytesIn at h
  split at h
  · rename_i hp'; rw [hp] at hp'; cases hp'
  · split at h
    · rename_i i hl
      split at h
      · rename_i hlen
        cases h
        exact ⟨i, hl, hlen, rfl⟩
      · cases h
    · cases h

theorem segBytesIn_of {fs : Fs} {s : WSeg} {i : Nat} (hp : s.ent.isPad = false)
    (hl : fs.look s.ent.fullTarget = .file i) (hlen : s.off + s.len ≤ (fs.content i).length) :
    segBytesIn fs s = some (fs.readAt i s.off s.len) := by
  simp [segBytesIn, hp, hl, hlen]

theorem segBytesIn_pad {fs fs' : Fs} {s : WSeg} (hp : s.ent.isPad = true) : segBytesIn fs' s = segBytesIn fs s := by
  simp [segBytesIn, hp]

theorem verE_transfer {H : Bytes → Bytes} {fs fs' : Fs} {w : Work}
    (h : ∀ s ∈ w.segs, ∀ b, segBytesIn fs s = some b → segBytesIn fs' s = some b) (hver : VerE H fs w) :
    VerE H fs' w := by
  obtain ⟨ps, h1, h2⟩ := hver
  exact ⟨ps, mapM_some_congr h1 h, h2⟩

/-! ### foreign pieces -/

/-- the images of the non-padding segments of `w` hold what they held -/
structure FInv (table : List TEntry) (w : Work) (fs0 fs : Fs) : Prop where
  s : SInv table fs0 fs
  c : ∀ seg ∈ w.segs, seg.ent.isPad = false → ∀ i, fs0.inoOf seg.ent.fullTarget = some i →
    fs.content i = fs0.content i

/-- the path of a `set_len` or a write is the image of a non-padding table entry -/
theorem opFact_path {H : Bytes → Bytes} {work : List Work} {o : Op} (hf : RunJ.OpFact H work table o)
    (hk : (∃ n, o.kind = .setlen n) ∨ (∃ off d, o.kind = .write off d)) :
    ∃ e ∈ table, e.isPad = false ∧ o.path = e.fullTarget := by
  rcases hk with ⟨n, hk⟩ | ⟨off, d, hk⟩
  · obtain ⟨e, he, hp, hpa, _⟩ := hf.1 n hk
    exact ⟨e, he, hp, hpa⟩
  · obtain ⟨v, _, k, sg, buf, _, hp, hent, hpa, _⟩ := hf.2 off d hk
    exact ⟨sg.ent, hent, hp, hpa⟩

theorem FInv.step {H : Bytes → Bytes} {work : List Work} {w : Work} {fs : Fs}
    (hforeign : ∀ s ∈ w.segs, s.ent.isPad = false → ∀ e ∈ table, e.isPad = false → e.fullTarget ≠ s.ent.fullTarget)
    (o : Op) (hf : RunJ.OpFact H work table o) (h : FInv table w fs0 fs) : FInv table w fs0 (applyOp fs o) := by
  refine ⟨h.s.step o, ?_⟩
  intro seg hseg hpad i hi
  have hi' := h.s.keep _ _ hi
  rcases applyOp_content o i (h.s.lt _ _ hi') with e | ⟨hl, hk⟩
  · rw [e]; exact h.c seg hseg hpad i hi
  · exfalso
    have hio := RunF.look_file_inoOf hl
    obtain ⟨e, he, hpe, hpath⟩ := opFact_path hf (by
      rcases hk with ⟨n, hk, _⟩ | ⟨off, d, hk, _⟩
      · exact Or.inl ⟨n, hk⟩
      · exact Or.inr ⟨off, d, hk⟩)
    rw [hpath] at hio
    exact hforeign seg hseg hpad e he hpe (h.s.na e he hpe _ _ hio hi').symm

theorem FInv.verE {H : Bytes → Bytes} {w : Work} {fs : Fs} (hwf : FsWF fs0) (h : FInv table w fs0 fs)
    (hver : VerE H fs0 w) : VerE H fs w := by
  refine verE_transfer ?_ hver
  intro s hs b hb
  cases hp : s.ent.isPad with
  | true => rw [segBytesIn_pad hp]; exact hb
  | false =>
    obtain ⟨i, hl, hlen, rfl⟩ := segBytesIn_nonpad hp hb
    have hc := h.c s hs hp i (RunF.look_file_inoOf hl)
    rw [segBytesIn_of hp (h.s.look hwf hl) (by rw [hc]; exact hlen)]
    unfold Fs.readAt
    rw [hc]

theorem foreign_preserved (H : Bytes → Bytes) (inp : RunIn) (hwf : FsWF inp.fs)
    (hna : RunJ.NoAl inp.fs (run H inp).table) (w : Work)
    (hforeign : ∀ s ∈ w.segs, s.ent.isPad = false → ∀ e ∈ (run H inp).table, e.isPad = false →
      e.fullTarget ≠ s.ent.fullTarget)
    (hver : VerE H inp.fs w) (ops : List Op) (hops : ∀ o ∈ ops, o ∈ (run H inp).ops) :
    VerE H (replay inp.fs ops) w := by
  have h0 : FInv (run H inp).table w inp.fs inp.fs := ⟨SInv.base hwf hna, fun _ _ _ _ _ => rfl⟩
  have := replay_ind (Q := FInv (run H inp).table w inp.fs)
    (F := RunJ.OpFact H (run H inp).work (run H inp).table)
    (fun fs o hf h => FInv.step hforeign o hf h) ops inp.fs
    (fun o ho => RunJ.run_opFact H inp o (hops o ho)) h0
  exact this.verE hwf hver

/-! ### the pieces of the run -/

/-- the windows of the non-padding segments of `w` that were readable at the start still hold their bytes -/
structure MInv (table : List TEntry) (w : Work) (fs0 fs : Fs) : Prop where
  s : SInv table fs0 fs
  c : ∀ seg ∈ w.segs, seg.ent.isPad = false → ∀ i, fs0.look seg.ent.fullTarget = .file i →
    seg.off + seg.len ≤ (fs0.content i).length → Win fs0 fs i seg.off (seg.off + seg.len)

theorem MInv.step {H : Bytes → Bytes} {work : List Work} {w : Work} {fs : Fs}
    (hsame : RunJ.SameLen table) (hrange : SegsInRange w) (hent : ∀ seg ∈ w.segs, seg.ent ∈ table)
    (hdisj : Disj work) (hinj : HInj H work) (hw : w ∈ work)
    {ps : List Bytes} (hps : w.segs.mapM (segBytesIn fs0) = some ps) (hH : H ps.flatten = w.hash)
    (o : Op) (hf : RunJ.OpFact H work table o) (h : MInv table w fs0 fs) : MInv table w fs0 (applyOp fs o) := by
  refine ⟨h.s.step o, ?_⟩
  intro seg hseg hpad i hl0 hlen0
  have hW := h.c seg hseg hpad i hl0 hlen0
  have hi' := h.s.keep _ _ (RunF.look_file_inoOf hl0)
  rcases applyOp_content o i (h.s.lt _ _ hi') with e | ⟨hl, hk⟩
  · exact hW.of_content_eq e
  · have hio := RunF.look_file_inoOf hl
    rcases hk with ⟨n, hk, e⟩ | ⟨off, d, hk, e⟩
    · -- `set_len` to the declared length of an entry with the same image
      obtain ⟨e', he', hpe, hpa, hn⟩ := hf.1 n hk
      rw [hpa] at hio
      have heq : seg.ent.fullTarget = e'.fullTarget := h.s.na e' he' hpe _ _ hio hi'
      have hfl : e'.fileLength = seg.ent.fileLength := hsame e' he' seg.ent (hent seg hseg) hpe hpad heq.symm
      rw [e]
      exact hW.setLen (by have := hrange seg hseg; omega)
    · obtain ⟨v, hv, k, sg, buf, hsg, hpsg, hsent, hpa, hoff, hHb, hbl, hd⟩ := hf.2 off d hk
      rw [hpa] at hio
      have heq : seg.ent.fullTarget = sg.ent.fullTarget := h.s.na sg.ent hsent hpsg _ _ hio hi'
      have hdl : d.length = sg.len := by
        rw [hd, List.length_take, List.length_drop]; omega
      obtain ⟨a, ha⟩ := List.getElem?_of_mem hw
      obtain ⟨b, hb⟩ := List.getElem?_of_mem hv
      obtain ⟨j, hj⟩ := List.getElem?_of_mem hseg
      rw [e, hoff]
      by_cases hab : a = b
      · -- a write of the piece itself: the same segment, the same bytes
        subst hab
        rw [ha] at hb
        cases hb
        by_cases hjk : j = k
        · subst hjk
          rw [hj] at hsg
          cases hsg
          obtain ⟨b', hb', hsl⟩ := mapM_flatten_slice _ hps (fun _ _ _ hb => segBytesIn_len hb) j seg hj
          obtain ⟨i', hl', _, hbr⟩ := segBytesIn_nonpad hpad hb'
          rw [hl0] at hl'
          cases hl'
          have hbuf : buf = ps.flatten := hinj w hw buf ps.flatten hHb hH
          rw [hbuf, hsl, hbr] at hd
          refine hW.writeAt_same (by omega) ?_
          intro x h1 h2
          rw [hd]
          unfold Fs.readAt
          rw [List.getElem?_take, if_pos (by omega), List.getElem?_drop]
          congr 1
          omega
        · exact absurd heq (hdisj.2 w hw j k seg sg hj hsg hjk hpad hpsg)
      · -- a write of another piece: disjoint ranges
        have := hdisj.1 a b w v ha hb hab seg hseg sg (List.mem_of_getElem? hsg) hpad hpsg heq
        exact hW.writeAt_out (by omega)

theorem MInv.verE {H : Bytes → Bytes} {w : Work} {fs : Fs} (hwf : FsWF fs0) (h : MInv table w fs0 fs)
    (hver : VerE H fs0 w) : VerE H fs w := by
  refine verE_transfer ?_ hver
  intro s hs b hb
  cases hp : s.ent.isPad with
  | true => rw [segBytesIn_pad hp]; exact hb
  | false =>
    obtain ⟨i, hl, hlen, rfl⟩ := segBytesIn_nonpad hp hb
    have hW := h.c s hs hp i hl hlen
    rw [segBytesIn_of hp (h.s.look hwf hl) hW.1, hW.readAt]

/-- the entries of the segments of the run's work items are entries of the run's table -/
theorem run_work_ent (H : Bytes → Bytes) (inp : RunIn) :
    ∀ w ∈ (run H inp).work, ∀ seg ∈ w.segs, seg.ent ∈ (run H inp).table := by
  unfold run
  simp only []
  split
  · intro w hw; cases hw
  split
  · intro w hw; cases hw
  · split
    · intro w hw; cases hw
    · split
      · intro w hw; cases hw
      · rename_i work hwork
        exact convertPiecesToWork_ent hwork

theorem run_preserved (H : Bytes → Bytes) (inp : RunIn) (hwf : FsWF inp.fs)
    (hna : RunJ.NoAl inp.fs (run H inp).table)
    (hrange : ∀ w ∈ (run H inp).work, SegsInRange w)
    (hsame : RunJ.SameLen (run H inp).table)
    (hdisj : Disj (run H inp).work) (hinj : HInj H (run H inp).work)
    (w : Work) (hw : w ∈ (run H inp).work) (hver : VerE H inp.fs w)
    (ops : List Op) (hops : ∀ o ∈ ops, o ∈ (run H inp).ops) :
    VerE H (replay inp.fs ops) w := by
  obtain ⟨ps, hps, hH⟩ := hver
  have h0 : MInv (run H inp).table w inp.fs inp.fs := by
    refine ⟨SInv.base hwf hna, ?_⟩
    intro seg _ _ i _ hlen
    exact ⟨hlen, fun _ _ _ => rfl⟩
  have := replay_ind (Q := MInv (run H inp).table w inp.fs)
    (F := RunJ.OpFact H (run H inp).work (run H inp).table)
    (fun fs o hf h => MInv.step hsame (hrange w hw) (run_work_ent H inp w hw) hdisj hinj hw hps hH o hf h)
    ops inp.fs (fun o ho => RunJ.run_opFact H inp o (hops o ho)) h0
  exact this.verE hwf ⟨ps, hps, hH⟩

end TB.RunK
