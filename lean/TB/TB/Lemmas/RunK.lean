/-
  Helper lemmas (RunK): preservation of verified pieces.
-/
import TB.Spec.ExportSpec
namespace TB.RunK

end TB.RunK
