/-
  Helper lemmas (RunR): what a whole run keeps of the standing tree invariants, at every prefix of its log, and the
  tree-independent form of a run's table and work list (C04 over histories, `TB.Props.C04hist`).

  * Part A — `FsWF` at every prefix of a run's log. The statement is about the LOG alone (`WFLog`): replaying any
    prefix of it on ANY well-formed tree gives a well-formed tree. Every operation other than `openc` keeps `FsWF`
    whatever it is; an `openc` does not in general (`C04_openc_alone_breaks_wf` in `TB.Props.C04hist`: the parent
    exists as a directory but a grandparent does not), but in a run's log every `openc p` directly follows a successful
    `mkdirs (parent p)`, and the pair keeps `FsWF`.
  * Part B — `NoAlias` with respect to ANY table survives ANY list of logged operations (there is no operation that
    binds a second name to an inode; a created file gets the fresh inode `next`).
  * Part C — the table and the work list of a run up to the candidate lists (`searches`): `table0`, `work0` depend on
    the torrents and the export directory only, not on the tree; every operation of a run satisfies `RunJ.OpFact`
    with respect to them (`run_opFact0`). `Work.img` is what `VerE` looks at in a work item.
  * Part D — one step of a history: preservation of a verifying piece of `work0` / of a foreign piece along any
    list of operations of the run, with all side conditions on `table0` / `work0`.
-/
import TB.Spec.ExportSpec
import TB.Props.C11
import TB.Props.C04a
import TB.Props.C01bytes
import TB.Props.C04h
import TB.Lemmas.RunK
import TB.Lemmas.RunM
import TB.Lemmas.RunARun
namespace TB.RunR
open TB

/-! ## Part A: `FsWF` at every prefix of the log -/

theorem wf_congr {fs fs' : Fs} (hf : fs'.files = fs.files) (hd : fs'.dirs = fs.dirs) (hn : fs'.next = fs.next)
    (h : FsWF fs) : FsWF fs' := by
  have hdir : ∀ p, fs'.isDir p = fs.isDir p := by intro p; unfold Fs.isDir; rw [hd]
  obtain ⟨w1, w2, w3, w4⟩ := h
  refine ⟨?_, ?_, ?_, ?_⟩
  · intro p i hp; rw [hn]; rw [hf] at hp; exact w1 p i hp
  · rw [hf]; exact w2
  · intro p i hp; rw [hf] at hp; rw [hdir]; exact w3 p i hp
  · intro p i hp q hq; rw [hf] at hp; rw [hdir]; exact w4 p i hp q hq

/-- every logged operation other than `openc` keeps the tree well-formed (nothing else is assumed of it) -/
theorem wf_applyOp {fs : Fs} (hwf : FsWF fs) (o : Op) (hk : o.kind ≠ .openc) : FsWF (applyOp fs o) := by
  unfold applyOp
  cases h : o.kind with
  | mkdirs =>
    simp only []
    split
    · exact (RunF.loc_mkdirs (fun _ => True) fs o.path).wf hwf
    · exact hwf
  | openc => exact absurd h hk
  | setlen n =>
    simp only []
    split
    · cases fs.look o.path with
      | file i => exact wf_congr (fs := fs) rfl rfl rfl hwf
      | _ => exact hwf
    · exact hwf
  | write off d =>
    simp only []
    split
    · cases fs.look o.path with
      | file i => exact wf_congr (fs := fs) rfl rfl rfl hwf
      | _ => exact hwf
    · exact hwf
  | _ => exact hwf

theorem openCreate_cases' (fs : Fs) (t : Path) :
    (fs.openCreate t).1 = fs ∨
    (fs.look t = .notFound ∧ fs.isDir t.dropLast = true ∧ (fs.openCreate t).1 = RunF.addFile fs t) := by
  unfold Fs.openCreate
  split
  · left; rfl
  · split
    · right; exact ⟨by assumption, by assumption, rfl⟩
    · left; rfl
  · left; rfl

theorem look_notFound_prefix {fs : Fs} {p : Path} (h : fs.look p = .notFound) :
    ∀ q ∈ Fs.properPrefixes p, fs.inoOf q = none := by
  unfold Fs.look at h
  split at h
  · cases h
  · rename_i h1
    intro q hq
    cases hq' : fs.inoOf q with
    | none => rfl
    | some j =>
      exfalso
      apply h1
      rw [List.any_eq_true]
      exact ⟨q, hq, by rw [hq']; rfl⟩

/-- `create_dir_all` succeeds when none of the names it walks through is a regular file -/
theorem mkdirsAux_isSome (l : List Path) : ∀ fs : Fs, (∀ q ∈ l, fs.inoOf q = none) →
    ∃ fs', Fs.mkdirsAux fs l = some fs' := by
  induction l with
  | nil => intro fs _; exact ⟨fs, rfl⟩
  | cons q rest ih =>
    intro fs h
    simp only [Fs.mkdirsAux]
    split
    · exact ih fs (fun x hx => h x (List.mem_cons_of_mem _ hx))
    · split
      · rename_i hs
        rw [h q List.mem_cons_self] at hs
        cases hs
      · exact ih _ (fun x hx => h x (List.mem_cons_of_mem _ hx))

theorem mkdirs_dirs {fs : Fs} {d : Path} (h : ∀ q ∈ Fs.properPrefixes d ++ [d], fs.inoOf q = none) :
    ∀ q ∈ Fs.properPrefixes d ++ [d], (fs.mkdirs d).1.isDir q = true := by
  apply (RunF.mkdirs_spec fs d).2.2.2.2.2
  unfold Fs.mkdirs
  obtain ⟨fs', e⟩ := mkdirsAux_isSome _ fs h
  rw [e]

/-- `create_dir_all (parent p)` followed by the creating open of `p` keeps the tree well-formed: if the open creates
    `p`, then no proper prefix of `p` is a regular file (else `look p` is ENOTDIR) and the parent is a directory
    (so not a regular file either), hence `create_dir_all` succeeded and made every proper prefix a directory -/
theorem wf_mkdirs_openCreate {fs : Fs} (hwf : FsWF fs) (p : Path) :
    FsWF (((fs.mkdirs p.dropLast).1).openCreate p).1 := by
  have hwf1 : FsWF (fs.mkdirs p.dropLast).1 := (RunF.loc_mkdirs (fun _ => True) fs _).wf hwf
  rcases openCreate_cases' (fs.mkdirs p.dropLast).1 p with e | ⟨hl, hd, e⟩
  · rw [e]; exact hwf1
  · rw [e]
    refine (RunF.loc_addFile (T := fun _ => True) trivial hl ?_).wf hwf1
    have hfiles := (RunF.mkdirs_spec fs p.dropLast).1
    have hino : ∀ q, (fs.mkdirs p.dropLast).1.inoOf q = fs.inoOf q := RunF.inoOf_congr hfiles
    have hnone : ∀ q ∈ Fs.properPrefixes p.dropLast ++ [p.dropLast], fs.inoOf q = none := by
      intro q hq
      rw [← hino]
      rcases List.mem_append.1 hq with hq | hq
      · apply look_notFound_prefix hl
        obtain ⟨n, h1, h2, rfl⟩ := RunF.mem_properPrefixes.1 hq
        have h2' : n < p.length - 1 := by simpa using h2
        refine RunF.mem_properPrefixes.2 ⟨n, h1, by omega, ?_⟩
        rw [List.dropLast_eq_take, List.take_take, Nat.min_eq_left (by omega)]
      · rw [List.mem_singleton] at hq
        subst hq
        cases hq' : (fs.mkdirs p.dropLast).1.inoOf p.dropLast with
        | none => rfl
        | some j =>
          have := hwf1.2.2.1 _ j (RunF.inoOf_mem hq')
          rw [hd] at this
          cases this
    intro q hq
    exact mkdirs_dirs hnone q (RunF.properPrefixes_sub_dropLast hq)

/-- replaying any prefix of the log on any well-formed tree gives a well-formed tree -/
def WFLog (ops : List Op) : Prop := ∀ fs, FsWF fs → ∀ n, FsWF (replay fs (ops.take n))

theorem replay_append (fs : Fs) (a b : List Op) : replay fs (a ++ b) = replay (replay fs a) b := by
  unfold replay; rw [List.foldl_append]

theorem WFLog.nil : WFLog [] := by
  intro fs h n
  simpa [replay] using h

theorem WFLog.append {a b : List Op} (ha : WFLog a) (hb : WFLog b) : WFLog (a ++ b) := by
  intro fs hwf n
  rw [List.take_append, replay_append]
  exact hb _ (ha fs hwf n) _

theorem WFLog.single {o : Op} (h : o.kind ≠ .openc) : WFLog [o] := by
  intro fs hwf n
  cases n with
  | zero => simpa [replay] using hwf
  | succ n =>
    have : [o].take (n + 1) = [o] := by simp
    rw [this]
    exact wf_applyOp hwf o h

theorem WFLog.of_all {ops : List Op} (h : ∀ o ∈ ops, o.kind ≠ .openc) : WFLog ops := by
  induction ops with
  | nil => exact WFLog.nil
  | cons o ops ih =>
    have := WFLog.append (WFLog.single (h o List.mem_cons_self)) (ih (fun x hx => h x (List.mem_cons_of_mem _ hx)))
    simpa using this

theorem WFLog.pair (p : Path) (ok : Bool) : WFLog [⟨.mkdirs, p.dropLast, true⟩, ⟨.openc, p, ok⟩] := by
  intro fs hwf n
  match n with
  | 0 => simpa [replay] using hwf
  | 1 =>
    have : ([⟨.mkdirs, p.dropLast, true⟩, ⟨.openc, p, ok⟩] : List Op).take 1 = [⟨.mkdirs, p.dropLast, true⟩] := rfl
    rw [this]
    exact wf_applyOp hwf ⟨.mkdirs, p.dropLast, true⟩ (by simp)
  | n + 2 =>
    have : ([⟨.mkdirs, p.dropLast, true⟩, ⟨.openc, p, ok⟩] : List Op).take (n + 2)
        = [⟨.mkdirs, p.dropLast, true⟩, ⟨.openc, p, ok⟩] := by simp
    rw [this]
    cases ok with
    | true => exact wf_mkdirs_openCreate hwf p
    | false => exact (RunF.loc_mkdirs (fun _ => True) fs _).wf hwf

/-- `st'` extends the log of `st` by a list of operations that keeps trees well-formed at every prefix -/
def LExt (st st' : St) : Prop := ∃ new, st'.ops = st.ops ++ new ∧ WFLog new

theorem LExt.refl (st : St) : LExt st st := ⟨[], by simp, WFLog.nil⟩

theorem LExt.trans {a b c : St} (h1 : LExt a b) (h2 : LExt b c) : LExt a c := by
  obtain ⟨n1, e1, w1⟩ := h1
  obtain ⟨n2, e2, w2⟩ := h2
  exact ⟨n1 ++ n2, by rw [e2, e1, List.append_assoc], w1.append w2⟩

theorem LExt.of_ext {P : Op → Prop} {st st' : St} (h : Ext P st st') (hp : ∀ o, P o → o.kind ≠ .openc) :
    LExt st st' := by
  obtain ⟨n, e, p⟩ := h
  exact ⟨n, e, WFLog.of_all (fun o ho => hp o (p o ho))⟩

theorem LExt.of_op {st st1 : St} {ok : Bool} {k : OpKind} {p : Path} {n : Fs → Fs × Bool}
    (h : st.op k p n = (st1, ok)) (hk : k ≠ .openc) : LExt st st1 :=
  ⟨_, RD.St.op_ops h, WFLog.single hk⟩

theorem LExt.of_pair {st st1 st2 : St} {ok : Bool} {p : Path} {n1 n2 : Fs → Fs × Bool}
    (h1 : st.op .mkdirs p.dropLast n1 = (st1, true)) (h2 : st1.op .openc p n2 = (st2, ok)) : LExt st st2 := by
  refine ⟨_, ?_, WFLog.pair p ok⟩
  rw [RD.St.op_ops h2, RD.St.op_ops h1, List.append_assoc]
  rfl

theorem readOp_ne_openc {o : Op} (h : ReadOp o) : o.kind ≠ .openc := by
  rcases h with h | ⟨n, h⟩ | h <;> (rw [h]; simp)

theorem writeSegs_lext (pairs : List (WSeg × Option Path)) :
    ∀ st buf start, LExt st (writeSegs st pairs buf start).1 := by
  induction pairs with
  | nil => intro st buf start; exact LExt.refl st
  | cons x rest ih =>
    obtain ⟨seg, src⟩ := x
    intro st buf start
    rw [writeSegs]; simp -iota only
    split; · exact ih _ _ _
    split; · exact ih _ _ _
    split; rename_i st1 ok1 h1
    split
    · exact LExt.of_op h1 (by simp)
    rename_i hok1
    have hok1 : ok1 = true := by simpa using hok1
    subst hok1
    split; rename_i st2 ok2 h2
    have r2 : LExt st st2 := LExt.of_pair h1 h2
    split; · exact r2
    split
    · rename_i i hl
      split; rename_i st3 ok3 h3
      have r3 : LExt st st3 := r2.trans (LExt.of_op h3 (by simp))
      split; · exact r3
      split; rename_i st4 ok4 h4
      have r4 : LExt st st4 := r3.trans (LExt.of_op h4 (by simp))
      split; · exact r4
      split; · exact r4
      split; rename_i st5 ok5 h5
      have r5 : LExt st st5 := r4.trans (LExt.of_op h5 (by simp))
      split; · exact r5
      exact r5.trans (ih _ _ _)
    · exact r2

theorem solvePiece_lext (H : Bytes → Bytes) (st : St) (w : Work) : LExt st (solvePiece H st w).1 := by
  unfold solvePiece; simp -iota only
  split; · exact LExt.refl st
  split
  · rename_i seg _
    split
    · split <;> exact LExt.refl st
    · split
      · exact LExt.refl st
      · rename_i paths _
        have r := LExt.of_ext (scanSingle_ext H w.hash seg st paths) (fun _ => readOp_ne_openc)
        split <;> rename_i h1 <;> rw [h1] at r
        · exact r.trans (writeSegs_lext _ _ _ _)
        · exact r
        · exact r
        · exact r
  · have r := LExt.of_ext (preload_ext st w.segs) (fun _ => readOp_ne_openc)
    split <;> rename_i h1 <;> rw [h1] at r
    · split
      · exact r.trans (writeSegs_lext _ _ _ _)
      · exact r
    · exact r
    · exact r

theorem solveAll_lext (H : Bytes → Bytes) (ws : List Work) :
    ∀ st c acc, LExt st (solveAll H st ws c acc).1 := by
  induction ws with
  | nil => intro st c acc; exact LExt.refl st
  | cons w ws ih =>
    intro st c acc
    simp only [solveAll]
    have r := solvePiece_lext H st w
    split <;> rename_i h1 <;> rw [h1] at r
    · exact r
    · exact r.trans (ih _ _ _)

theorem setupOp_ne_openc {table : List TEntry} {o : Op} (h : SetupOp table o) : o.kind ≠ .openc := by
  rcases h with h | h | ⟨e, _, _, h | h, _⟩ <;> (rw [h]; simp)

theorem LExt.init {fs0 : Fs} {F : List Nat} {st : St} (h : LExt ⟨fs0, [], F⟩ st) : WFLog st.ops := by
  obtain ⟨new, ho, hw⟩ := h
  rw [ho]
  simpa using hw

/-- the log of a run keeps every well-formed tree well-formed at every prefix -/
theorem run_wflog (H : Bytes → Bytes) (inp : RunIn) : WFLog (run H inp).ops := by
  unfold run; simp -iota only
  split; · exact WFLog.nil
  have r1 : LExt ⟨inp.fs, [], inp.faults⟩ (validateAll ⟨inp.fs, [], inp.faults⟩ (inp.scan ++ [inp.exportDir])).1 :=
    LExt.of_ext (validateAll_ext _ _) (fun o h => by rw [h]; simp)
  split <;> rename_i st1 h1 <;> rw [h1] at r1
  · exact r1.init
  · split; rename_i st2 flow h2
    have r2 : LExt ⟨inp.fs, [], inp.faults⟩ st2 := by
      split at h2
      · have := LExt.of_ext (fixExportFileLengths_ext st1
          (buildTable inp.exportDir.path (dedupTorrents (sortTorrents inp.torrents)) 0)) (fun _ => setupOp_ne_openc)
        rw [h2] at this; exact r1.trans this
      · cases h2; exact r1
    split
    · exact r2.init
    · split; rename_i st3 cache0 h3
      have r3 : LExt ⟨inp.fs, [], inp.faults⟩ st3 := by
        have := LExt.of_ext (addExportPaths_ext st2 []
          (buildTable inp.exportDir.path (dedupTorrents (sortTorrents inp.torrents)) 0)) (fun o h => by rw [h]; simp)
        rw [h3] at this; exact r2.trans this
      split; rename_i table okSearch h4
      split
      · exact r3.init
      · rename_i work h5
        split; rename_i ordered okOrder h6
        split; rename_i st4 counters panicked h7
        have := solveAll_lext H ordered st3 ⟨0, 0, 0⟩ []
        rw [h7] at this
        exact (r3.trans this).init

/-! ## Part B: `NoAlias` survives every list of logged operations -/

/-- no logged operation binds a second name to an inode: `NoAlias` with respect to any table `T` (not only the table
    of the run that produced the operations) is kept by the replay of any list of operations -/
theorem noAl_replay {T : List TEntry} {fs : Fs} (hwf : FsWF fs) (hna : RunJ.NoAl fs T) (ops : List Op) :
    RunJ.NoAl (replay fs ops) T :=
  (RunK.replay_ind (Q := RunK.SInv T fs) (F := fun _ => True) (fun _ o _ h => h.step o) ops fs
    (fun _ _ => trivial) (RunK.SInv.base hwf hna)).na

end TB.RunR

/-! ## Part C: the table and the work list of a run, up to the candidate lists -/

namespace TB

/-- the metadata table of a run before the candidate lists are filled in: a function of the export directory and
    the torrents only (every `searches` field is `none`) -/
def table0 (inp : RunIn) : List TEntry :=
  buildTable inp.exportDir.path (dedupTorrents (sortTorrents inp.torrents)) 0

/-- the work items of a run built over `table0`: a function of the export directory and the torrents only
    (`[]` if `convert_pieces_to_work` would panic) -/
def work0 (inp : RunIn) : List Work :=
  (convertPiecesToWork (table0 inp) (dedupTorrents (sortTorrents inp.torrents))).getD []

/-- forget the candidate list -/
def TEntry.strip (e : TEntry) : TEntry := { e with searches := none }
def WSeg.strip (s : WSeg) : WSeg := { s with ent := s.ent.strip }
/-- a work item with the candidate lists of its entries forgotten -/
def Work.strip (w : Work) : Work := { w with segs := w.segs.map WSeg.strip }

/-- what `VerE` looks at in a segment: length, offset, whether it is padding, the export image -/
def WSeg.img (s : WSeg) : Nat × Nat × Bool × Path := (s.len, s.off, s.ent.isPad, s.ent.fullTarget)
/-- what `VerE` looks at in a work item: the segments' ranges and images, and the piece hash. Two work items with the
    same `img` are the same piece in the same place; they may differ in entry ids (positions in the table of the
    run, which depend on which other torrents are loaded), candidate lists and the other bookkeeping fields. -/
def Work.img (w : Work) : List (Nat × Nat × Bool × Path) × Bytes := (w.segs.map WSeg.img, w.hash)

end TB

namespace TB.RunR
open TB

theorem strip_of_none {e : TEntry} (h : e.searches = none) : e.strip = e := by
  cases e; simp only [TEntry.strip] at *; rw [h]

theorem entriesOfFiles_searches (d : Path) (t : Torrent) (fs : List FileRec) :
    ∀ idx id, ∀ e ∈ entriesOfFiles d t fs idx id, e.searches = none := by
  induction fs with
  | nil => intro idx id e he; simp [entriesOfFiles] at he
  | cons f fs ih =>
    intro idx id e he
    simp only [entriesOfFiles, List.mem_cons] at he
    rcases he with rfl | he
    · rfl
    · exact ih _ _ e he

theorem buildTable_searches (d : Path) (ts : List Torrent) : ∀ id, ∀ e ∈ buildTable d ts id, e.searches = none := by
  induction ts with
  | nil => intro id e he; simp [buildTable] at he
  | cons t ts ih =>
    intro id e he
    unfold buildTable at he
    split at he
    · simp only [List.mem_append] at he
      rcases he with he | he
      · exact entriesOfFiles_searches _ _ _ _ _ e he
      · exact ih _ e he
    · simp only [List.mem_cons] at he
      rcases he with rfl | he
      · rfl
      · exact ih _ e he
    · exact ih _ e he

theorem table0_strip (inp : RunIn) : (table0 inp).map TEntry.strip = table0 inp := by
  have : ∀ l : List TEntry, (∀ e ∈ l, e.searches = none) → l.map TEntry.strip = l := by
    intro l
    induction l with
    | nil => intro _; rfl
    | cons a l ih =>
      intro h
      rw [List.map_cons, strip_of_none (h a List.mem_cons_self), ih (fun e he => h e (List.mem_cons_of_mem _ he))]
  exact this _ (buildTable_searches _ _ _)

theorem populateSearches_strip (c : Cache) (obs : List (Nat × List Path)) (es : List TEntry) :
    (populateSearches c obs es).1.map TEntry.strip = es.map TEntry.strip := by
  induction es with
  | nil => simp [populateSearches]
  | cons e es ih =>
    unfold populateSearches
    rcases hrest : populateSearches c obs es with ⟨rest, okRest⟩
    rw [hrest] at ih
    simp only [] at ih ⊢
    split
    · simp only [List.map_cons, ih]
    split
    · simp only [List.map_cons, ih]
    split
    · split
      · simp only [List.map_cons, ih]; rfl
      · simp only [List.map_cons, ih]; rfl
    · simp only [List.map_cons, ih]; rfl

theorem lookupEntry_strip (table : List TEntry) (ih : Bytes) (idx : Nat) :
    lookupEntry (table.map TEntry.strip) ih idx = (lookupEntry table ih idx).map TEntry.strip := by
  unfold lookupEntry
  rw [List.find?_map]
  rfl

theorem mapM_option_rel {α β γ : Type} {f : α → Option β} {f' : α → Option γ} {g : β → γ}
    (h : ∀ a b, f a = some b → f' a = some (g b)) {l : List α} {r : List β} (hm : l.mapM f = some r) :
    l.mapM f' = some (r.map g) := by
  induction l generalizing r with
  | nil => simp at hm ⊢; subst hm; rfl
  | cons a l ih =>
    rw [List.mapM_cons] at hm ⊢
    cases ha : f a with
    | none => simp [ha] at hm
    | some b0 =>
      cases hl : l.mapM f with
      | none => simp [ha, hl] at hm
      | some bs =>
        simp [ha, hl] at hm
        subst hm
        rw [h a b0 ha, ih hl]
        rfl

theorem workOfPiece_strip {table : List TEntry} {t : Torrent} {p : Piece} {w : Work}
    (h : workOfPiece table t p = some w) : workOfPiece (table.map TEntry.strip) t p = some w.strip := by
  unfold workOfPiece at h ⊢
  split at h
  · rename_i segs hm
    cases h
    have := mapM_option_rel (f' := fun s => (lookupEntry (table.map TEntry.strip) t.infoHash s.file).map
        (fun e => (⟨s.len, s.off, e⟩ : WSeg))) (g := WSeg.strip) ?_ hm
    · rw [this]; rfl
    · intro a b hab
      rw [lookupEntry_strip]
      cases hl : lookupEntry table t.infoHash a.file with
      | none => rw [hl] at hab; cases hab
      | some e => rw [hl] at hab; cases hab; rfl
  · cases h

theorem workOfTorrent_strip {table : List TEntry} {t : Torrent} {ws : List Work}
    (h : workOfTorrent table t = some ws) :
    workOfTorrent (table.map TEntry.strip) t = some (ws.map Work.strip) := by
  unfold workOfTorrent at h ⊢
  split at h
  · cases h
  · rename_i ps hps
    exact mapM_option_rel (fun a b hab => workOfPiece_strip hab) h

theorem convert_strip {table : List TEntry} {ts : List Torrent} {ws : List Work}
    (h : convertPiecesToWork table ts = some ws) :
    convertPiecesToWork (table.map TEntry.strip) ts = some (ws.map Work.strip) := by
  induction ts generalizing ws with
  | nil => simp [convertPiecesToWork] at h ⊢; subst h; rfl
  | cons t ts ih =>
    unfold convertPiecesToWork at h ⊢
    split at h
    · rename_i a b ha hb
      cases h
      rw [workOfTorrent_strip ha, ih hb, List.map_append]
    · cases h

/-- the work list of a run is empty (the run ended before or in `convert_pieces_to_work`) or was built over a table
    that is `table0` with candidate lists filled in -/
theorem run_work_cases (H : Bytes → Bytes) (inp : RunIn) :
    (run H inp).work = [] ∨ ∃ c, convertPiecesToWork (populateSearches c inp.searchObs (table0 inp)).1
      (dedupTorrents (sortTorrents inp.torrents)) = some (run H inp).work := by
  unfold run
  simp only []
  split
  · left; rfl
  split
  · left; rfl
  · split
    · left; rfl
    · split
      · left; rfl
      · rename_i work hwork
        right
        exact ⟨_, hwork⟩

theorem run_work_strip (H : Bytes → Bytes) (inp : RunIn) :
    (run H inp).work = [] ∨ work0 inp = (run H inp).work.map Work.strip := by
  rcases run_work_cases H inp with h | ⟨c, h⟩
  · exact Or.inl h
  · right
    have := convert_strip h
    rw [populateSearches_strip, table0_strip] at this
    unfold work0
    rw [this]
    rfl

/-- every work item of a run is, up to candidate lists, a member of `work0` -/
theorem run_work_strip_mem (H : Bytes → Bytes) (inp : RunIn) : ∀ w ∈ (run H inp).work, w.strip ∈ work0 inp := by
  intro w hw
  rcases run_work_strip H inp with h | h
  · rw [h] at hw; cases hw
  · rw [h]; exact List.mem_map_of_mem hw

/-- every table entry of a run is, up to its candidate list, a member of `table0` -/
theorem run_table_strip (H : Bytes → Bytes) (inp : RunIn) : ∀ e ∈ (run H inp).table, e.strip ∈ table0 inp := by
  intro e he
  obtain ⟨e0, he0, s, rfl⟩ := (run_inv H inp).1 e he
  have hs : e0.searches = none := buildTable_searches _ _ _ e0 he0
  have : ({ e0 with searches := s } : TEntry).strip = e0 := by
    cases e0; simp only [TEntry.strip] at *; rw [hs]
  rw [this]
  exact he0

theorem segStart_strip (segs : List WSeg) (k : Nat) : segStart (segs.map WSeg.strip) k = segStart segs k := by
  unfold segStart
  rw [← List.map_take, List.map_map]
  rfl

/-- every operation of a run satisfies `RunJ.OpFact` with respect to the tree-independent table and work list -/
theorem run_opFact0 (H : Bytes → Bytes) (inp : RunIn) :
    ∀ o ∈ (run H inp).ops, RunJ.OpFact H (work0 inp) (table0 inp) o := by
  intro o ho
  obtain ⟨h1, h2⟩ := RunJ.run_opFact H inp o ho
  refine ⟨?_, ?_⟩
  · intro n hk
    obtain ⟨e, he, hp, hpath, hn⟩ := h1 n hk
    exact ⟨e.strip, run_table_strip H inp e he, hp, hpath, hn⟩
  · intro off d hk
    obtain ⟨w, hw, k, seg, buf, hseg, hp, hent, hpath, hoff, hH, hlen, hd⟩ := h2 off d hk
    refine ⟨w.strip, run_work_strip_mem H inp w hw, k, seg.strip, buf, ?_, hp, run_table_strip H inp _ hent, hpath,
      hoff, hH, ?_, ?_⟩
    · show (w.segs.map WSeg.strip)[k]? = some seg.strip
      rw [List.getElem?_map, hseg]; rfl
    · show segStart (w.segs.map WSeg.strip) k + seg.len ≤ buf.length
      rw [segStart_strip]; exact hlen
    · show d = (buf.drop (segStart (w.segs.map WSeg.strip) k)).take seg.len
      rw [segStart_strip]; exact hd

theorem work0_ent (inp : RunIn) : ∀ w ∈ work0 inp, ∀ seg ∈ w.segs, seg.ent ∈ table0 inp := by
  unfold work0
  cases h : convertPiecesToWork (table0 inp) (dedupTorrents (sortTorrents inp.torrents)) with
  | none => intro w hw; cases hw
  | some ws => exact convertPiecesToWork_ent h

theorem segBytesIn_strip (fs : Fs) (s : WSeg) : segBytesIn fs s.strip = segBytesIn fs s := rfl

theorem mapM_strip (fs : Fs) (segs : List WSeg) :
    (segs.map WSeg.strip).mapM (segBytesIn fs) = segs.mapM (segBytesIn fs) := by
  induction segs with
  | nil => rfl
  | cons a l ih => rw [List.map_cons, List.mapM_cons, List.mapM_cons, ih, segBytesIn_strip]

/-- whether a piece verifies does not depend on the candidate lists -/
theorem verE_strip (H : Bytes → Bytes) (fs : Fs) (w : Work) : VerE H fs w.strip ↔ VerE H fs w := by
  unfold VerE
  show (∃ parts, (w.segs.map WSeg.strip).mapM (segBytesIn fs) = some parts ∧ H parts.flatten = w.hash) ↔ _
  rw [mapM_strip]

/-- `segBytesIn` as a function of `WSeg.img` -/
def segBytesKey (fs : Fs) (k : Nat × Nat × Bool × Path) : Option Bytes :=
  if k.2.2.1 then some (List.replicate k.1 0)
  else match fs.look k.2.2.2 with
    | .file i => if k.2.1 + k.1 ≤ (fs.content i).length then some (fs.readAt i k.2.1 k.1) else none
    | _ => none

theorem segBytesIn_key (fs : Fs) (s : WSeg) : segBytesIn fs s = segBytesKey fs s.img := rfl

theorem mapM_key (fs : Fs) (segs : List WSeg) :
    segs.mapM (segBytesIn fs) = (segs.map WSeg.img).mapM (segBytesKey fs) := by
  induction segs with
  | nil => rfl
  | cons a l ih => rw [List.map_cons, List.mapM_cons, List.mapM_cons, ih, segBytesIn_key]

/-- whether a piece verifies depends on `Work.img` only -/
theorem verE_img (H : Bytes → Bytes) (fs : Fs) {w w' : Work} (h : w'.img = w.img) : VerE H fs w' ↔ VerE H fs w := by
  have h1 : w'.segs.map WSeg.img = w.segs.map WSeg.img := congrArg Prod.fst h
  have h2 : w'.hash = w.hash := congrArg Prod.snd h
  unfold VerE
  rw [mapM_key, mapM_key, h1, h2]

theorem img_strip (w : Work) : w.strip.img = w.img := by
  unfold Work.img Work.strip
  simp only [List.map_map]
  rfl

/-! ## Part D: one run, from any well-formed tree, along any list of its operations -/

/-- a verifying member `w` of `work0` keeps verifying along the replay, on ANY well-formed tree `fs` (not only the
    tree the run started from), of any list of operations of the run -/
theorem step_own (H : Bytes → Bytes) (inp : RunIn) (fs : Fs) (hwf : FsWF fs)
    (hna : RunJ.NoAl fs (table0 inp)) (hsame : RunJ.SameLen (table0 inp))
    (hdisj : RunK.Disj (work0 inp)) (hinj : RunK.HInj H (work0 inp))
    (w : Work) (hw : w ∈ work0 inp) (hrange : SegsInRange w) (hver : VerE H fs w)
    (ops : List Op) (hops : ∀ o ∈ ops, o ∈ (run H inp).ops) :
    VerE H (replay fs ops) w := by
  obtain ⟨ps, hps, hH⟩ := hver
  have h0 : RunK.MInv (table0 inp) w fs fs := by
    refine ⟨RunK.SInv.base hwf hna, ?_⟩
    intro seg _ _ i _ hlen
    exact ⟨hlen, fun _ _ _ => rfl⟩
  have := RunK.replay_ind (Q := RunK.MInv (table0 inp) w fs)
    (F := RunJ.OpFact H (work0 inp) (table0 inp))
    (fun fs' o hf h => RunK.MInv.step hsame hrange (work0_ent inp w hw) hdisj hinj hw hps hH o hf h)
    ops fs (fun o ho => run_opFact0 H inp o (hops o ho)) h0
  exact this.verE hwf ⟨ps, hps, hH⟩

/-- a verifying piece whose images are not images of `table0` keeps verifying -/
theorem step_foreign (H : Bytes → Bytes) (inp : RunIn) (fs : Fs) (hwf : FsWF fs)
    (hna : RunJ.NoAl fs (table0 inp)) (w : Work)
    (hforeign : ∀ s ∈ w.segs, s.ent.isPad = false → ∀ e ∈ table0 inp, e.isPad = false →
      e.fullTarget ≠ s.ent.fullTarget)
    (hver : VerE H fs w) (ops : List Op) (hops : ∀ o ∈ ops, o ∈ (run H inp).ops) :
    VerE H (replay fs ops) w := by
  have h0 : RunK.FInv (table0 inp) w fs fs := ⟨RunK.SInv.base hwf hna, fun _ _ _ _ _ => rfl⟩
  have := RunK.replay_ind (Q := RunK.FInv (table0 inp) w fs)
    (F := RunJ.OpFact H (work0 inp) (table0 inp))
    (fun fs' o hf h => RunK.FInv.step hforeign o hf h) ops fs
    (fun o ho => run_opFact0 H inp o (hops o ho)) h0
  exact this.verE hwf hver

end TB.RunR
