/-
  Helper lemmas for C08, part 1: bytes/digits, and the two leaf state machines
  (`decodeInt`, `decodeStr`): soundness and completeness against `encodeInt` / `encodeStr`.
-/
import TB.Model.Bencode
import TB.Spec.BencodeSpec
namespace TB

/-! ### bytes and digits -/

theorem isDigit_iff (b : UInt8) : isDigit b = true ↔ 48 ≤ b.toNat ∧ b.toNat ≤ 57 := by
  simp [isDigit, UInt8.le_iff_toNat_le]

theorem isNonZeroDigit_iff (b : UInt8) : isNonZeroDigit b = true ↔ 49 ≤ b.toNat ∧ b.toNat ≤ 57 := by
  simp [isNonZeroDigit, UInt8.le_iff_toNat_le]

theorem isDigit_of_nonZero {b : UInt8} (h : isNonZeroDigit b = true) : isDigit b = true := by
  rw [isNonZeroDigit_iff] at h; rw [isDigit_iff]; omega

theorem ofNat_digitVal {b : UInt8} (h : isDigit b = true) : UInt8.ofNat (48 + digitVal b) = b := by
  rw [isDigit_iff] at h
  apply UInt8.toNat_inj.mp
  simp [digitVal]
  omega

theorem digitVal_lt {b : UInt8} (h : isDigit b = true) : digitVal b < 10 := by
  rw [isDigit_iff] at h; simp [digitVal]; omega

theorem digitVal_pos {b : UInt8} (h : isNonZeroDigit b = true) : 0 < digitVal b := by
  rw [isNonZeroDigit_iff] at h; simp [digitVal]; omega

theorem toNat_ofNat_digit {d : Nat} (h : d < 10) : (UInt8.ofNat (48 + d)).toNat = 48 + d := by
  simp; omega

theorem isDigit_ofNat {d : Nat} (h : d < 10) : isDigit (UInt8.ofNat (48 + d)) = true := by
  rw [isDigit_iff, toNat_ofNat_digit h]; omega

theorem digitVal_ofNat {d : Nat} (h : d < 10) : digitVal (UInt8.ofNat (48 + d)) = d := by
  unfold digitVal; rw [toNat_ofNat_digit h]; omega

theorem isNonZeroDigit_ofNat {d : Nat} (h : d < 10) (h0 : 0 < d) :
    isNonZeroDigit (UInt8.ofNat (48 + d)) = true := by
  rw [isNonZeroDigit_iff, toNat_ofNat_digit h]; omega

theorem natDigits_lt {n : Nat} (h : n < 10) : natDigits n = [UInt8.ofNat (48 + n)] := by
  rw [natDigits]; simp [h]

theorem natDigits_ge {n : Nat} (h : ¬ n < 10) :
    natDigits n = natDigits (n / 10) ++ [UInt8.ofNat (48 + n % 10)] := by
  rw [natDigits]; simp [h]

theorem natDigits_step {a d : Nat} (ha : 0 < a) (hd : d < 10) :
    natDigits (a * 10 + d) = natDigits a ++ [UInt8.ofNat (48 + d)] := by
  have h1 : ¬ (a * 10 + d < 10) := by omega
  have h2 : (a * 10 + d) / 10 = a := by omega
  have h3 : (a * 10 + d) % 10 = d := by omega
  rw [natDigits_ge h1, h2, h3]

theorem natDigits_digitVal {b : UInt8} (h : isDigit b = true) : natDigits (digitVal b) = [b] := by
  rw [natDigits_lt (digitVal_lt h), ofNat_digitVal h]

theorem natDigits_length_pos (n : Nat) : 0 < (natDigits n).length := by
  by_cases h : n < 10
  · rw [natDigits_lt h]; simp
  · rw [natDigits_ge h]; simp

/-- the first byte of a decimal numeral is a digit -/
theorem natDigits_head (n : Nat) : ∃ b tl, natDigits n = b :: tl ∧ isDigit b = true := by
  induction n using Nat.strongRecOn with
  | _ n ih =>
    by_cases h : n < 10
    · exact ⟨_, [], natDigits_lt h, isDigit_ofNat h⟩
    · obtain ⟨b, tl, e, hb⟩ := ih (n / 10) (by omega)
      exact ⟨b, tl ++ [UInt8.ofNat (48 + n % 10)], by rw [natDigits_ge h, e]; rfl, hb⟩

/-! ### decode_string: soundness -/

theorem strChars_ok {n : Nat} {inp : Bytes} {pos : Nat} {s : Bytes} {c : Nat} {rest : Bytes}
    (h : strChars n inp pos = .ok (s, c, rest)) :
    inp = s ++ rest ∧ s.length = n ∧ c = pos + n := by
  unfold strChars at h
  split at h
  · simp at h
  · split at h
    · simp at h
    · simp only [Res.ok.injEq, Prod.mk.injEq] at h
      obtain ⟨rfl, rfl, rfl⟩ := h
      refine ⟨(List.take_append_drop _ _).symm, ?_, rfl⟩
      rw [List.length_take]; omega

theorem strDigits_ok : ∀ (inp : Bytes) (n pos : Nat) (s : Bytes) (c : Nat) (rest : Bytes),
    strDigits inp n pos = .ok (s, c, rest) → 0 < n → n ≤ usizeMax →
    ∃ digs, inp = digs ++ 58 :: (s ++ rest) ∧ natDigits s.length = natDigits n ++ digs
      ∧ c = pos + digs.length + 1 + s.length ∧ s.length ≤ usizeMax := by
  intro inp
  induction inp with
  | nil => intro n pos s c rest h; simp [strDigits] at h
  | cons b tl ih =>
    intro n pos s c rest h hn hmax
    unfold strDigits at h
    split at h
    · rename_i hb
      simp only at h
      split at h
      · simp at h
      · split at h
        · simp at h
        · rename_i h1 h2
          obtain ⟨digs, e1, e2, e3, e4⟩ := ih _ _ _ _ _ h (by omega) (by omega)
          refine ⟨b :: digs, by rw [e1]; rfl, ?_, by simp; omega, e4⟩
          rw [e2, natDigits_step hn (digitVal_lt hb), ofNat_digitVal hb]; simp
    · split at h
      · rename_i hb
        have hb' : b = 58 := by simpa using hb
        obtain ⟨e1, e2, e3⟩ := strChars_ok h
        refine ⟨[], by rw [e1, hb']; rfl, by simp [e2], by simp; omega, by omega⟩
      · simp at h

theorem strSep_ok {inp : Bytes} {pos : Nat} {s : Bytes} {c : Nat} {rest : Bytes}
    (h : strSep inp pos = .ok (s, c, rest)) : inp = 58 :: rest ∧ s = [] ∧ c = pos + 1 := by
  cases inp with
  | nil => simp [strSep] at h
  | cons b tl =>
    simp only [strSep] at h
    split at h
    · rename_i hb
      have hb' : b = 58 := by simpa using hb
      simp only [Res.ok.injEq, Prod.mk.injEq] at h
      obtain ⟨rfl, rfl, rfl⟩ := h
      simp [hb']
    · simp at h

theorem decodeStr_ok {inp : Bytes} {pos : Nat} {s : Bytes} {c : Nat} {rest : Bytes}
    (h : decodeStr inp pos = .ok (s, c, rest)) :
    inp = encodeStr s ++ rest ∧ c = pos + (encodeStr s).length ∧ s.length ≤ usizeMax := by
  cases inp with
  | nil => simp [decodeStr] at h
  | cons b tl =>
    simp only [decodeStr] at h
    split at h
    · rename_i hb
      have hb' : b = 48 := by simpa using hb
      obtain ⟨rfl, rfl, rfl⟩ := strSep_ok h
      subst hb'
      simp [encodeStr, natDigits_lt, usizeMax]
    · split at h
      · rename_i hb
        have hd := isDigit_of_nonZero hb
        have hv : digitVal b ≤ usizeMax := by have := digitVal_lt hd; simp [usizeMax]; omega
        obtain ⟨digs, e1, e2, e3, e4⟩ := strDigits_ok _ _ _ _ _ _ h (digitVal_pos hb) hv
        rw [natDigits_digitVal hd] at e2
        refine ⟨?_, ?_, e4⟩
        · simp [encodeStr, e2, e1]
        · simp [encodeStr, e2, e3]; omega
      · simp at h


/-! ### decode_string: completeness -/

theorem strDigits_digit {b : UInt8} (hb : isDigit b = true) (tl : Bytes) (n pos : Nat)
    (h : n * 10 + digitVal b ≤ usizeMax) :
    strDigits (b :: tl) n pos = strDigits tl (n * 10 + digitVal b) (pos + 1) := by
  have h1 : ¬ (n * 10 > usizeMax) := by omega
  have h2 : ¬ (n * 10 + digitVal b > usizeMax) := by omega
  simp only [strDigits, hb, if_true, h1, h2, if_false]

/-- reading the decimal numeral of `n > 0` from the start state reaches `strDigits` with accumulator `n` -/
theorem decodeStr_natDigits (n : Nat) : 0 < n → n ≤ usizeMax → ∀ (tl : Bytes) (pos : Nat),
    decodeStr (natDigits n ++ tl) pos = strDigits tl n (pos + (natDigits n).length) := by
  induction n using Nat.strongRecOn with
  | _ n ih =>
    intro hn hmax tl pos
    by_cases h : n < 10
    · have hnz := isNonZeroDigit_ofNat h hn
      have h48 : ¬ (UInt8.ofNat (48 + n) == 48) = true := by
        intro he
        have := congrArg UInt8.toNat (eq_of_beq he)
        rw [toNat_ofNat_digit h] at this
        simp at this; omega
      rw [natDigits_lt h]
      simp only [List.cons_append, List.nil_append, decodeStr, h48, hnz, if_true, if_false,
        digitVal_ofNat h, List.length_singleton, Bool.false_eq_true]
    · have hd : n % 10 < 10 := by omega
      rw [natDigits_ge h, List.append_assoc, ih (n / 10) (by omega) (by omega) (by omega)]
      simp only [List.cons_append, List.nil_append]
      rw [strDigits_digit (isDigit_ofNat hd) _ _ _ (by rw [digitVal_ofNat hd]; omega),
        digitVal_ofNat hd]
      have : n / 10 * 10 + n % 10 = n := by omega
      rw [this]; simp [Nat.add_assoc]

theorem decodeStr_complete (s rest : Bytes) (pos : Nat) (hs : s.length ≤ usizeMax) :
    decodeStr (encodeStr s ++ rest) pos = .ok (s, pos + (encodeStr s).length, rest) := by
  cases s with
  | nil => simp [encodeStr, natDigits_lt, decodeStr, strSep]
  | cons a s' =>
    have hn : 0 < (a :: s').length := by simp
    simp only [encodeStr, List.append_assoc]
    rw [decodeStr_natDigits _ hn hs]
    simp only [List.cons_append, List.nil_append, strDigits]
    have h58 : isDigit 58 = false := by decide
    simp [h58, strChars]
    rw [if_neg (by omega)]
    simp only [Res.ok.injEq, Prod.mk.injEq, and_true, true_and]
    omega

/-! ### decode_integer: soundness -/

theorem two127 : (2:Int)^127 = 170141183460469231731687303715884105728 := by decide

theorem inI128_iff (v : Int) : inI128 v = true ↔
    -170141183460469231731687303715884105728 ≤ v ∧ v ≤ 170141183460469231731687303715884105727 := by
  unfold inI128 i128Min i128Max
  rw [Bool.and_eq_true, decide_eq_true_iff, decide_eq_true_iff, two127]
  constructor <;> intro h <;> omega

theorem inI128_false_iff (v : Int) : inI128 v = false ↔ ¬ inI128 v = true := by simp

theorem intDigits_digit (neg : Bool) {b : UInt8} (hb : isDigit b = true) (tl : Bytes) (acc : Int) (pos : Nat)
    (h1 : inI128 (acc * 10) = true)
    (h2 : inI128 (if neg = true then acc * 10 - (digitVal b : Int) else acc * 10 + (digitVal b : Int)) = true) :
    intDigits neg (b :: tl) acc pos
      = intDigits neg tl (if neg = true then acc * 10 - (digitVal b : Int) else acc * 10 + (digitVal b : Int)) (pos + 1) := by
  simp only [intDigits, hb, if_true, h1, h2, Bool.not_true, Bool.false_eq_true, if_false]

theorem intDigits_digit_ok (neg : Bool) {b : UInt8} (hb : isDigit b = true) {tl : Bytes} {acc : Int} {pos : Nat}
    {r : Int × Nat × Bytes} (h : intDigits neg (b :: tl) acc pos = .ok r) :
    inI128 (if neg = true then acc * 10 - (digitVal b : Int) else acc * 10 + (digitVal b : Int)) = true ∧
    intDigits neg tl (if neg = true then acc * 10 - (digitVal b : Int) else acc * 10 + (digitVal b : Int)) (pos + 1) = .ok r := by
  by_cases h1 : inI128 (acc * 10) = true
  · by_cases h2 : inI128 (if neg = true then acc * 10 - (digitVal b : Int) else acc * 10 + (digitVal b : Int)) = true
    · rw [intDigits_digit neg hb tl acc pos h1 h2] at h
      exact ⟨h2, h⟩
    · simp only [intDigits, hb, if_true, h1, h2, Bool.not_true, Bool.not_false, Bool.false_eq_true, if_false] at h
      simp at h
  · simp only [intDigits, hb, if_true, h1, Bool.not_false] at h
    simp at h

theorem intDigits_ok (neg : Bool) : ∀ (inp : Bytes) (acc : Int) (pos : Nat) (v : Int) (c : Nat) (rest : Bytes),
    intDigits neg inp acc pos = .ok (v, c, rest) →
    (if neg = true then acc < 0 else 0 < acc) → inI128 acc = true →
    ∃ digs, inp = digs ++ 101 :: rest ∧ natDigits v.natAbs = natDigits acc.natAbs ++ digs
      ∧ c = pos + digs.length + 1 ∧ inI128 v = true ∧ (if neg = true then v < 0 else 0 < v) := by
  intro inp
  induction inp with
  | nil => intro acc pos v c rest h; simp [intDigits] at h
  | cons b tl ih =>
    intro acc pos v c rest h hs hr
    by_cases hb : isDigit b = true
    · obtain ⟨h2, h⟩ := intDigits_digit_ok neg hb h
      have hd := digitVal_lt hb
      have hs' : (if neg = true then
          (if neg = true then acc * 10 - (digitVal b : Int) else acc * 10 + (digitVal b : Int)) < 0
          else 0 < (if neg = true then acc * 10 - (digitVal b : Int) else acc * 10 + (digitVal b : Int))) := by
        cases neg <;> simp at hs ⊢ <;> omega
      obtain ⟨digs, e1, e2, e3, e4, e5⟩ := ih _ _ _ _ _ h hs' h2
      refine ⟨b :: digs, by rw [e1]; rfl, ?_, by simp; omega, e4, e5⟩
      rw [e2]
      have hab : (if neg = true then acc * 10 - (digitVal b : Int) else acc * 10 + (digitVal b : Int)).natAbs
          = acc.natAbs * 10 + digitVal b := by
        cases neg <;> simp at hs ⊢ <;> omega
      have hpos : 0 < acc.natAbs := by cases neg <;> simp at hs <;> omega
      rw [hab, natDigits_step hpos hd, ofNat_digitVal hb]; simp
    · simp only [intDigits, hb, Bool.false_eq_true, if_false] at h
      split at h
      · rename_i hb1
        have hb' : b = 101 := by simpa using hb1
        simp only [Res.ok.injEq, Prod.mk.injEq] at h
        obtain ⟨rfl, rfl, rfl⟩ := h
        exact ⟨[], by simp [hb'], by simp, by simp, hr, hs⟩
      · simp at h

theorem encodeInt_pos {v : Int} (h : 0 < v) : encodeInt v = 105 :: (natDigits v.natAbs ++ [101]) := by
  have : ¬ v < 0 := by omega
  simp [encodeInt, this]

theorem encodeInt_neg {v : Int} (h : v < 0) : encodeInt v = 105 :: 45 :: (natDigits v.natAbs ++ [101]) := by
  simp [encodeInt, h]

theorem encodeInt_zero : encodeInt 0 = [105, 48, 101] := by
  simp [encodeInt, natDigits_lt]

theorem intStop_ok {v0 : Int} {inp : Bytes} {pos : Nat} {v : Int} {c : Nat} {rest : Bytes}
    (h : intStop v0 inp pos = .ok (v, c, rest)) : inp = 101 :: rest ∧ v = v0 ∧ c = pos + 1 := by
  cases inp with
  | nil => simp [intStop] at h
  | cons b tl =>
    simp only [intStop] at h
    split at h
    · rename_i hb
      have hb' : b = 101 := by simpa using hb
      simp only [Res.ok.injEq, Prod.mk.injEq] at h
      obtain ⟨rfl, rfl, rfl⟩ := h
      simp [hb']
    · simp at h

theorem intNonZero_ok {inp : Bytes} {pos : Nat} {v : Int} {c : Nat} {rest : Bytes}
    (h : intNonZero inp pos = .ok (v, c, rest)) :
    v < 0 ∧ inp = natDigits v.natAbs ++ 101 :: rest ∧ c = pos + (natDigits v.natAbs).length + 1
      ∧ inI128 v = true := by
  cases inp with
  | nil => simp [intNonZero] at h
  | cons b tl =>
    simp only [intNonZero] at h
    split at h
    · rename_i hb
      have hd := isDigit_of_nonZero hb
      have h1 := digitVal_lt hd
      have h2 := digitVal_pos hb
      obtain ⟨digs, e1, e2, e3, e4, e5⟩ := intDigits_ok true _ _ _ _ _ _ h (by simp; omega)
        (by rw [inI128_iff]; omega)
      have : (-(digitVal b : Int)).natAbs = digitVal b := by omega
      rw [this, natDigits_digitVal hd] at e2
      simp only [if_true] at e5
      refine ⟨e5, by rw [e2, e1]; rfl, by rw [e2, e3]; simp; omega, e4⟩
    · simp at h

theorem intFirst_ok {inp : Bytes} {pos : Nat} {v : Int} {c : Nat} {rest : Bytes}
    (h : intFirst inp pos = .ok (v, c, rest)) :
    105 :: inp = encodeInt v ++ rest ∧ c + 1 = pos + (encodeInt v).length ∧ inI128 v = true := by
  cases inp with
  | nil => simp [intFirst] at h
  | cons b tl =>
    simp only [intFirst] at h
    split at h
    · rename_i hb
      have hd := isDigit_of_nonZero hb
      have h1 := digitVal_lt hd
      have h2 := digitVal_pos hb
      obtain ⟨digs, e1, e2, e3, e4, e5⟩ := intDigits_ok false _ _ _ _ _ _ h (by simp; omega)
        (by rw [inI128_iff]; omega)
      have : ((digitVal b : Nat) : Int).natAbs = digitVal b := by omega
      rw [this, natDigits_digitVal hd] at e2
      simp only [Bool.false_eq_true, if_false] at e5
      rw [encodeInt_pos e5, e2, e1, e3]
      refine ⟨by simp, by simp; omega, e4⟩
    · split at h
      · rename_i hb
        have hb' : b = 48 := by simpa using hb
        obtain ⟨rfl, rfl, rfl⟩ := intStop_ok h
        rw [encodeInt_zero, hb']
        refine ⟨rfl, by simp, by decide⟩
      · split at h
        · rename_i hb
          have hb' : b = 45 := by simpa using hb
          obtain ⟨e1, e2, e3, e4⟩ := intNonZero_ok h
          rw [encodeInt_neg e1, e2, e3, hb']
          refine ⟨by simp, by simp; omega, e4⟩
        · simp at h

theorem decodeInt_ok {inp : Bytes} {pos : Nat} {v : Int} {c : Nat} {rest : Bytes}
    (h : decodeInt inp pos = .ok (v, c, rest)) :
    inp = encodeInt v ++ rest ∧ c = pos + (encodeInt v).length ∧ inI128 v = true := by
  cases inp with
  | nil => simp [decodeInt] at h
  | cons b tl =>
    simp only [decodeInt] at h
    split at h
    · rename_i hb
      have hb' : b = 105 := by simpa using hb
      obtain ⟨e1, e2, e3⟩ := intFirst_ok h
      exact ⟨by rw [hb', e1], by omega, e3⟩
    · simp at h

/-! ### decode_integer: completeness -/

theorem intFirst_natDigits (w : Nat) : 0 < w → inI128 (w : Int) = true → ∀ (tl : Bytes) (pos : Nat),
    intFirst (natDigits w ++ tl) pos = intDigits false tl (w : Int) (pos + (natDigits w).length) := by
  induction w using Nat.strongRecOn with
  | _ w ih =>
    intro hw hr tl pos
    by_cases h : w < 10
    · have hnz := isNonZeroDigit_ofNat h hw
      rw [natDigits_lt h]
      simp only [List.cons_append, List.nil_append, intFirst, hnz, if_true, digitVal_ofNat h,
        List.length_singleton]
    · have hd : w % 10 < 10 := by omega
      rw [inI128_iff] at hr
      rw [natDigits_ge h, List.append_assoc, ih (w / 10) (by omega) (by omega) (by rw [inI128_iff]; omega)]
      simp only [List.cons_append, List.nil_append]
      rw [intDigits_digit false (isDigit_ofNat hd) _ _ _ (by rw [inI128_iff]; omega)
        (by rw [inI128_iff, digitVal_ofNat hd]; simp; omega), digitVal_ofNat hd]
      have : ((w / 10 : Nat) : Int) * 10 + ((w % 10 : Nat) : Int) = (w : Int) := by omega
      simp only [Bool.false_eq_true, if_false, this]
      simp [Nat.add_assoc]

theorem intNonZero_natDigits (w : Nat) : 0 < w → inI128 (-(w : Int)) = true → ∀ (tl : Bytes) (pos : Nat),
    intNonZero (natDigits w ++ tl) pos = intDigits true tl (-(w : Int)) (pos + (natDigits w).length) := by
  induction w using Nat.strongRecOn with
  | _ w ih =>
    intro hw hr tl pos
    by_cases h : w < 10
    · have hnz := isNonZeroDigit_ofNat h hw
      rw [natDigits_lt h]
      simp only [List.cons_append, List.nil_append, intNonZero, hnz, if_true, digitVal_ofNat h,
        List.length_singleton]
    · have hd : w % 10 < 10 := by omega
      rw [inI128_iff] at hr
      rw [natDigits_ge h, List.append_assoc, ih (w / 10) (by omega) (by omega) (by rw [inI128_iff]; omega)]
      simp only [List.cons_append, List.nil_append]
      rw [intDigits_digit true (isDigit_ofNat hd) _ _ _ (by rw [inI128_iff]; omega)
        (by rw [inI128_iff, digitVal_ofNat hd]; simp; omega), digitVal_ofNat hd]
      have : -((w / 10 : Nat) : Int) * 10 - ((w % 10 : Nat) : Int) = -(w : Int) := by omega
      simp only [if_true, this]
      simp [Nat.add_assoc]

theorem intDigits_e (neg : Bool) (v : Int) (rest : Bytes) (pos : Nat) :
    intDigits neg (101 :: rest) v pos = .ok (v, pos + 1, rest) := by
  have h : isDigit 101 = false := by decide
  simp [intDigits, h]

theorem decodeInt_complete (v : Int) (rest : Bytes) (pos : Nat) (hv : inI128 v = true) :
    decodeInt (encodeInt v ++ rest) pos = .ok (v, pos + (encodeInt v).length, rest) := by
  by_cases h0 : v = 0
  · subst h0; simp [encodeInt, natDigits_lt, decodeInt, intFirst, intStop, isNonZeroDigit]
  · by_cases hneg : v < 0
    · have e : v = -((v.natAbs : Nat) : Int) := by omega
      have hr : inI128 (-((v.natAbs : Nat) : Int)) = true := by rw [← e]; exact hv
      have h45 : isNonZeroDigit 45 = false := by decide
      simp only [encodeInt, hneg, if_true, List.append_assoc, List.cons_append, List.nil_append, decodeInt,
        beq_self_eq_true, intFirst, h45, Bool.false_eq_true, if_false]
      have h4548 : ((45 : UInt8) == 48) = false := by decide
      simp only [h4548, Bool.false_eq_true, if_false]
      rw [intNonZero_natDigits _ (by omega) hr, intDigits_e, ← e]
      simp; omega
    · have e : v = ((v.natAbs : Nat) : Int) := by omega
      have hr : inI128 ((v.natAbs : Nat) : Int) = true := by rw [← e]; exact hv
      simp only [encodeInt, hneg, if_false, List.append_assoc, List.cons_append, List.nil_append, decodeInt,
        beq_self_eq_true, if_true]
      rw [intFirst_natDigits _ (by omega) hr, intDigits_e, ← e]
      simp; omega

/-! ### the leaf state machines never panic -/

theorem intDigits_no_panic (neg : Bool) : ∀ (inp : Bytes) (acc : Int) (pos : Nat),
    intDigits neg inp acc pos ≠ .panic := by
  intro inp
  induction inp with
  | nil => intro acc pos; simp [intDigits]
  | cons b tl ih =>
    intro acc pos
    by_cases hb : isDigit b = true
    · by_cases h1 : inI128 (acc * 10) = true
      · by_cases h2 : inI128 (if neg = true then acc * 10 - (digitVal b : Int) else acc * 10 + (digitVal b : Int)) = true
        · rw [intDigits_digit neg hb tl acc pos h1 h2]; exact ih _ _
        · simp only [intDigits, hb, if_true, h1, h2, Bool.not_true, Bool.not_false, Bool.false_eq_true, if_false]
          simp
      · simp only [intDigits, hb, if_true, h1, Bool.not_false]
        simp
    · simp only [intDigits, hb, Bool.false_eq_true, if_false]
      split <;> simp

theorem decodeInt_no_panic (inp : Bytes) (pos : Nat) : decodeInt inp pos ≠ .panic := by
  cases inp with
  | nil => simp [decodeInt]
  | cons b tl =>
    simp only [decodeInt]
    split
    · cases tl with
      | nil => simp [intFirst]
      | cons b2 tl2 =>
        simp only [intFirst]
        split
        · exact intDigits_no_panic _ _ _ _
        · split
          · cases tl2 with
            | nil => simp [intStop]
            | cons b3 tl3 => simp only [intStop]; split <;> simp
          · split
            · cases tl2 with
              | nil => simp [intNonZero]
              | cons b3 tl3 =>
                simp only [intNonZero]
                split
                · exact intDigits_no_panic _ _ _ _
                · simp
            · simp
    · simp

theorem strDigits_no_panic : ∀ (inp : Bytes) (n pos : Nat), strDigits inp n pos ≠ .panic := by
  intro inp
  induction inp with
  | nil => intro n pos; simp [strDigits]
  | cons b tl ih =>
    intro n pos
    unfold strDigits
    split
    · simp only
      split
      · simp
      · split
        · simp
        · exact ih _ _
    · split
      · unfold strChars
        split
        · simp
        · split <;> simp
      · simp

theorem decodeStr_no_panic (inp : Bytes) (pos : Nat) : decodeStr inp pos ≠ .panic := by
  cases inp with
  | nil => simp [decodeStr]
  | cons b tl =>
    simp only [decodeStr]
    split
    · cases tl with
      | nil => simp [strSep]
      | cons b2 tl2 => simp only [strSep]; split <;> simp
    · split
      · exact strDigits_no_panic _ _ _
      · simp

theorem decodeStrTok_no_panic (inp : Bytes) (pos : Nat) : decodeStrTok inp pos ≠ .panic := by
  unfold decodeStrTok
  have := decodeStr_no_panic inp pos
  split <;> simp_all

end TB
