/-
  Helper lemmas (RunS): the scan list enters a run only through the SET of paths it covers.
    * `pathLt` and the comparison of `canonicalSearches` are strict total orders; a strictly sorted list is
      determined by its members (`sortBy_ext`);
    * the cache as a relation (`CHas`, `CMem`), a sequence of insertions (`insAll`, `lastIno`), the scan
      directories as one such sequence (`scanTriples`);
    * `populateSearches` depends on the cache only through `CHas`/`CMem` (`populate_congr`);
    * without fault points every stage of a run is oblivious of the log it appends to (`Obl`).
-/
import TB.Spec.ExportSpec
import TB.Lemmas.RunB
import TB.Lemmas.RunC
import TB.Lemmas.RunG
import TB.Lemmas.RunDSim
import TB.Lemmas.RunDReplay
import TB.Lemmas.RunARun
namespace TB.RunS
open TB.RB TB.RC TB.RunG TB.RD

/-! ### `pathLt` is a strict total order -/

theorem pathLt_irrefl (a : Path) : pathLt a a = false := by
  induction a with
  | nil => rfl
  | cons x xs ih => simp [pathLt, ih, bytesLt_irrefl]

theorem pathLt_cons (a b : Bytes) (as bs : Path) :
    pathLt (a :: as) (b :: bs) = true ↔ bytesLt a b = true ∨ (a = b ∧ pathLt as bs = true) := by
  simp only [pathLt]
  by_cases h1 : bytesLt a b = true
  · simp [h1]
  · by_cases h2 : a = b
    · simp [h2, bytesLt_irrefl]
    · simp [h1, h2]

theorem pathLt_trans {a b c : Path} (h1 : pathLt a b = true) (h2 : pathLt b c = true) : pathLt a c = true := by
  induction a generalizing b c with
  | nil =>
    cases c with
    | nil => cases b <;> simp [pathLt] at h1 h2
    | cons z zs => rfl
  | cons x xs ih =>
    cases b with
    | nil => simp [pathLt] at h1
    | cons y ys =>
      cases c with
      | nil => simp [pathLt] at h2
      | cons z zs =>
        rw [pathLt_cons] at h1 h2 ⊢
        rcases h1 with h1 | ⟨rfl, h1⟩
        · rcases h2 with h2 | ⟨rfl, h2⟩
          · exact .inl (bytesLt_trans h1 h2)
          · exact .inl h1
        · rcases h2 with h2 | ⟨rfl, h2⟩
          · exact .inl h2
          · exact .inr ⟨rfl, ih h1 h2⟩

theorem pathLt_asymm {a b : Path} (h : pathLt a b = true) : pathLt b a = false := by
  cases h' : pathLt b a
  · rfl
  · have := pathLt_trans h h'
    rw [pathLt_irrefl] at this; cases this

theorem pathLt_total {a b : Path} (h1 : pathLt a b = false) (h2 : pathLt b a = false) : a = b := by
  induction a generalizing b with
  | nil =>
    cases b with
    | nil => rfl
    | cons y ys => simp [pathLt] at h1
  | cons x xs ih =>
    cases b with
    | nil => simp [pathLt] at h2
    | cons y ys =>
      have n1 : ¬ (pathLt (x :: xs) (y :: ys) = true) := by rw [h1]; simp
      have n2 : ¬ (pathLt (y :: ys) (x :: xs) = true) := by rw [h2]; simp
      rw [pathLt_cons] at n1 n2
      have hxy : x = y := by
        apply bytesLt_total
        · cases h : bytesLt x y
          · rfl
          · exact absurd (.inl h) n1
        · cases h : bytesLt y x
          · rfl
          · exact absurd (.inl h) n2
      subst hxy
      have e1 : pathLt xs ys = false := by
        cases h : pathLt xs ys
        · rfl
        · exact absurd (.inr ⟨rfl, h⟩) n1
      have e2 : pathLt ys xs = false := by
        cases h : pathLt ys xs
        · rfl
        · exact absurd (.inr ⟨rfl, h⟩) n2
      rw [ih e1 e2]

/-! ### the comparison of `canonicalSearches` -/

/-- order by (key, path) for an arbitrary numeric key: the comparison `canonicalSearches` sorts with -/
def keyLt (sim : Path → Nat) (p q : Path) : Bool := sim p < sim q || (sim p == sim q && pathLt p q)

theorem keyLt_iff (sim : Path → Nat) (p q : Path) :
    keyLt sim p q = true ↔ sim p < sim q ∨ (sim p = sim q ∧ pathLt p q = true) := by
  simp [keyLt]

theorem keyLt_irrefl (sim : Path → Nat) (p : Path) : keyLt sim p p = false := by
  cases h : keyLt sim p p
  · rfl
  · rw [keyLt_iff, pathLt_irrefl] at h
    rcases h with h | ⟨_, h⟩
    · omega
    · cases h

theorem keyLt_trans (sim : Path → Nat) {p q r : Path} (h1 : keyLt sim p q = true) (h2 : keyLt sim q r = true) :
    keyLt sim p r = true := by
  rw [keyLt_iff] at h1 h2 ⊢
  rcases h1 with h1 | ⟨e1, h1⟩
  · rcases h2 with h2 | ⟨e2, h2⟩
    · exact .inl (by omega)
    · exact .inl (by omega)
  · rcases h2 with h2 | ⟨e2, h2⟩
    · exact .inl (by omega)
    · exact .inr ⟨by omega, pathLt_trans h1 h2⟩

theorem keyLt_total (sim : Path → Nat) {p q : Path} (hne : p ≠ q) : keyLt sim p q = true ∨ keyLt sim q p = true := by
  rw [keyLt_iff, keyLt_iff]
  by_cases h1 : sim p < sim q
  · exact .inl (.inl h1)
  · by_cases h2 : sim q < sim p
    · exact .inr (.inl h2)
    · have he : sim p = sim q := by omega
      cases h : pathLt p q
      · cases h' : pathLt q p
        · exact absurd (pathLt_total h h') hne
        · exact .inr (.inr ⟨he.symm, rfl⟩)
      · exact .inl (.inr ⟨he, rfl⟩)

/-! ### insertion sort: a strictly sorted list is determined by its members -/

theorem insertBy_sorted {α : Type} (lt : α → α → Bool)
    (htr : ∀ a b c, lt a b = true → lt b c = true → lt a c = true)
    (a : α) (l : List α) (hs : l.Pairwise (fun x y => lt x y = true))
    (htot : ∀ b ∈ l, lt a b = true ∨ lt b a = true) :
    (insertBy lt a l).Pairwise (fun x y => lt x y = true) := by
  induction l with
  | nil => simp [insertBy]
  | cons b bs ih =>
    rw [List.pairwise_cons] at hs
    unfold insertBy
    split
    · rename_i hab
      rw [List.pairwise_cons]
      refine ⟨?_, List.pairwise_cons.2 hs⟩
      intro x hx
      rcases List.mem_cons.1 hx with rfl | hx
      · exact hab
      · exact htr _ _ _ hab (hs.1 x hx)
    · rename_i hab
      have hba : lt b a = true := by
        rcases htot b List.mem_cons_self with h | h
        · exact absurd h hab
        · exact h
      rw [List.pairwise_cons]
      refine ⟨?_, ih hs.2 (fun x hx => htot x (List.mem_cons_of_mem _ hx))⟩
      intro x hx
      rcases (mem_insertBy lt a x bs).1 hx with rfl | hx
      · exact hba
      · exact hs.1 x hx

theorem sortBy_sorted {α : Type} (lt : α → α → Bool)
    (htr : ∀ a b c, lt a b = true → lt b c = true → lt a c = true)
    (l : List α) (htot : l.Pairwise (fun a b => lt a b = true ∨ lt b a = true)) :
    (sortBy lt l).Pairwise (fun x y => lt x y = true) := by
  induction l with
  | nil => simp [sortBy]
  | cons a as ih =>
    rw [List.pairwise_cons] at htot
    show (insertBy lt a (sortBy lt as)).Pairwise _
    apply insertBy_sorted lt htr a _ (ih htot.2)
    intro b hb
    exact htot.1 b ((mem_sortBy lt b as).1 hb)

theorem sorted_ext {α : Type} (lt : α → α → Bool) (hirr : ∀ a, lt a a = false)
    (htr : ∀ a b c, lt a b = true → lt b c = true → lt a c = true)
    (l1 l2 : List α)
    (h1 : l1.Pairwise (fun a b => lt a b = true)) (h2 : l2.Pairwise (fun a b => lt a b = true))
    (h : ∀ x, x ∈ l1 ↔ x ∈ l2) : l1 = l2 := by
  induction l1 generalizing l2 with
  | nil =>
    cases l2 with
    | nil => rfl
    | cons b l2 => exact absurd ((h b).2 List.mem_cons_self) (by simp)
  | cons a l1 ih =>
    cases l2 with
    | nil => exact absurd ((h a).1 List.mem_cons_self) (by simp)
    | cons b l2 =>
      rw [List.pairwise_cons] at h1 h2
      have hab : a = b := by
        rcases List.mem_cons.1 ((h a).1 List.mem_cons_self) with e | ha
        · exact e
        · rcases List.mem_cons.1 ((h b).2 List.mem_cons_self) with e | hb
          · exact e.symm
          · have x1 := h2.1 a ha
            have x2 := h1.1 b hb
            have := htr _ _ _ x1 x2
            rw [hirr] at this; cases this
      subst hab
      congr 1
      apply ih l2 h1.2 h2.2
      intro x
      constructor
      · intro hx
        rcases List.mem_cons.1 ((h x).1 (List.mem_cons_of_mem _ hx)) with e | hx2
        · subst e
          have := h1.1 x hx
          rw [hirr] at this; cases this
        · exact hx2
      · intro hx
        rcases List.mem_cons.1 ((h x).2 (List.mem_cons_of_mem _ hx)) with e | hx2
        · subst e
          have := h2.1 x hx
          rw [hirr] at this; cases this
        · exact hx2

/-- sorting two lists with the same members by a transitive irreflexive comparison that decides every pair of
    distinct positions gives the same list -/
theorem sortBy_ext {α : Type} (lt : α → α → Bool) (hirr : ∀ a, lt a a = false)
    (htr : ∀ a b c, lt a b = true → lt b c = true → lt a c = true)
    (l1 l2 : List α)
    (t1 : l1.Pairwise (fun a b => lt a b = true ∨ lt b a = true))
    (t2 : l2.Pairwise (fun a b => lt a b = true ∨ lt b a = true))
    (h : ∀ x, x ∈ l1 ↔ x ∈ l2) : sortBy lt l1 = sortBy lt l2 := by
  apply sorted_ext lt hirr htr _ _ (sortBy_sorted lt htr l1 t1) (sortBy_sorted lt htr l2 t2)
  intro x
  rw [mem_sortBy, mem_sortBy]
  exact h x

/-! ### the cache as a relation -/

/-- the cache has a candidate map for length `l` -/
def CHas (c : Cache) (l : Nat) : Prop := (cacheGet c l).isSome = true
/-- `(p, i)` is a member of the candidate map for length `l` -/
def CMem (c : Cache) (l : Nat) (p : Path) (i : Nat) : Prop := ∃ m, cacheGet c l = some m ∧ (p, i) ∈ m
/-- every candidate map binds a path at most once (true of every cache built by `cacheInsert` from `[]`) -/
def CacheWF (c : Cache) : Prop := ∀ l m, cacheGet c l = some m → (m.map (·.1)).Nodup

theorem CHas_insert (c : Cache) (l' : Nat) (p' : Path) (i' : Nat) (l : Nat) :
    CHas (cacheInsert c l' p' i') l ↔ l' = l ∨ CHas c l := by
  unfold CHas
  rw [cacheGet_insert]
  split
  · simp [*]
  · simp [*]

theorem CMem_insert (c : Cache) (l' : Nat) (p' : Path) (i' : Nat) (l : Nat) (p : Path) (i : Nat) :
    CMem (cacheInsert c l' p' i') l p i ↔
      (l' = l ∧ p = p' ∧ i = i') ∨ (¬ (l' = l ∧ p = p') ∧ CMem c l p i) := by
  unfold CMem
  rw [cacheGet_insert]
  split
  · rename_i hl
    subst hl
    simp only [Option.some.injEq, exists_eq_left', List.mem_cons, Prod.mk.injEq, List.mem_filter, bne_iff_ne, ne_eq,
      true_and]
    cases hc : cacheGet c l' with
    | none => simp
    | some m => simp; grind
  · rename_i hl
    simp [hl]

theorem CacheWF_nil : CacheWF [] := by
  intro l m h
  simp [cacheGet] at h

theorem nodup_filter_keys (m : List (Path × Nat)) (p : Path) (h : (m.map (·.1)).Nodup) :
    (((p, i) :: m.filter (fun e => e.1 != p)).map (·.1)).Nodup := by
  rw [List.map_cons, List.nodup_cons]
  constructor
  · simp
  · induction m with
    | nil => simp
    | cons a as ih =>
      rw [List.map_cons, List.nodup_cons] at h
      rw [List.filter_cons]
      split
      · rw [List.map_cons, List.nodup_cons]
        refine ⟨?_, ih h.2⟩
        intro hm
        apply h.1
        rw [List.mem_map] at hm ⊢
        obtain ⟨x, hx, hxe⟩ := hm
        exact ⟨x, (List.mem_filter.1 hx).1, hxe⟩
      · exact ih h.2

theorem CacheWF_insert {c : Cache} (h : CacheWF c) (l' : Nat) (p' : Path) (i' : Nat) :
    CacheWF (cacheInsert c l' p' i') := by
  intro l m hm
  rw [cacheGet_insert] at hm
  split at hm
  · rename_i hl
    subst hl
    cases hm
    cases hc : cacheGet c l' with
    | none => simp
    | some m0 => exact nodup_filter_keys m0 p' (h l' m0 hc)
  · exact h l m hm

/-! ### a sequence of insertions -/

/-- insert the triples (length, path, inode) one after the other -/
def insAll (c : Cache) (ins : List (Nat × Path × Nat)) : Cache :=
  ins.foldl (fun c t => cacheInsert c t.1 t.2.1 t.2.2) c

/-- the inode of the last triple with key `(l, p)` -/
def lastIno : List (Nat × Path × Nat) → Nat → Path → Option Nat
  | [], _, _ => none
  | t :: ts, l, p =>
    match lastIno ts l p with
    | some i => some i
    | none => if t.1 = l ∧ t.2.1 = p then some t.2.2 else none

theorem insAll_cons (c : Cache) (t : Nat × Path × Nat) (ts : List (Nat × Path × Nat)) :
    insAll c (t :: ts) = insAll (cacheInsert c t.1 t.2.1 t.2.2) ts := rfl

theorem insAll_append (c : Cache) (a b : List (Nat × Path × Nat)) :
    insAll c (a ++ b) = insAll (insAll c a) b := by
  unfold insAll; rw [List.foldl_append]

theorem CacheWF_insAll {c : Cache} (h : CacheWF c) (ins : List (Nat × Path × Nat)) : CacheWF (insAll c ins) := by
  induction ins generalizing c with
  | nil => exact h
  | cons t ts ih => rw [insAll_cons]; exact ih (CacheWF_insert h _ _ _)

theorem CHas_insAll (c : Cache) (ins : List (Nat × Path × Nat)) (l : Nat) :
    CHas (insAll c ins) l ↔ CHas c l ∨ ∃ t ∈ ins, t.1 = l := by
  induction ins generalizing c with
  | nil => simp [insAll]
  | cons t ts ih =>
    rw [insAll_cons, ih, CHas_insert]
    simp only [List.mem_cons, exists_eq_or_imp]
    constructor
    · rintro ((h | h) | h)
      · exact .inr (.inl h)
      · exact .inl h
      · exact .inr (.inr h)
    · rintro (h | h | h)
      · exact .inl (.inr h)
      · exact .inl (.inl h)
      · exact .inr h

theorem CMem_insAll (c : Cache) (ins : List (Nat × Path × Nat)) (l : Nat) (p : Path) (i : Nat) :
    CMem (insAll c ins) l p i ↔ lastIno ins l p = some i ∨ (lastIno ins l p = none ∧ CMem c l p i) := by
  induction ins generalizing c with
  | nil => simp [insAll, lastIno]
  | cons t ts ih =>
    rw [insAll_cons, ih, CMem_insert, lastIno]
    cases h : lastIno ts l p with
    | some j => simp
    | none =>
      simp only [reduceCtorEq, true_and, false_or]
      by_cases hk : t.1 = l ∧ t.2.1 = p
      · rw [if_pos hk]
        obtain ⟨h1, h2⟩ := hk
        simp [h1, h2, eq_comm]
      · rw [if_neg hk]
        have hk' : ¬ (t.1 = l ∧ p = t.2.1) := fun h => hk ⟨h.1, h.2.symm⟩
        simp only [reduceCtorEq, false_or, true_and]
        constructor
        · rintro (h | h)
          · exact absurd ⟨h.1, h.2.1⟩ hk'
          · exact h.2
        · intro h
          exact .inr ⟨hk', h⟩

theorem lastIno_append (a b : List (Nat × Path × Nat)) (l : Nat) (p : Path) :
    lastIno (a ++ b) l p = match lastIno b l p with | some i => some i | none => lastIno a l p := by
  induction a with
  | nil =>
    simp only [List.nil_append, lastIno]
    cases lastIno b l p <;> rfl
  | cons t ts ih =>
    rw [List.cons_append, lastIno, ih]
    cases hb : lastIno b l p with
    | some i => rfl
    | none => simp only [lastIno]

/-- filtering by a predicate of the key keeps or drops all triples of a key together -/
theorem lastIno_filter (Q : Nat → Path → Bool) (ts : List (Nat × Path × Nat)) (l : Nat) (p : Path) :
    lastIno (ts.filter (fun t => Q t.1 t.2.1)) l p = if Q l p then lastIno ts l p else none := by
  induction ts with
  | nil => simp [lastIno]
  | cons t ts ih =>
    rw [List.filter_cons]
    by_cases hq : Q t.1 t.2.1 = true
    · rw [if_pos hq, lastIno, ih, lastIno]
      by_cases hQ : Q l p = true
      · simp only [hQ, if_true]
      · simp only [hQ, Bool.false_eq_true, if_false]
        rw [if_neg]
        rintro ⟨h1, h2⟩
        rw [h1, h2] at hq
        exact hQ hq
    · rw [if_neg hq, ih, lastIno]
      by_cases hQ : Q l p = true
      · simp only [hQ, if_true]
        cases lastIno ts l p with
        | some i => rfl
        | none =>
          simp only
          rw [if_neg]
          rintro ⟨h1, h2⟩
          rw [h1, h2] at hq
          exact hq hQ
      · simp only [hQ, Bool.false_eq_true, if_false]

/-! ### the scan directories as one sequence of insertions -/

/-- `dir` is a proper prefix of `p` (the test of `addByDirectory`) -/
def under (dir p : Path) : Bool := dir.length ≤ p.length && p.take dir.length == dir && p != dir

/-- every regular file as a triple (length of its content, name, inode) -/
def allTriples (fs : Fs) : List (Nat × Path × Nat) := fs.files.map (fun e => ((fs.content e.2).length, e.1, e.2))

/-- the triples one scan directory inserts -/
def dirTriples (fs : Fs) (dir : Path) (lengths : List Nat) : List (Nat × Path × Nat) :=
  (allTriples fs).filter (fun t => under dir t.2.1 && lengths.contains t.1)

/-- the triples a scan list inserts -/
def scanTriples (fs : Fs) (lengths : List Nat) (scan : List PathArg) : List (Nat × Path × Nat) :=
  scan.flatMap (fun d => dirTriples fs d.path lengths)

theorem addByDirectory_insAll (fs : Fs) (c : Cache) (dir : Path) (lengths : List Nat) :
    addByDirectory fs c dir lengths = insAll c (dirTriples fs dir lengths) := by
  unfold addByDirectory insAll dirTriples allTriples
  rw [List.filter_map, List.foldl_map, List.foldl_filter]
  rfl

theorem scan_insAll (fs : Fs) (lengths : List Nat) (scan : List PathArg) (c : Cache) :
    scan.foldl (fun c d => addByDirectory fs c d.path lengths) c = insAll c (scanTriples fs lengths scan) := by
  induction scan generalizing c with
  | nil => rfl
  | cons d ds ih =>
    rw [List.foldl_cons, ih, addByDirectory_insAll]
    unfold scanTriples
    rw [List.flatMap_cons, insAll_append]

/-- some directory of the list is a proper prefix of `p` -/
def covered (scan : List PathArg) (p : Path) : Bool := scan.any (fun d => under d.path p)

theorem lastIno_dir (fs : Fs) (dir : Path) (lengths : List Nat) (l : Nat) (p : Path) :
    lastIno (dirTriples fs dir lengths) l p =
      if under dir p && lengths.contains l then lastIno (allTriples fs) l p else none := by
  unfold dirTriples
  exact lastIno_filter (fun l p => under dir p && lengths.contains l) _ l p

theorem lastIno_scan (fs : Fs) (lengths : List Nat) (scan : List PathArg) (l : Nat) (p : Path) :
    lastIno (scanTriples fs lengths scan) l p =
      if covered scan p && lengths.contains l then lastIno (allTriples fs) l p else none := by
  induction scan with
  | nil => simp [scanTriples, covered, lastIno]
  | cons d ds ih =>
    unfold scanTriples at ih ⊢
    rw [List.flatMap_cons, lastIno_append, ih, lastIno_dir]
    unfold covered
    rw [List.any_cons]
    cases h1 : under d.path p <;> cases h2 : ds.any (fun d => under d.path p) <;>
      cases h3 : lengths.contains l <;> simp <;> cases lastIno (allTriples fs) l p <;> rfl

theorem mem_scanTriples (fs : Fs) (lengths : List Nat) (scan : List PathArg) (t : Nat × Path × Nat) :
    t ∈ scanTriples fs lengths scan ↔ t ∈ allTriples fs ∧ covered scan t.2.1 = true ∧ lengths.contains t.1 = true := by
  unfold scanTriples dirTriples covered
  simp only [List.mem_flatMap, List.mem_filter, Bool.and_eq_true, List.any_eq_true]
  constructor
  · rintro ⟨d, hd, ht, hu, hl⟩
    exact ⟨ht, ⟨d, hd, hu⟩, hl⟩
  · rintro ⟨ht, ⟨d, hd, hu⟩, hl⟩
    exact ⟨d, hd, ht, hu, hl⟩

/-- the cache a scan list builds on top of `c`, as a relation: it depends on the list only through `covered` -/
theorem CMem_scan (fs : Fs) (lengths : List Nat) (scan : List PathArg) (c : Cache) (l : Nat) (p : Path) (i : Nat) :
    CMem (scan.foldl (fun c d => addByDirectory fs c d.path lengths) c) l p i ↔
      ((covered scan p && lengths.contains l) = true ∧ lastIno (allTriples fs) l p = some i) ∨
      (((covered scan p && lengths.contains l) = false ∨ lastIno (allTriples fs) l p = none) ∧ CMem c l p i) := by
  rw [scan_insAll, CMem_insAll, lastIno_scan]
  cases h : (covered scan p && lengths.contains l)
  · simp
  · simp

theorem CHas_scan (fs : Fs) (lengths : List Nat) (scan : List PathArg) (c : Cache) (l : Nat) :
    CHas (scan.foldl (fun c d => addByDirectory fs c d.path lengths) c) l ↔
      CHas c l ∨ ∃ t ∈ allTriples fs, covered scan t.2.1 = true ∧ lengths.contains t.1 = true ∧ t.1 = l := by
  rw [scan_insAll, CHas_insAll]
  simp only [mem_scanTriples]
  constructor
  · rintro (h | ⟨t, ⟨h1, h2, h3⟩, h4⟩)
    · exact .inl h
    · exact .inr ⟨t, h1, h2, h3, h4⟩
  · rintro (h | ⟨t, h1, h2, h3, h4⟩)
    · exact .inl h
    · exact .inr ⟨t, ⟨h1, h2, h3⟩, h4⟩

theorem CacheWF_scan (fs : Fs) (lengths : List Nat) (scan : List PathArg) {c : Cache} (h : CacheWF c) :
    CacheWF (scan.foldl (fun c d => addByDirectory fs c d.path lengths) c) := by
  rw [scan_insAll]; exact CacheWF_insAll h _

/-- two scan lists that cover the same paths build the same cache (as a relation) on top of any cache -/
theorem scan_congr (fs : Fs) (lengths : List Nat) (scan scan' : List PathArg) (c : Cache)
    (hcov : ∀ p, covered scan p = covered scan' p) :
    (∀ l, CHas (scan.foldl (fun c d => addByDirectory fs c d.path lengths) c) l ↔
          CHas (scan'.foldl (fun c d => addByDirectory fs c d.path lengths) c) l) ∧
    (∀ l p i, CMem (scan.foldl (fun c d => addByDirectory fs c d.path lengths) c) l p i ↔
              CMem (scan'.foldl (fun c d => addByDirectory fs c d.path lengths) c) l p i) := by
  constructor
  · intro l
    rw [CHas_scan, CHas_scan]
    simp only [hcov]
  · intro l p i
    rw [CMem_scan, CMem_scan, hcov]

theorem lastIno_some_mem {ts : List (Nat × Path × Nat)} {l : Nat} {p : Path} {i : Nat}
    (h : lastIno ts l p = some i) : (l, p, i) ∈ ts := by
  induction ts with
  | nil => simp [lastIno] at h
  | cons t ts ih =>
    rw [lastIno] at h
    cases hl : lastIno ts l p with
    | some j =>
      rw [hl] at h
      simp only [Option.some.injEq] at h
      subst h
      exact List.mem_cons_of_mem _ (ih hl)
    | none =>
      rw [hl] at h
      simp only at h
      split at h
      · rename_i hk
        simp only [Option.some.injEq] at h
        obtain ⟨t1, t2, t3⟩ := t
        simp only at hk h
        obtain ⟨rfl, rfl⟩ := hk
        subst h
        exact List.mem_cons_self
      · cases h

/-- the version of `scan_congr` that compares the two lists only on the names of regular files -/
theorem scan_congr_files (fs : Fs) (lengths : List Nat) (scan scan' : List PathArg) (c : Cache)
    (hcov : ∀ e ∈ fs.files, covered scan e.1 = covered scan' e.1) :
    (∀ l, CHas (scan.foldl (fun c d => addByDirectory fs c d.path lengths) c) l ↔
          CHas (scan'.foldl (fun c d => addByDirectory fs c d.path lengths) c) l) ∧
    (∀ l p i, CMem (scan.foldl (fun c d => addByDirectory fs c d.path lengths) c) l p i ↔
              CMem (scan'.foldl (fun c d => addByDirectory fs c d.path lengths) c) l p i) := by
  have hcovT : ∀ t ∈ allTriples fs, covered scan t.2.1 = covered scan' t.2.1 := by
    intro t ht
    unfold allTriples at ht
    obtain ⟨e, he, rfl⟩ := List.mem_map.1 ht
    exact hcov e he
  constructor
  · intro l
    rw [CHas_scan, CHas_scan]
    constructor
    · rintro (h | ⟨t, h1, h2, h3⟩)
      · exact .inl h
      · exact .inr ⟨t, h1, by rw [← hcovT t h1]; exact h2, h3⟩
    · rintro (h | ⟨t, h1, h2, h3⟩)
      · exact .inl h
      · exact .inr ⟨t, h1, by rw [hcovT t h1]; exact h2, h3⟩
  · intro l p i
    rw [CMem_scan, CMem_scan]
    cases hl : lastIno (allTriples fs) l p with
    | none => simp
    | some j =>
      have := hcovT _ (lastIno_some_mem hl)
      simp only at this
      rw [this]

/-! ### `canonicalSearches`, `validSearches`, `populateSearches` see a candidate map as a set -/

theorem keys_pairwise_total (sim : Path → Nat) (m : List (Path × Nat)) (h : (m.map (·.1)).Nodup) :
    m.Pairwise (fun a b => keyLt sim a.1 b.1 = true ∨ keyLt sim b.1 a.1 = true) := by
  unfold List.Nodup at h
  rw [List.pairwise_map] at h
  exact h.imp (fun hne => keyLt_total sim hne)

/-- S2: the canonical candidate order depends only on the set of members of the candidate map (when every path
    is bound once in both) -/
theorem canonical_ext (e : TEntry) (m m' : List (Path × Nat))
    (hm : (m.map (·.1)).Nodup) (hm' : (m'.map (·.1)).Nodup) (h : ∀ x, x ∈ m ↔ x ∈ m') :
    canonicalSearches e m = canonicalSearches e m' := by
  unfold canonicalSearches
  simp only
  congr 1
  let sim := fun p => similarity p e.partialTarget e.fullTarget
  have hlt : (fun (a b : Path × Nat) => decide (sim a.1 < sim b.1) || (sim a.1 == sim b.1 && pathLt a.1 b.1))
      = fun a b => keyLt sim a.1 b.1 := rfl
  show sortBy (fun (a b : Path × Nat) => decide (sim a.1 < sim b.1) || (sim a.1 == sim b.1 && pathLt a.1 b.1)) m
     = sortBy (fun (a b : Path × Nat) => decide (sim a.1 < sim b.1) || (sim a.1 == sim b.1 && pathLt a.1 b.1)) m'
  rw [hlt]
  exact sortBy_ext (fun (a b : Path × Nat) => keyLt sim a.1 b.1) (fun a => keyLt_irrefl sim a.1) (fun a b c => keyLt_trans sim) m m'
    (keys_pairwise_total sim m hm) (keys_pairwise_total sim m' hm') h

theorem find_key_of_mem (m : List (Path × Nat)) (hm : (m.map (·.1)).Nodup) (p : Path) (i : Nat) (h : (p, i) ∈ m) :
    m.find? (fun x => x.1 == p) = some (p, i) := by
  induction m with
  | nil => cases h
  | cons a as ih =>
    rw [List.map_cons, List.nodup_cons] at hm
    rw [List.find?_cons]
    rcases List.mem_cons.1 h with rfl | h
    · simp
    · have hne : a.1 ≠ p := by
        intro he
        apply hm.1
        rw [he]
        exact List.mem_map.2 ⟨(p, i), h, rfl⟩
      have : (a.1 == p) = false := by simpa using hne
      rw [this]
      exact ih hm.2 h

theorem find_key_ext (m m' : List (Path × Nat))
    (hm : (m.map (·.1)).Nodup) (hm' : (m'.map (·.1)).Nodup) (h : ∀ x, x ∈ m ↔ x ∈ m') (p : Path) :
    m.find? (fun x => x.1 == p) = m'.find? (fun x => x.1 == p) := by
  cases h1 : m.find? (fun x => x.1 == p) with
  | some x =>
    have hx := List.mem_of_find?_eq_some h1
    have hp : x.1 = p := by simpa using List.find?_some h1
    obtain ⟨q, i⟩ := x
    simp only at hp
    subst hp
    exact (find_key_of_mem m' hm' q i ((h _).1 hx)).symm
  | none =>
    cases h2 : m'.find? (fun x => x.1 == p) with
    | none => rfl
    | some x =>
      have hx := List.mem_of_find?_eq_some h2
      have hp : x.1 = p := by simpa using List.find?_some h2
      obtain ⟨q, i⟩ := x
      simp only at hp
      subst hp
      rw [find_key_of_mem m hm q i ((h _).2 hx)] at h1
      cases h1

theorem all_ext {α : Type} (f : α → Bool) (l l' : List α) (h : ∀ x, x ∈ l ↔ x ∈ l') : l.all f = l'.all f := by
  rw [Bool.eq_iff_iff, List.all_eq_true, List.all_eq_true]
  constructor
  · intro hh x hx; exact hh x ((h x).2 hx)
  · intro hh x hx; exact hh x ((h x).1 hx)

/-- admissibility of an observed candidate order depends only on the set of members of the candidate map -/
theorem valid_ext (e : TEntry) (m m' : List (Path × Nat))
    (hm : (m.map (·.1)).Nodup) (hm' : (m'.map (·.1)).Nodup) (h : ∀ x, x ∈ m ↔ x ∈ m') (obs : List Path) :
    validSearches e m obs = validSearches e m' obs := by
  unfold validSearches
  simp only [find_key_ext m m' hm hm' h]
  rw [all_ext _ m m' h]

/-- `populateSearches` depends on the cache only through `CHas`/`CMem` -/
theorem populate_congr (c c' : Cache) (hw : CacheWF c) (hw' : CacheWF c')
    (hhas : ∀ l, CHas c l ↔ CHas c' l) (hmem : ∀ l p i, CMem c l p i ↔ CMem c' l p i)
    (obs : List (Nat × List Path)) (table : List TEntry) :
    populateSearches c obs table = populateSearches c' obs table := by
  induction table with
  | nil => rfl
  | cons e es ih =>
    rw [populateSearches, populateSearches, ih]
    by_cases hp : e.isPad = true
    · simp [hp]
    · simp only [hp, Bool.false_eq_true, if_false]
      cases hc : cacheGet c e.fileLength with
      | none =>
        cases hc' : cacheGet c' e.fileLength with
        | none => rfl
        | some m' =>
          have := (hhas e.fileLength).2 (by unfold CHas; rw [hc']; rfl)
          unfold CHas at this; rw [hc] at this; cases this
      | some m =>
        cases hc' : cacheGet c' e.fileLength with
        | none =>
          have := (hhas e.fileLength).1 (by unfold CHas; rw [hc]; rfl)
          unfold CHas at this; rw [hc'] at this; cases this
        | some m' =>
          have hmm : ∀ x, x ∈ m ↔ x ∈ m' := by
            rintro ⟨p, i⟩
            have := hmem e.fileLength p i
            unfold CMem at this
            rw [hc, hc'] at this
            simpa using this
          have hn := hw _ _ hc
          have hn' := hw' _ _ hc'
          simp only [canonical_ext e m m' hn hn' hmm, valid_ext e m m' hn hn' hmm]

/-! ### without fault points a stage is oblivious of the log it appends to -/

/-- on a state without fault points, `f` leaves a tree, appends operations and returns a value that depend on
    the tree alone — not on the operations logged so far -/
def Obl {α : Type} (f : St → St × α) : Prop :=
  ∀ fs, ∃ fs' new r, ∀ ops, f ⟨fs, ops, []⟩ = (⟨fs', ops ++ new, []⟩, r)

theorem Obl.ret {α : Type} (x : α) : Obl (St.ret x) :=
  fun fs => ⟨fs, [], x, fun ops => by simp [St.ret]⟩

theorem Obl.op (k : OpKind) (p : Path) (n : Fs → Fs × Bool) : Obl (fun st => st.op k p n) := by
  intro fs
  refine ⟨(n fs).1, [⟨k, p, (n fs).2⟩], (n fs).2, fun ops => ?_⟩
  show St.op ⟨fs, ops, []⟩ k p n = _
  rw [RD.St.op_nofault _ _ _ (by rfl)]

theorem Obl.bind {α β : Type} {g : St → St × β} {h : β → St → St × α}
    (hg : Obl g) (hh : ∀ r, Obl (h r)) : Obl (St.bind g h) := by
  intro fs
  obtain ⟨fs1, new1, r1, e1⟩ := hg fs
  obtain ⟨fs2, new2, r2, e2⟩ := hh r1 fs1
  refine ⟨fs2, new1 ++ new2, r2, fun ops => ?_⟩
  simp only [St.bind, e1, e2, List.append_assoc]

theorem Obl.withFs {α : Type} {k : Fs → St → St × α} (hk : ∀ fs, Obl (k fs)) : Obl (St.withFs k) := by
  intro fs
  obtain ⟨fs', new, r, e⟩ := hk fs fs
  exact ⟨fs', new, r, fun ops => by simp only [St.withFs, e]⟩

theorem Obl.ite {α : Type} (c : Prop) [Decidable c] {f g : St → St × α} (hf : Obl f) (hg : Obl g) :
    Obl (fun st => if c then f st else g st) := by
  split
  · exact hf
  · exact hg

/-- it is enough to present `f` as a composition on states without fault points -/
theorem Obl.congr {α : Type} {f g : St → St × α} (h : ∀ fs ops, f ⟨fs, ops, []⟩ = g ⟨fs, ops, []⟩) (hg : Obl g) :
    Obl f := by
  intro fs
  obtain ⟨fs', new, r, e⟩ := hg fs
  exact ⟨fs', new, r, fun ops => by rw [h, e]⟩

theorem Obl.congr' {α : Type} {f g : St → St × α} (h : ∀ st, f st = g st) (hg : Obl g) : Obl f :=
  Obl.congr (fun _ _ => h _) hg

theorem readBytes_obl (p : Path) (len off : Nat) : Obl (fun st => st.readBytes p len off) := by
  show Obl (St.bind (fun st => st.op .openr p (fun fs => (fs, match fs.look p with | .file _ => true | .dir => true | _ => false))) fun ok1 st1 =>
    if !ok1 then St.ret none st1 else
    St.bind (fun st => st.op (.seek off) p (fun fs => (fs, true))) (fun ok2 st2 =>
      if !ok2 then St.ret none st2 else
      if len == 0 then St.ret (some []) st2 else
      St.bind (fun st => st.op .read p (fun fs => (fs, match fs.look p with | .file _ => true | _ => false))) (fun ok3 st3 =>
        if !ok3 then St.ret none st3 else
        St.withFs (fun fs st => match fs.look p with
          | .file i => St.ret (some (fs.readAt i off len)) st
          | _ => St.ret none st) st3) st2) st1)
  refine Obl.bind (Obl.op _ _ _) fun ok1 => ?_
  refine Obl.ite _ (Obl.ret _) ?_
  refine Obl.bind (Obl.op _ _ _) fun ok2 => ?_
  refine Obl.ite _ (Obl.ret _) ?_
  refine Obl.ite _ (Obl.ret _) ?_
  refine Obl.bind (Obl.op _ _ _) fun ok3 => ?_
  refine Obl.ite _ (Obl.ret _) ?_
  refine Obl.withFs fun fs => ?_
  split
  · exact Obl.ret _
  · exact Obl.ret _

theorem scanSingle_obl (H : Bytes → Bytes) (hash : Bytes) (seg : WSeg) (ps : List Path) :
    Obl (fun st => scanSingle H hash seg st ps) := by
  induction ps with
  | nil => exact Obl.ret _
  | cons p ps ih =>
    refine Obl.congr' (g := St.bind (fun st => st.readBytes p seg.len seg.off) (fun r st1 =>
      match r with
      | none => St.ret .err st1
      | some bytes => if H bytes == hash then St.ret (.ok (some (p, bytes))) st1 else scanSingle H hash seg st1 ps))
      (fun st => ?_) ?_
    · simp only [scanSingle, St.bind]
      rcases st.readBytes p seg.len seg.off with ⟨a, _ | b⟩ <;> rfl
    refine Obl.bind (readBytes_obl _ _ _) fun r => ?_
    cases r with
    | none => exact Obl.ret _
    | some bytes => exact Obl.ite _ (Obl.ret _) ih

theorem preloadSeg_obl (seg : WSeg) (ps : List Path) :
    ∀ acc, Obl (fun st => preloadSeg seg st ps acc) := by
  induction ps with
  | nil => intro acc; exact Obl.ret _
  | cons p ps ih =>
    intro acc
    refine Obl.congr' (g := St.bind (fun st => st.readBytes p seg.len seg.off) (fun r st1 =>
      match r with
      | none => St.ret .err st1
      | some bytes =>
        if acc.any (fun r => r.2 == bytes) then preloadSeg seg st1 ps acc
        else preloadSeg seg st1 ps (acc ++ [(some p, bytes)])))
      (fun st => ?_) ?_
    · simp only [preloadSeg, St.bind]
      rcases st.readBytes p seg.len seg.off with ⟨a, _ | b⟩ <;> rfl
    refine Obl.bind (readBytes_obl _ _ _) fun r => ?_
    cases r with
    | none => exact Obl.ret _
    | some bytes => exact Obl.ite _ (ih _) (ih _)

theorem Obl.mapRes {α β : Type} {g : St → St × Res α} (hg : Obl g) (f : α → β) :
    Obl (fun st => match g st with
      | (st1, .ok x) => (st1, Res.ok (f x))
      | (st1, .err) => (st1, Res.err)
      | (st1, .panic) => (st1, Res.panic)) := by
  refine Obl.congr' (g := St.bind g (fun r st1 => match r with
      | .ok x => St.ret (Res.ok (f x)) st1
      | .err => St.ret Res.err st1
      | .panic => St.ret Res.panic st1)) (fun st => ?_) ?_
  · simp only [St.bind]
    rcases g st with ⟨a, _ | _ | _⟩ <;> rfl
  refine Obl.bind hg fun r => ?_
  cases r <;> exact Obl.ret _

theorem preload_obl (segs : List WSeg) : Obl (fun st => preload st segs) := by
  induction segs with
  | nil => exact Obl.ret _
  | cons seg rest ih =>
    simp only [preload]
    split
    · refine Obl.congr' (fun st => ?_) (Obl.mapRes ih (fun r => [(none, List.replicate seg.len 0)] :: r))
      rcases preload st rest with ⟨a, _ | _ | _⟩ <;> rfl
    · split
      · refine Obl.congr' (fun st => ?_) (Obl.mapRes ih (fun r => [(none, [])] :: r))
        rcases preload st rest with ⟨a, _ | _ | _⟩ <;> rfl
      · rename_i paths _
        refine Obl.congr' (g := St.bind (fun st => preloadSeg seg st paths []) (fun r st1 =>
          match r with
          | .ok r => (match preload st1 rest with
            | (st2, .ok rs) => (st2, Res.ok (r :: rs))
            | (st2, .err) => (st2, Res.err)
            | (st2, .panic) => (st2, Res.panic))
          | .err => St.ret Res.err st1
          | .panic => St.ret Res.panic st1)) (fun st => ?_) ?_
        · simp only [St.bind]
          rcases preloadSeg seg st paths [] with ⟨a, _ | _ | _⟩ <;> rfl
        refine Obl.bind (preloadSeg_obl _ _ _) fun r => ?_
        cases r with
        | ok r =>
          refine Obl.congr' (fun st => ?_) (Obl.mapRes ih (fun rs => r :: rs))
          simp only []
          rcases preload st rest with ⟨a, _ | _ | _⟩ <;> rfl
        | err => exact Obl.ret _
        | panic => exact Obl.ret _

theorem writeSegs_obl (pairs : List (WSeg × Option Path)) :
    ∀ buf start, Obl (fun st => writeSegs st pairs buf start) := by
  induction pairs with
  | nil => intro buf start; exact Obl.ret _
  | cons x rest ih =>
    obtain ⟨seg, src⟩ := x
    intro buf start
    show Obl (fun st =>
      if seg.ent.isPad then writeSegs st rest buf (start + seg.len)
      else if src == some seg.ent.fullTarget then writeSegs st rest buf (start + seg.len)
      else St.bind (fun st => st.op .mkdirs seg.ent.fullTarget.dropLast (fun fs => fs.mkdirs seg.ent.fullTarget.dropLast))
        (fun ok1 st1 =>
          if !ok1 then St.ret Solved.fault st1 else
          St.bind (fun st => st.op .openc seg.ent.fullTarget
              (fun fs => let r := fs.openCreate seg.ent.fullTarget; (r.1, r.2.isSome)))
            (fun ok2 st2 =>
              if !ok2 then St.ret Solved.fault st2 else
              St.withFs (fun fs st2 =>
                match fs.look seg.ent.fullTarget with
                | .file i =>
                  St.bind (fun st => st.op (.setlen seg.ent.fileLength) seg.ent.fullTarget
                      (fun fs => (fs.setLen i seg.ent.fileLength, true)))
                    (fun ok3 st3 =>
                      if !ok3 then St.ret Solved.fault st3 else
                      St.bind (fun st => st.op (.seek seg.off) seg.ent.fullTarget (fun fs => (fs, true)))
                        (fun ok4 st4 =>
                          if !ok4 then St.ret Solved.fault st4 else
                          if buf.length < start + seg.len then St.ret Solved.fault st4 else
                          St.bind (fun st => st.op (.write seg.off ((buf.drop start).take seg.len)) seg.ent.fullTarget
                              (fun fs => (fs.writeAt i seg.off ((buf.drop start).take seg.len), true)))
                            (fun ok5 st5 =>
                              if !ok5 then St.ret Solved.fault st5 else writeSegs st5 rest buf (start + seg.len)) st4) st3) st2
                | _ => St.ret Solved.fault st2) st2) st1) st)
    refine Obl.ite _ (ih _ _) ?_
    refine Obl.ite _ (ih _ _) ?_
    refine Obl.bind (Obl.op _ _ _) fun ok1 => ?_
    refine Obl.ite _ (Obl.ret _) ?_
    refine Obl.bind (Obl.op _ _ _) fun ok2 => ?_
    refine Obl.ite _ (Obl.ret _) ?_
    refine Obl.withFs fun fs => ?_
    split
    · refine Obl.bind (Obl.op _ _ _) fun ok3 => ?_
      refine Obl.ite _ (Obl.ret _) ?_
      refine Obl.bind (Obl.op _ _ _) fun ok4 => ?_
      refine Obl.ite _ (Obl.ret _) ?_
      refine Obl.ite _ (Obl.ret _) ?_
      refine Obl.bind (Obl.op _ _ _) fun ok5 => ?_
      exact Obl.ite _ (Obl.ret _) (ih _ _)
    · exact Obl.ret _

theorem solvePiece_obl (H : Bytes → Bytes) (w : Work) : Obl (fun st => solvePiece H st w) := by
  unfold solvePiece; simp -iota only
  split; · exact Obl.ret _
  split
  · rename_i seg _
    split
    · split <;> exact Obl.ret _
    · split
      · exact Obl.ret _
      · rename_i paths _
        refine Obl.congr' (g := St.bind (fun st => scanSingle H w.hash seg st paths) (fun r st1 =>
          match r with
          | .ok (some (src, bytes)) => writeSegs st1 [(seg, some src)] bytes 0
          | .ok none => St.ret Solved.notFound st1
          | .err => St.ret Solved.fault st1
          | .panic => St.ret Solved.panic st1)) (fun st => ?_) ?_
        · simp only [St.bind]
          rcases scanSingle H w.hash seg st paths with ⟨a, (_ | ⟨src, bytes⟩) | _ | _⟩ <;> rfl
        refine Obl.bind (scanSingle_obl _ _ _ _) fun r => ?_
        rcases r with (_ | ⟨src, bytes⟩) | _ | _
        · exact Obl.ret _
        · exact writeSegs_obl _ _ _
        · exact Obl.ret _
        · exact Obl.ret _
  · refine Obl.congr' (g := St.bind (fun st => preload st w.segs) (fun r st1 =>
      match r with
      | .ok loaded =>
        match searchProduct H w.hash loaded [] with
        | some chosen => writeSegs st1 (List.zip w.segs (chosen.map (·.1))) (chosen.flatMap (·.2)) 0
        | none => St.ret Solved.notFound st1
      | .err => St.ret Solved.fault st1
      | .panic => St.ret Solved.panic st1)) (fun st => ?_) ?_
    · simp only [St.bind]
      rcases preload st w.segs with ⟨a, _ | _ | _⟩ <;> rfl
    refine Obl.bind (preload_obl _) fun r => ?_
    cases r with
    | ok loaded =>
      show Obl (fun st1 => match searchProduct H w.hash loaded [] with
        | some chosen => writeSegs st1 (List.zip w.segs (chosen.map (·.1))) (chosen.flatMap (·.2)) 0
        | none => St.ret Solved.notFound st1)
      split
      · exact writeSegs_obl _ _ _
      · exact Obl.ret _
    | err => exact Obl.ret _
    | panic => exact Obl.ret _

theorem openr_obl (p : Path) : Obl (fun st => st.openr p) := Obl.op _ _ _

theorem resizePass1_obl (es : List TEntry) : Obl (fun st => resizePass1 st es) := by
  induction es with
  | nil => exact Obl.ret _
  | cons e es ih =>
    refine Obl.congr (g := fun st =>
      if e.isPad then resizePass1 st es else
      St.withFs (fun fs st => St.bind (fun st => st.openr e.fullTarget) (fun ok st1 =>
        if !ok then
          (if fs.look e.fullTarget == .notFound then resizePass1 st1 es else St.ret Flow.error st1)
        else
          match fs.look e.fullTarget with
          | .file i => St.withFs (fun fs1 st1 =>
              if (fs1.content i).length > e.fileLength then St.ret Flow.error st1 else resizePass1 st1 es) st1
          | _ => resizePass1 st1 es) st) st) (fun fs ops => ?_) ?_
    · rw [resizePass1]
      simp only [St.withFs, St.bind, St.ret, List.contains_nil, Bool.not_false, Bool.and_true]
      split
      · rfl
      · split
        · rfl
        · cases fs.look e.fullTarget <;> rfl
    refine Obl.ite _ ih ?_
    refine Obl.withFs fun fs => ?_
    refine Obl.bind (openr_obl _) fun ok => ?_
    refine Obl.ite _ (Obl.ite _ ih (Obl.ret _)) ?_
    split
    · refine Obl.withFs fun fs1 => ?_
      exact Obl.ite _ (Obl.ret _) ih
    all_goals exact ih


theorem resizePass2_obl (es : List TEntry) : Obl (fun st => resizePass2 st es) := by
  induction es with
  | nil => exact Obl.ret _
  | cons e es ih =>
    refine Obl.congr (g := fun st =>
      if e.isPad then resizePass2 st es else
      St.withFs (fun fs st => St.bind (fun st => st.op .openrw e.fullTarget
            (fun fs => (fs, match fs.look e.fullTarget with | .file _ => true | _ => false))) (fun ok st1 =>
        if !ok then
          (if fs.look e.fullTarget == .notFound then resizePass2 st1 es else St.ret Flow.error st1)
        else
          match fs.look e.fullTarget with
          | .file i => St.withFs (fun fs1 st1 =>
              if (fs1.content i).length < e.fileLength then
                St.bind (fun st => st.op (.setlen e.fileLength) e.fullTarget (fun fs => (fs.setLen i e.fileLength, true)))
                  (fun ok2 st2 => if ok2 then resizePass2 st2 es else St.ret Flow.error st2) st1
              else resizePass2 st1 es) st1
          | _ => resizePass2 st1 es) st) st) (fun fs ops => ?_) ?_
    · rw [resizePass2]
      simp only [St.withFs, St.bind, St.ret, List.contains_nil, Bool.not_false, Bool.and_true]
      by_cases hp : e.isPad = true
      · simp only [hp, if_true]
      · simp only [hp, Bool.false_eq_true, if_false]
        rfl
    refine Obl.ite _ ih ?_
    refine Obl.withFs fun fs => ?_
    refine Obl.bind (Obl.op _ _ _) fun ok => ?_
    refine Obl.ite _ (Obl.ite _ ih (Obl.ret _)) ?_
    split
    · refine Obl.withFs fun fs1 => ?_
      refine Obl.ite _ ?_ ih
      refine Obl.bind (Obl.op _ _ _) fun ok2 => ?_
      exact Obl.ite _ ih (Obl.ret _)
    all_goals exact ih

theorem fixExportFileLengths_obl (table : List TEntry) : Obl (fun st => fixExportFileLengths st table) := by
  refine Obl.congr' (g := St.bind (fun st => resizePass1 st table) (fun r st1 =>
    match r with
    | .error => St.ret Flow.error st1
    | .continue => resizePass2 st1 table)) (fun st => ?_) ?_
  · simp only [fixExportFileLengths, St.bind]
    rcases resizePass1 st table with ⟨a, _ | _⟩ <;> rfl
  refine Obl.bind (resizePass1_obl _) fun r => ?_
  cases r
  · exact resizePass2_obl _
  · exact Obl.ret _

theorem addExportPaths_obl (es : List TEntry) : ∀ c, Obl (fun st => addExportPaths st c es) := by
  induction es with
  | nil => intro c; exact Obl.ret _
  | cons e es ih =>
    intro c
    refine Obl.congr' (g := fun st =>
      if e.isPad then addExportPaths st c es else
      St.bind (fun st => st.openr e.fullTarget) (fun ok st1 =>
        if ok = false then addExportPaths st1 c es else
        St.withFs (fun fs1 st1 =>
          match fs1.look e.fullTarget with
          | .file i =>
            if (fs1.content i).length == e.fileLength
            then addExportPaths st1 (cacheInsert c e.fileLength e.fullTarget i) es
            else addExportPaths st1 c es
          | _ => addExportPaths st1 c es) st1) st) (fun st => ?_) ?_
    · show addExportPaths st c (e :: es) = _
      rw [addExportPaths_cons]
      rfl
    refine Obl.ite _ (ih _) ?_
    refine Obl.bind (openr_obl _) fun ok => ?_
    refine Obl.ite _ (ih _) ?_
    refine Obl.withFs fun fs1 => ?_
    split
    · exact Obl.ite _ (ih _) (ih _)
    · exact ih _

theorem solveAll_obl (H : Bytes → Bytes) (ws : List Work) :
    ∀ c acc, Obl (fun st => solveAll H st ws c acc) := by
  induction ws with
  | nil => intro c acc; exact Obl.ret _
  | cons w ws ih =>
    intro c acc
    refine Obl.congr' (g := St.bind (fun st => solvePiece H st w) (fun r st1 =>
      match r with
      | .panic => St.ret (acc, true) st1
      | r => solveAll H st1 ws (c.bump r) (acc ++ [c.bump r]))) (fun st => ?_) ?_
    · simp only [solveAll, St.bind]
      rcases solvePiece H st w with ⟨a, _ | _ | _ | _⟩ <;> rfl
    refine Obl.bind (solvePiece_obl _ _) fun r => ?_
    cases r
    · exact ih _ _
    · exact ih _ _
    · exact ih _ _
    · exact Obl.ret _

/-! ### validation without fault points -/

/-- what `validate_path` accepts: an absolute path that is a directory -/
def argOk (fs : Fs) (a : PathArg) : Bool := a.absolute && fs.look a.path == .dir

theorem validatePath_nofault (fs : Fs) (a : PathArg) :
    ∃ new, (∀ o ∈ new, o.kind = .stat) ∧
      ∀ ops, validatePath ⟨fs, ops, []⟩ a = (⟨fs, ops ++ new, []⟩, argOk fs a) := by
  unfold argOk
  by_cases ha : a.absolute = true
  · refine ⟨[⟨.stat, a.path, match fs.look a.path with | .file _ => true | .dir => true | _ => false⟩], ?_, ?_⟩
    · simp
    · intro ops
      unfold validatePath
      rw [RD.St.op_nofault _ _ _ (by rfl)]
      simp only [ha]
      cases fs.look a.path <;> simp
  · refine ⟨[], by simp, fun ops => ?_⟩
    unfold validatePath
    simp [ha]

theorem validateAll_nofault (fs : Fs) (l : List PathArg) :
    ∃ new, (∀ o ∈ new, o.kind = .stat) ∧
      ∀ ops, validateAll ⟨fs, ops, []⟩ l = (⟨fs, ops ++ new, []⟩, l.all (argOk fs)) := by
  induction l with
  | nil => exact ⟨[], by simp, fun ops => by simp [validateAll]⟩
  | cons a as ih =>
    obtain ⟨n1, h1, e1⟩ := validatePath_nofault fs a
    obtain ⟨n2, h2, e2⟩ := ih
    cases hok : argOk fs a
    · refine ⟨n1, h1, fun ops => ?_⟩
      rw [validateAll, e1, hok]
      simp [hok]
    · refine ⟨n1 ++ n2, ?_, fun ops => ?_⟩
      · intro o ho
        rcases List.mem_append.1 ho with h | h
        · exact h1 o h
        · exact h2 o h
      · rw [validateAll, e1, hok]
        simp only
        rw [e2]
        simp [hok]

/-! ### the run after validation -/

theorem CacheWF_addExportPaths (st : St) {c : Cache} (h : CacheWF c) (table : List TEntry) :
    CacheWF (addExportPaths st c table).2 := by
  induction table generalizing st c with
  | nil => exact h
  | cons e es ih =>
    rw [addExportPaths_cons]
    split
    · exact ih st h
    · split
      · exact ih _ h
      · split
        · split
          · exact ih _ (CacheWF_insert h _ _ _)
          · exact ih _ h
        · exact ih _ h

/-- evaluation of the work list for a populated table -/
def runSolve (H : Bytes → Bytes) (torrents : List Torrent) (order : List (List (Nat × Nat × Nat) × Bytes))
    (tbl : List TEntry × Bool) (st3 : St) : RunOut :=
  match convertPiecesToWork tbl.1 torrents with
  | none => ⟨.panic, st3.ops, st3.fs, [], 0, tbl.2, tbl.1, [], st3.ops.length⟩
  | some work =>
    let oo : List Work × Bool :=
      match reorder work order with
      | some o => (o, true)
      | none => (defaultOrder work, order.isEmpty)
    let r := solveAll H st3 oo.1 ⟨0, 0, 0⟩ []
    ⟨if r.2.2 then .panic else .ok (), r.1.ops, r.1.fs, r.2.1, work.length, tbl.2 && oo.2, tbl.1, work, st3.ops.length⟩

/-- the scan directories, the candidate lists and the evaluation, from the state and cache `addExportPaths` leaves -/
def runIndex (H : Bytes → Bytes) (inp : RunIn) (scan : List PathArg) (torrents : List Torrent) (table0 : List TEntry)
    (r : St × Cache) : RunOut :=
  runSolve H torrents inp.order
    (populateSearches (scan.foldl (fun c d => addByDirectory r.1.fs c d.path (uniqueLengths table0)) r.2)
      inp.searchObs table0) r.1

/-- the part of `run` after the validation of the arguments, as a function of the scan list and the state reached -/
def runAfter (H : Bytes → Bytes) (inp : RunIn) (scan : List PathArg) (st1 : St) : RunOut :=
  let torrents := dedupTorrents (sortTorrents inp.torrents)
  let table0 := buildTable inp.exportDir.path torrents 0
  let r : St × Flow := if inp.resize then fixExportFileLengths st1 table0 else (st1, .continue)
  match r.2 with
  | .error => ⟨.err, r.1.ops, r.1.fs, [], 0, true, table0, [], r.1.ops.length⟩
  | .continue => runIndex H inp scan torrents table0 (addExportPaths r.1 [] table0)

theorem run_eq (H : Bytes → Bytes) (inp : RunIn) :
    run H inp =
      if inp.torrents.isEmpty then ⟨.ok (), [], inp.fs, [], 0, true, [], [], 0⟩ else
      match validateAll ⟨inp.fs, [], inp.faults⟩ (inp.scan ++ [inp.exportDir]) with
      | (st1, false) => ⟨.err, st1.ops, st1.fs, [], 0, true, [], [], st1.ops.length⟩
      | (st1, true) => runAfter H inp inp.scan st1 := by
  unfold run
  simp only
  by_cases he : inp.torrents.isEmpty = true
  · simp only [he, if_true]
  · simp only [he, Bool.false_eq_true, if_false]
    rcases validateAll ⟨inp.fs, [], inp.faults⟩ (inp.scan ++ [inp.exportDir]) with ⟨st1, _ | _⟩
    · rfl
    · simp only
      unfold runAfter runIndex runSolve
      simp only
      cases inp.resize
      · simp only [Bool.false_eq_true, if_false]
        generalize convertPiecesToWork _ _ = cw
        cases cw <;> rfl
      · simp only [if_true]
        rcases fixExportFileLengths st1 _ with ⟨a, _ | _⟩
        · simp only
          generalize convertPiecesToWork _ _ = cw
          cases cw <;> rfl
        · rfl


/-! ### the resize passes keep the names of the regular files -/

theorem replayD_files (fs : Fs) (new : List Op) (h : ∀ o ∈ new, o.kind ≠ .mkdirs ∧ o.kind ≠ .openc) :
    (replayD fs new).files = fs.files := by
  induction new generalizing fs with
  | nil => rfl
  | cons o os ih =>
    have ho := h o List.mem_cons_self
    rw [replayD, List.foldl_cons]
    have h1 : (applyOpD fs o).files = fs.files := by
      obtain ⟨k, p, ok⟩ := o
      simp only at ho
      unfold applyOpD
      cases k with
      | mkdirs => exact absurd rfl ho.1
      | openc => exact absurd rfl ho.2
      | setlen n =>
        simp only
        split
        · split <;> rfl
        · rfl
      | write off d =>
        simp only
        split
        · split <;> rfl
        · rfl
      | stat => rfl
      | openr => rfl
      | openrw => rfl
      | seek _ => rfl
      | read => rfl
    have := ih (applyOpD fs o) (fun x hx => h x (List.mem_cons_of_mem _ hx))
    rw [replayD] at this
    rw [this, h1]

theorem fixExportFileLengths_files (st : St) (table : List TEntry) :
    (fixExportFileLengths st table).1.fs.files = st.fs.files := by
  obtain ⟨n1, e1, hk⟩ := fixExportFileLengths_ext st table
  obtain ⟨_, n2, e2, hr⟩ := fixExportFileLengths_reach st table
  have : n1 = n2 := List.append_cancel_left (e1.symm.trans e2)
  subst this
  rw [hr]
  apply replayD_files
  intro o ho
  rcases hk o ho with h | h | ⟨e, _, _, h | h, _⟩ <;> rw [h] <;> exact ⟨by simp, by simp⟩

/-- two outcomes agree on everything but the prefixes `pre`, `pre'` of their logs -/
def AgreeMod (pre pre' : List Op) (o o' : RunOut) : Prop :=
  o'.result = o.result ∧ o'.fs = o.fs ∧ o'.counters = o.counters ∧ o'.total = o.total ∧
  o'.resolutionOk = o.resolutionOk ∧ o'.table = o.table ∧ o'.work = o.work ∧
  ∃ rest k, o.ops = pre ++ rest ∧ o'.ops = pre' ++ rest ∧
    o.setupOps = pre.length + k ∧ o'.setupOps = pre'.length + k

theorem runSolve_shift (H : Bytes → Bytes) (torrents : List Torrent) (order : List (List (Nat × Nat × Nat) × Bytes))
    (tbl : List TEntry × Bool) (fs : Fs) (pre pre' mid : List Op) :
    AgreeMod pre pre' (runSolve H torrents order tbl ⟨fs, pre ++ mid, []⟩)
      (runSolve H torrents order tbl ⟨fs, pre' ++ mid, []⟩) := by
  unfold runSolve
  cases convertPiecesToWork tbl.1 torrents with
  | none =>
    exact ⟨rfl, rfl, rfl, rfl, rfl, rfl, rfl, mid, mid.length, rfl, rfl, by simp, by simp⟩
  | some work =>
    simp only
    generalize (match reorder work order with
      | some o => (o, true)
      | none => (defaultOrder work, order.isEmpty) : List Work × Bool) = oo
    obtain ⟨fs4, new, r, e⟩ := solveAll_obl H oo.1 ⟨0, 0, 0⟩ [] fs
    simp only at e
    rw [e, e]
    exact ⟨rfl, rfl, rfl, rfl, rfl, rfl, rfl, mid ++ new, mid.length, by simp, by simp, by simp, by simp⟩

theorem runIndex_shift (H : Bytes → Bytes) (inp : RunIn) (scan scan' : List PathArg) (torrents : List Torrent)
    (table0 : List TEntry) (fs : Fs) (pre pre' mid : List Op) (c : Cache) (hc : CacheWF c)
    (hcov : ∀ e ∈ fs.files, covered scan e.1 = covered scan' e.1) :
    AgreeMod pre pre' (runIndex H inp scan torrents table0 (⟨fs, pre ++ mid, []⟩, c))
      (runIndex H inp scan' torrents table0 (⟨fs, pre' ++ mid, []⟩, c)) := by
  unfold runIndex
  simp only
  obtain ⟨h1, h2⟩ := scan_congr_files fs (uniqueLengths table0) scan scan' c hcov
  rw [populate_congr _ _ (CacheWF_scan fs _ scan hc) (CacheWF_scan fs _ scan' hc) h1 h2]
  exact runSolve_shift H torrents inp.order _ fs pre pre' mid

theorem runAfter_shift (H : Bytes → Bytes) (inp : RunIn) (scan scan' : List PathArg) (fs : Fs) (pre pre' : List Op)
    (hcov : ∀ e ∈ fs.files, covered scan e.1 = covered scan' e.1) :
    AgreeMod pre pre' (runAfter H inp scan ⟨fs, pre, []⟩) (runAfter H inp scan' ⟨fs, pre', []⟩) := by
  unfold runAfter
  simp only
  generalize buildTable inp.exportDir.path (dedupTorrents (sortTorrents inp.torrents)) 0 = table0
  have hA : Obl (fun st => if inp.resize then fixExportFileLengths st table0 else (st, Flow.continue)) := by
    cases inp.resize
    · exact Obl.ret _
    · exact fixExportFileLengths_obl table0
  obtain ⟨fs2, nA, flow, eA⟩ := hA fs
  simp only at eA
  rw [eA, eA]
  cases flow with
  | error =>
    exact ⟨rfl, rfl, rfl, rfl, rfl, rfl, rfl, nA, nA.length, rfl, rfl, by simp, by simp⟩
  | «continue» =>
    simp only
    obtain ⟨fs3, nB, c0, eB⟩ := addExportPaths_obl table0 [] fs2
    simp only at eB
    have hc : CacheWF c0 := by
      have := CacheWF_addExportPaths ⟨fs2, pre ++ nA, []⟩ CacheWF_nil table0
      rw [eB] at this
      exact this
    have hfiles : fs3.files = fs.files := by
      have h3 := addExportPaths_fs ⟨fs2, pre ++ nA, []⟩ [] table0
      rw [eB] at h3
      simp only at h3
      rw [h3]
      cases hr : inp.resize
      · rw [hr] at eA
        have := eA pre
        simp only [Bool.false_eq_true, if_false, Prod.mk.injEq, St.mk.injEq] at this
        rw [← this.1.1]
      · rw [hr] at eA
        have h2 := fixExportFileLengths_files ⟨fs, pre, []⟩ table0
        have := eA pre
        simp only [if_true] at this
        rw [this] at h2
        exact h2
    rw [eB, eB, List.append_assoc, List.append_assoc]
    exact runIndex_shift H inp scan scan' _ table0 fs3 pre pre' (nA ++ nB) c0 hc (by rw [hfiles]; exact hcov)

/-! ### covering -/

theorem under_iff (d p : Path) : under d p = true ↔ d <+: p ∧ d ≠ p := by
  unfold under
  simp only [Bool.and_eq_true, decide_eq_true_eq, beq_iff_eq, bne_iff_ne, ne_eq]
  constructor
  · rintro ⟨⟨_, h2⟩, h3⟩
    exact ⟨List.prefix_iff_eq_take.2 h2.symm, fun h => h3 h.symm⟩
  · rintro ⟨h1, h2⟩
    exact ⟨⟨h1.length_le, (List.prefix_iff_eq_take.1 h1).symm⟩, fun h => h2 h.symm⟩

theorem under_of_prefix {d0 d p : Path} (h0 : d0 <+: d) (h : under d p = true) : under d0 p = true := by
  rw [under_iff] at h ⊢
  refine ⟨h0.trans h.1, ?_⟩
  intro he
  subst he
  have h1 := h.1.length_le
  have h2 := h0.length_le
  exact h.2 (h.1.eq_of_length_le h2)

theorem covered_iff (scan : List PathArg) (p : Path) : covered scan p = true ↔ ∃ d ∈ scan, under d.path p = true := by
  unfold covered
  simp only [List.any_eq_true]

/-- every directory of `a` lies at or below a directory of `b` -/
def Below (a b : List PathArg) : Prop := ∀ d ∈ a, ∃ d' ∈ b, d'.path <+: d.path

theorem covered_mono {a b : List PathArg} (h : Below a b) (p : Path) (hc : covered a p = true) : covered b p = true := by
  rw [covered_iff] at hc ⊢
  obtain ⟨d, hd, hu⟩ := hc
  obtain ⟨d', hd', hp⟩ := h d hd
  exact ⟨d', hd', under_of_prefix hp hu⟩

theorem covered_eq_of_below {a b : List PathArg} (h1 : Below a b) (h2 : Below b a) (p : Path) :
    covered a p = covered b p := by
  rw [Bool.eq_iff_iff]
  exact ⟨covered_mono h1 p, covered_mono h2 p⟩

theorem below_of_paths {a b : List PathArg} (h : ∀ p, p ∈ a.map (·.path) → p ∈ b.map (·.path)) : Below a b := by
  intro d hd
  obtain ⟨d', hd', he⟩ := List.mem_map.1 (h d.path (List.mem_map.2 ⟨d, hd, rfl⟩))
  exact ⟨d', hd', by rw [he]; exact List.prefix_refl _⟩

/-! ### the whole run -/

/-- `run` for two scan lists that cover the same names of regular files and are both accepted or both rejected by the validation,
    without fault points: the outcomes agree up to the `stat` operations at the head of the log -/
theorem run_scan_agree (H : Bytes → Bytes) (inp : RunIn) (scan' : List PathArg) (hf : inp.faults = [])
    (hvalid : scan'.all (argOk inp.fs) = inp.scan.all (argOk inp.fs))
    (hcov : ∀ e ∈ inp.fs.files, covered inp.scan e.1 = covered scan' e.1) :
    ∃ pre pre', (∀ o ∈ pre, o.kind = .stat) ∧ (∀ o ∈ pre', o.kind = .stat) ∧
      AgreeMod pre pre' (run H inp) (run H { inp with scan := scan' }) := by
  rw [run_eq, run_eq]
  simp only [hf]
  by_cases he : inp.torrents.isEmpty = true
  · simp only [he, if_true]
    exact ⟨[], [], by simp, by simp, rfl, rfl, rfl, rfl, rfl, rfl, rfl, [], 0, rfl, rfl, rfl, rfl⟩
  · simp only [he, Bool.false_eq_true, if_false]
    obtain ⟨n, hn, en⟩ := validateAll_nofault inp.fs (inp.scan ++ [inp.exportDir])
    obtain ⟨n', hn', en'⟩ := validateAll_nofault inp.fs (scan' ++ [inp.exportDir])
    rw [en, en']
    simp only [List.nil_append, List.all_append, hvalid]
    refine ⟨n, n', hn, hn', ?_⟩
    cases (inp.scan.all (argOk inp.fs) && [inp.exportDir].all (argOk inp.fs))
    · exact ⟨rfl, rfl, rfl, rfl, rfl, rfl, rfl, [], 0, by simp, by simp, by simp, by simp⟩
    · exact runAfter_shift H inp inp.scan scan' inp.fs n n' hcov

/-! ### `canonicalSearches` sees a candidate map as a set, unconditionally

  Without `Nodup` of the paths the sorted list depends on the list order, but only inside the groups of equal
  path, and `pruneLinks` maps a group to as many copies of its path as it has inodes not seen before. -/

section anyMap
variable (klt : Path → Path → Bool)
  (hirr : ∀ a, klt a a = false)
  (htr : ∀ a b c, klt a b = true → klt b c = true → klt a c = true)
  (htot : ∀ a b, a ≠ b → klt a b = true ∨ klt b a = true)

/-- weakly sorted by path key -/
def WS (L : List (Path × Nat)) : Prop := L.Pairwise (fun a b => klt b.1 a.1 = false)

include hirr htr in
theorem insertBy_ws (a : Path × Nat) (L : List (Path × Nat)) (h : WS klt L) :
    WS klt (insertBy (fun a b => klt a.1 b.1) a L) := by
  unfold WS at h ⊢
  induction L with
  | nil => simp [insertBy]
  | cons b bs ih =>
    rw [List.pairwise_cons] at h
    unfold insertBy
    split
    · rename_i hab
      rw [List.pairwise_cons]
      refine ⟨?_, List.pairwise_cons.2 h⟩
      intro x hx
      cases hxa : klt x.1 a.1
      · rfl
      · rcases List.mem_cons.1 hx with rfl | hx
        · have := htr _ _ _ hab hxa
          rw [hirr] at this; cases this
        · have := htr _ _ _ hxa hab
          rw [h.1 x hx] at this; cases this
    · rename_i hab
      rw [List.pairwise_cons]
      refine ⟨?_, ih h.2⟩
      intro x hx
      rcases (mem_insertBy _ a x bs).1 hx with rfl | hx
      · simpa using hab
      · exact h.1 x hx

include hirr htr in
theorem sortBy_ws (m : List (Path × Nat)) : WS klt (sortBy (fun a b => klt a.1 b.1) m) := by
  induction m with
  | nil => simp [sortBy, WS]
  | cons a as ih => exact insertBy_ws klt hirr htr a _ ih

theorem pruneLinks_seen_congr (L : List (Path × Nat)) (s s' : List Nat) (h : ∀ i, i ∈ s ↔ i ∈ s') :
    pruneLinks L s = pruneLinks L s' := by
  induction L generalizing s s' with
  | nil => rfl
  | cons a rest ih =>
    obtain ⟨p, i⟩ := a
    rw [pruneLinks, pruneLinks]
    have hc : s.contains i = s'.contains i := by
      rw [Bool.eq_iff_iff, List.contains_iff_mem, List.contains_iff_mem]; exact h i
    rw [hc]
    split
    · exact ih s s' h
    · rw [ih (i :: s) (i :: s') (fun j => by simp [h j])]

theorem pruneLinks_append (G R : List (Path × Nat)) (s : List Nat) :
    pruneLinks (G ++ R) s = pruneLinks G s ++ pruneLinks R (G.map (·.2) ++ s) := by
  induction G generalizing s with
  | nil => rfl
  | cons a rest ih =>
    obtain ⟨p, i⟩ := a
    rw [List.cons_append, pruneLinks, pruneLinks]
    split
    · rename_i hs
      rw [ih]
      congr 1
      apply pruneLinks_seen_congr
      intro j
      have hi : i ∈ s := List.contains_iff_mem.1 hs
      simp only [List.map_cons, List.mem_append, List.mem_cons, List.mem_map]
      constructor
      · rintro (h | h)
        · exact .inl (.inr h)
        · exact .inr h
      · rintro ((h | h) | h)
        · exact .inr (h ▸ hi)
        · exact .inl h
        · exact .inr h
    · rw [ih, List.cons_append]
      congr 2
      apply pruneLinks_seen_congr
      intro j
      simp only [List.map_cons, List.mem_append, List.mem_cons, List.mem_map]
      constructor
      · rintro (h | h | h)
        · exact .inl (.inr h)
        · exact .inl (.inl h)
        · exact .inr h
      · rintro ((h | h) | h)
        · exact .inr (.inl h)
        · exact .inl h
        · exact .inr (.inr h)

/-- the inodes of `is` not in `s`, first occurrences, in order -/
def fresh : List Nat → List Nat → List Nat
  | [], _ => []
  | i :: is, s => if s.contains i then fresh is s else i :: fresh is (i :: s)

theorem mem_fresh (is s : List Nat) (j : Nat) : j ∈ fresh is s ↔ j ∈ is ∧ j ∉ s := by
  induction is generalizing s with
  | nil => simp [fresh]
  | cons i is ih =>
    rw [fresh]
    split
    · rename_i hs
      have hi : i ∈ s := List.contains_iff_mem.1 hs
      rw [ih]
      simp only [List.mem_cons]
      constructor
      · rintro ⟨h1, h2⟩; exact ⟨.inr h1, h2⟩
      · rintro ⟨h1 | h1, h2⟩
        · exact absurd (h1 ▸ hi) h2
        · exact ⟨h1, h2⟩
    · rename_i hs
      have hi : i ∉ s := fun h => hs (List.contains_iff_mem.2 h)
      simp only [List.mem_cons, ih]
      constructor
      · rintro (h | ⟨h1, h2⟩)
        · exact ⟨.inl h, h ▸ hi⟩
        · exact ⟨.inr h1, fun h => h2 (.inr h)⟩
      · rintro ⟨h1 | h1, h2⟩
        · exact .inl h1
        · by_cases hj : j = i
          · exact .inl hj
          · exact .inr ⟨h1, by rintro (h | h); exact hj h; exact h2 h⟩

theorem nodup_fresh (is s : List Nat) : (fresh is s).Nodup := by
  induction is generalizing s with
  | nil => simp [fresh]
  | cons i is ih =>
    rw [fresh]
    split
    · exact ih s
    · rw [List.nodup_cons]
      refine ⟨?_, ih _⟩
      rw [mem_fresh]
      rintro ⟨_, h⟩
      exact h List.mem_cons_self

theorem nodup_length_eq (l l' : List Nat) (h : l.Nodup) (h' : l'.Nodup) (hm : ∀ j, j ∈ l ↔ j ∈ l') :
    l.length = l'.length := by
  apply List.Perm.length_eq
  rw [List.perm_iff_count]
  intro a
  rw [h.count, h'.count]
  simp only [hm a]

/-- a group of names of one path yields one copy of the path per inode not seen before -/
theorem pruneLinks_group (k : Path) (G : List (Path × Nat)) (s : List Nat) (hG : ∀ x ∈ G, x.1 = k) :
    pruneLinks G s = List.replicate (fresh (G.map (·.2)) s).length k := by
  induction G generalizing s with
  | nil => rfl
  | cons a rest ih =>
    obtain ⟨p, i⟩ := a
    have hp : p = k := hG (p, i) List.mem_cons_self
    have hr : ∀ x ∈ rest, x.1 = k := fun x hx => hG x (List.mem_cons_of_mem _ hx)
    rw [pruneLinks, List.map_cons, fresh]
    split
    · exact ih s hr
    · rw [ih _ hr, hp]
      rfl

theorem pruneLinks_group_ext (k : Path) (G G' : List (Path × Nat)) (s : List Nat)
    (hG : ∀ x ∈ G, x.1 = k) (hG' : ∀ x ∈ G', x.1 = k) (h : ∀ x, x ∈ G ↔ x ∈ G') :
    pruneLinks G s = pruneLinks G' s := by
  rw [pruneLinks_group k G s hG, pruneLinks_group k G' s hG']
  congr 1
  apply nodup_length_eq _ _ (nodup_fresh _ _) (nodup_fresh _ _)
  intro j
  rw [mem_fresh, mem_fresh]
  have : j ∈ G.map (·.2) ↔ j ∈ G'.map (·.2) := by
    simp only [List.mem_map]
    constructor
    · rintro ⟨x, hx, rfl⟩; exact ⟨x, (h x).1 hx, rfl⟩
    · rintro ⟨x, hx, rfl⟩; exact ⟨x, (h x).2 hx, rfl⟩
  rw [this]

include htot in
/-- a weakly sorted list whose keys are all at least `k`: the names of `k` come first -/
theorem ws_split (k : Path) (L : List (Path × Nat)) (h : WS klt L) (hk : ∀ x ∈ L, klt x.1 k = false) :
    L = L.filter (fun x => x.1 == k) ++ L.filter (fun x => x.1 != k) := by
  unfold WS at h
  induction L with
  | nil => rfl
  | cons a L1 ih =>
    rw [List.pairwise_cons] at h
    have hk1 : ∀ x ∈ L1, klt x.1 k = false := fun x hx => hk x (List.mem_cons_of_mem _ hx)
    by_cases ha : a.1 = k
    · have e1 : (a.1 == k) = true := by simpa using ha
      have e2 : (a.1 != k) = false := by simpa using ha
      rw [List.filter_cons, List.filter_cons, e1, e2]
      simp only [if_true, Bool.false_eq_true, if_false, List.cons_append]
      congr 1
      exact ih h.2 hk1
    · have e1 : (a.1 == k) = false := by simpa using ha
      have e2 : (a.1 != k) = true := by simpa using ha
      have hka : klt k a.1 = true := by
        rcases htot k a.1 (fun h => ha h.symm) with h' | h'
        · exact h'
        · rw [hk a List.mem_cons_self] at h'; cases h'
      have hne : ∀ x ∈ L1, x.1 ≠ k := by
        intro x hx he
        have := h.1 x hx
        rw [he, hka] at this; cases this
      have f1 : L1.filter (fun x => x.1 == k) = [] := by
        rw [List.filter_eq_nil_iff]
        intro x hx
        simpa using hne x hx
      have f2 : L1.filter (fun x => x.1 != k) = L1 := by
        rw [List.filter_eq_self]
        intro x hx
        simpa using hne x hx
      rw [List.filter_cons, List.filter_cons, e1, e2, f1, f2]
      simp

include hirr htot in
theorem pruneLinks_ws_ext (n : Nat) : ∀ (L L' : List (Path × Nat)) (s : List Nat), L.length ≤ n →
    WS klt L → WS klt L' → (∀ x, x ∈ L ↔ x ∈ L') → pruneLinks L s = pruneLinks L' s := by
  induction n with
  | zero =>
    intro L L' s hn _ _ hm
    have : L = [] := List.eq_nil_of_length_eq_zero (by omega)
    subst this
    cases L' with
    | nil => rfl
    | cons b _ => exact absurd ((hm b).2 List.mem_cons_self) (by simp)
  | succ n ih =>
    intro L L' s hn hw hw' hm
    cases L with
    | nil =>
      cases L' with
      | nil => rfl
      | cons b _ => exact absurd ((hm b).2 List.mem_cons_self) (by simp)
    | cons a L1 =>
      -- `a.1` is the least key of both lists
      have hmin : ∀ x ∈ a :: L1, klt x.1 a.1 = false := by
        intro x hx
        rcases List.mem_cons.1 hx with rfl | hx
        · exact hirr _
        · exact (List.pairwise_cons.1 hw).1 x hx
      have hmin' : ∀ x ∈ L', klt x.1 a.1 = false := fun x hx => hmin x ((hm x).2 hx)
      have e := ws_split klt htot a.1 (a :: L1) hw hmin
      have e' := ws_split klt htot a.1 L' hw' hmin'
      rw [e, e', pruneLinks_append, pruneLinks_append]
      have hG : ∀ x, x ∈ (a :: L1).filter (fun x => x.1 == a.1) ↔ x ∈ L'.filter (fun x => x.1 == a.1) := by
        intro x; rw [List.mem_filter, List.mem_filter, hm x]
      have hR : ∀ x, x ∈ (a :: L1).filter (fun x => x.1 != a.1) ↔ x ∈ L'.filter (fun x => x.1 != a.1) := by
        intro x; rw [List.mem_filter, List.mem_filter, hm x]
      have g1 := pruneLinks_group_ext a.1 _ _ s
        (fun x hx => by simpa using (List.mem_filter.1 hx).2)
        (fun x hx => by simpa using (List.mem_filter.1 hx).2) hG
      rw [g1]
      congr 1
      have hlen : ((a :: L1).filter (fun x => x.1 != a.1)).length ≤ n := by
        have : (a :: L1).filter (fun x => x.1 != a.1) = L1.filter (fun x => x.1 != a.1) := by
          rw [List.filter_cons]; simp
        rw [this]
        have := List.length_filter_le (fun x : Path × Nat => x.1 != a.1) L1
        simp only [List.length_cons] at hn
        omega
      rw [ih _ _ _ hlen (hw.sublist List.filter_sublist) (hw'.sublist List.filter_sublist) hR]
      apply pruneLinks_seen_congr
      intro j
      simp only [List.mem_append, List.mem_map]
      constructor
      · rintro (⟨x, hx, rfl⟩ | h)
        · exact .inl ⟨x, (hG x).1 hx, rfl⟩
        · exact .inr h
      · rintro (⟨x, hx, rfl⟩ | h)
        · exact .inl ⟨x, (hG x).2 hx, rfl⟩
        · exact .inr h

end anyMap

/-- S2 without any hypothesis: the canonical candidate order depends only on the set of members -/
theorem canonical_ext_any (e : TEntry) (m m' : List (Path × Nat)) (h : ∀ x, x ∈ m ↔ x ∈ m') :
    canonicalSearches e m = canonicalSearches e m' := by
  unfold canonicalSearches
  simp only
  let sim := fun p => similarity p e.partialTarget e.fullTarget
  show pruneLinks (sortBy (fun (a b : Path × Nat) => keyLt sim a.1 b.1) m) [] =
       pruneLinks (sortBy (fun (a b : Path × Nat) => keyLt sim a.1 b.1) m') []
  apply pruneLinks_ws_ext (keyLt sim) (keyLt_irrefl sim)
    (fun a b => keyLt_total sim) _ _ _ _ (Nat.le_refl _)
    (sortBy_ws _ (keyLt_irrefl sim) (fun a b c => keyLt_trans sim) m)
    (sortBy_ws _ (keyLt_irrefl sim) (fun a b c => keyLt_trans sim) m')
  intro x
  rw [mem_sortBy, mem_sortBy]
  exact h x


/-- with nothing observed, `populateSearches` needs no well-formedness of the caches at all -/
theorem populate_congr_nil (c c' : Cache)
    (hhas : ∀ l, CHas c l ↔ CHas c' l) (hmem : ∀ l p i, CMem c l p i ↔ CMem c' l p i) (table : List TEntry) :
    populateSearches c [] table = populateSearches c' [] table := by
  induction table with
  | nil => rfl
  | cons e es ih =>
    rw [populateSearches, populateSearches, ih]
    by_cases hp : e.isPad = true
    · simp [hp]
    · simp only [hp, Bool.false_eq_true, if_false]
      cases hc : cacheGet c e.fileLength with
      | none =>
        cases hc' : cacheGet c' e.fileLength with
        | none => rfl
        | some m' =>
          have := (hhas e.fileLength).2 (by unfold CHas; rw [hc']; rfl)
          unfold CHas at this; rw [hc] at this; cases this
      | some m =>
        cases hc' : cacheGet c' e.fileLength with
        | none =>
          have := (hhas e.fileLength).1 (by unfold CHas; rw [hc]; rfl)
          unfold CHas at this; rw [hc'] at this; cases this
        | some m' =>
          have hmm : ∀ x, x ∈ m ↔ x ∈ m' := by
            rintro ⟨p, i⟩
            have := hmem e.fileLength p i
            unfold CMem at this
            rw [hc, hc'] at this
            simpa using this
          simp only [List.find?_nil, Option.map_none, canonical_ext_any e m m' hmm]

end TB.RunS
