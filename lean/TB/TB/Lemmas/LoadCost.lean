/-
  Helper lemmas for C09loadcost.
  Part 1 (`*_fst`): the first component of every step-counting loader function is the original model function.
  Part 2: a weight `tokSize` of token trees (bytes of the strings + 2 per node, 3 per integer) that is at most the
    length of the encoding, hence (C08 soundness) at most the length of the decoded input.
  Part 3 (`*_cost`): every loader step is paid by the weight of the dictionary / list it works on.
-/
import TB.Spec.LoadCost
import TB.Lemmas.Cost
import TB.Lemmas.Torrent
namespace TB.LoadCostL
open TB TB.Cost TB.LoadCost

/-! ### Part 1: faithfulness -/

theorem findValueC_fst : ∀ (ks : List StrTok) (vs : List Tok) (key : Bytes),
    (findValueC ks vs key).1 = findValue ks vs key := by
  intro ks
  induction ks with
  | nil => intro vs key; rfl
  | cons k ks ih =>
    intro vs key
    rcases vs with _ | ⟨v, vs⟩
    · rfl
    · simp only [findValueC, findValue, apply_ite Prod.fst, ih]

theorem findDictC_fst (ks : List StrTok) (vs : List Tok) (key : Bytes) :
    (findDictC ks vs key).1 = findDict ks vs key := by
  unfold findDictC findDict
  rw [← findValueC_fst]
  rcases findValueC ks vs key with ⟨_ | t, n⟩
  · rfl
  · cases t <;> rfl

theorem findListC_fst (ks : List StrTok) (vs : List Tok) (key : Bytes) :
    (findListC ks vs key).1 = findList ks vs key := by
  unfold findListC findList
  rw [← findValueC_fst]
  rcases findValueC ks vs key with ⟨_ | t, n⟩
  · rfl
  · cases t <;> rfl

theorem findIntC_fst (ks : List StrTok) (vs : List Tok) (key : Bytes) :
    (findIntC ks vs key).1 = findInt ks vs key := by
  unfold findIntC findInt
  rw [← findValueC_fst]
  rcases findValueC ks vs key with ⟨_ | t, n⟩
  · rfl
  · cases t <;> rfl

theorem findStrC_fst (ks : List StrTok) (vs : List Tok) (key : Bytes) :
    (findStrC ks vs key).1 = findStr ks vs key := by
  unfold findStrC findStr
  rw [← findValueC_fst]
  rcases findValueC ks vs key with ⟨_ | t, n⟩
  · rfl
  · cases t <;> rfl

theorem chunks20C_fst : ∀ (n : Nat) (bs : Bytes), (chunks20C n bs).1 = chunks20 n bs := by
  intro n
  induction n with
  | zero => intro bs; rfl
  | succ n ih => intro bs; simp only [chunks20C, chunks20, apply_ite Prod.fst, ih]

theorem pathStringsC_fst : ∀ items : List Tok, (pathStringsC items).1 = pathStrings items := by
  intro items
  induction items with
  | nil => rfl
  | cons t ts ih =>
    cases t with
    | str t =>
      simp only [pathStringsC, pathStrings, ← ih]
      split
      · rcases pathStringsC ts with ⟨_ | ps, n⟩ <;> rfl
      · rfl
    | int v s c => rfl
    | list l s c => rfl
    | dict k v s c => rfl

theorem allPlainC_fst : ∀ ps : List Bytes, (allPlainC ps).1 = ps.all plainComponent := by
  intro ps
  induction ps with
  | nil => rfl
  | cons s rest ih =>
    simp only [allPlainC, List.all_cons]
    split
    · rename_i h; simp only [h, ih, Bool.true_and]
    · rename_i h; simp only [Bool.not_eq_true] at h; simp only [h, Bool.false_and]

theorem evaluateFileC_fst (ks : List StrTok) (vs : List Tok) :
    (evaluateFileC ks vs).1 = evaluateFile ks vs := by
  unfold evaluateFileC evaluateFile
  simp only [← findIntC_fst, ← findListC_fst, ← pathStringsC_fst, ← allPlainC_fst]
  rcases findIntC ks vs kLength with ⟨_ | lv, n1⟩
  · rfl
  · simp only []
    rcases toU64 lv with _ | len
    · rfl
    · simp only []
      have key : ∀ (items : List Tok) (n2 : Nat),
          (match pathStringsC items with
            | (none, n3) => ((Res.err : Res FileRec), n1 + 1 + n2 + n3)
            | (some ps, n3) =>
              if ps.isEmpty = true then (Res.err, n1 + 1 + n2 + n3 + 1)
              else if (!(allPlainC ps).fst) = true then (Res.err, n1 + 1 + n2 + n3 + 1 + (allPlainC ps).snd)
              else (Res.ok ⟨len, ps⟩, n1 + 1 + n2 + n3 + 1 + (allPlainC ps).snd)).1 =
          (match (pathStringsC items).fst with
            | none => Res.err
            | some ps =>
              if ps.isEmpty = true then Res.err
              else if (!(allPlainC ps).fst) = true then Res.err else Res.ok ⟨len, ps⟩) := by
        intro items n2
        rcases pathStringsC items with ⟨_ | ps, n3⟩
        · rfl
        · simp only []
          split
          · rfl
          · split <;> rfl
      rcases findListC ks vs kPathUtf8 with ⟨_ | l, n2⟩
      · simp only []
        rcases findListC ks vs kPath with ⟨_ | l', n2'⟩
        · rfl
        · exact key _ _
      · exact key _ _

theorem evaluateFilesC_fst : ∀ items : List Tok, (evaluateFilesC items).1 = evaluateFiles items := by
  intro items
  induction items with
  | nil => rfl
  | cons t ts ih =>
    cases t with
    | dict ks vs s c =>
      simp only [evaluateFilesC, evaluateFiles, ← evaluateFileC_fst]
      rcases evaluateFileC ks vs with ⟨r, n⟩
      rcases r with f | _ | _
      · simp only [← ih]
        rcases evaluateFilesC ts with ⟨r2, m⟩
        rcases r2 with fs | _ | _ <;> rfl
      · rfl
      · rfl
    | str t => rfl
    | int v s c => rfl
    | list l s c => rfl

set_option hygiene false in
/-- the part of `evaluateInfoC_fst` below the choice of the name (used twice) -/
local macro "infoC_rest" : tactic => `(tactic| (
    split
    · rfl
    · split
      · rfl
      · rcases o3 with ⟨_ | pieces, c2⟩
        · rfl
        · simp only []
          split
          · rfl
          · rcases o4 with ⟨_ | plv, c4⟩
            · rfl
            · simp only []
              rcases toU64 plv with _ | pl
              · rfl
              · simp only []
                rcases o5 with ⟨_ | lv, c5⟩ <;> rcases o6 with ⟨_ | items, c6⟩ <;> simp only []
                · rcases evaluateFilesC items with ⟨r, c7⟩
                  rcases r with fs | _ | _
                  · simp only []
                    split
                    · rfl
                    · split <;> rfl
                  · rfl
                  · rfl
                · rcases toU64 lv with _ | l
                  · rfl
                  · simp only []
                    split <;> rfl))

theorem evaluateInfoC_fst (ks : List StrTok) (vs : List Tok) :
    (evaluateInfoC ks vs).1 = evaluateInfo ks vs := by
  unfold evaluateInfoC evaluateInfo
  simp only [← findStrC_fst, ← findIntC_fst, ← findListC_fst, ← chunks20C_fst, ← evaluateFilesC_fst]
  generalize findStrC ks vs kNameUtf8 = o1
  generalize findStrC ks vs kName = o2
  generalize findStrC ks vs kPieces = o3
  generalize findIntC ks vs kPieceLength = o4
  generalize findIntC ks vs kLength = o5
  generalize findListC ks vs kFiles = o6
  rcases o1 with ⟨_ | name, c0⟩
  · rcases o2 with ⟨_ | name, c0'⟩
    · rfl
    · simp only []
      infoC_rest
  · simp only []
    infoC_rest

theorem loadC_fst (H : Bytes → Bytes) (inp : Bytes) : (loadC H inp).1 = load H inp := by
  unfold loadC load
  simp only [← decodeC_fst, ← findDictC_fst, ← evaluateInfoC_fst]
  rcases decodeC inp with ⟨r, n⟩
  rcases r with t | _ | _
  · cases t with
    | dict rks rvs s0 c0 =>
      simp only []
      rcases findDictC rks rvs kInfo with ⟨_ | ⟨iks, ivs, s, c⟩, m⟩
      · rfl
      · simp only []
        rcases sliceRes inp s c with ib | _ | _
        · simp only []
          rcases evaluateInfoC iks ivs with ⟨r2, k⟩
          rcases r2 with info | _ | _ <;> rfl
        · rfl
        · rfl
    | str t => rfl
    | int v s c => rfl
    | list l s c => rfl
  · rfl
  · rfl

/-! ### Part 2: the weight of a token tree -/

mutual
/-- weight of a token tree: bytes of its strings, 2 per string / list / dictionary node, 3 per integer -/
def tokSize : Tok → Nat
  | .str t => t.val.length + 2
  | .int _ _ _ => 3
  | .list items _ _ => listSize items + 2
  | .dict ks vs _ _ => dictSize ks vs + 2
def listSize : List Tok → Nat
  | [] => 0
  | t :: ts => tokSize t + listSize ts
/-- only the zipped part counts, as in `find_value` and `erase` -/
def dictSize : List StrTok → List Tok → Nat
  | k :: ks, v :: vs => (k.val.length + 2) + tokSize v + dictSize ks vs
  | _, _ => 0
end

theorem encodeStr_length (s : Bytes) : s.length + 2 ≤ (encodeStr s).length := by
  have := natDigits_length_pos s.length
  simp only [encodeStr, List.length_append, List.length_cons, List.length_nil]
  omega

theorem encodeInt_length (v : Int) : 3 ≤ (encodeInt v).length := by
  have := natDigits_length_pos v.natAbs
  unfold encodeInt
  split <;> simp only [List.length_append, List.length_cons, List.length_nil] <;> omega

mutual
theorem tokSize_le : ∀ t : Tok, tokSize t ≤ (encode (erase t)).length
  | .str t => by simp only [tokSize, erase, encode]; exact encodeStr_length _
  | .int v _ _ => by simp only [tokSize, erase, encode]; exact encodeInt_length _
  | .list items _ _ => by
    have := listSize_le items
    simp only [tokSize, erase, encode, List.length_append, List.length_cons, List.length_nil]
    omega
  | .dict ks vs _ _ => by
    have := dictSize_le ks vs
    simp only [tokSize, erase, encode, List.length_append, List.length_cons, List.length_nil]
    omega
theorem listSize_le : ∀ ts : List Tok, listSize ts ≤ (encodeList (eraseList ts)).length
  | [] => by simp [listSize]
  | t :: ts => by
    have h1 := tokSize_le t
    have h2 := listSize_le ts
    simp only [listSize, eraseList, encodeList, List.length_append]
    omega
theorem dictSize_le : ∀ (ks : List StrTok) (vs : List Tok), dictSize ks vs ≤ (encodeDict (eraseDict ks vs)).length
  | [], _ => by simp [dictSize]
  | _ :: _, [] => by simp [dictSize]
  | k :: ks, v :: vs => by
    have h1 := tokSize_le v
    have h2 := dictSize_le ks vs
    have h3 := encodeStr_length k.val
    simp only [dictSize, eraseDict, encodeDict, List.length_append]
    omega
end

/-- the weight of an accepted tree is at most the length of the input -/
theorem tokSize_le_input {inp : Bytes} {t : Tok} (h : decode inp = .ok t) : tokSize t ≤ inp.length := by
  have := (C08_sound inp t h).2.1
  rw [← this]
  exact tokSize_le t

/-! ### Part 3: cost -/

theorem eqCost_le (a b : Bytes) : eqCost a b ≤ a.length + 1 := by
  unfold eqCost; omega

/-- a lookup is paid by the keys it walks over -/
theorem findValueC_cost : ∀ (ks : List StrTok) (vs : List Tok) (key : Bytes),
    (findValueC ks vs key).2 ≤ dictSize ks vs + 1 := by
  intro ks
  induction ks with
  | nil => intro vs key; simp [findValueC]
  | cons k ks ih =>
    intro vs key
    rcases vs with _ | ⟨v, vs⟩
    · simp [findValueC]
    · have h1 := ih vs key
      have h2 := eqCost_le k.val key
      simp only [findValueC, dictSize]
      split <;> simp only [] <;> omega

theorem findDictC_cost (ks : List StrTok) (vs : List Tok) (key : Bytes) :
    (findDictC ks vs key).2 ≤ dictSize ks vs + 1 := by
  have h : (findDictC ks vs key).2 = (findValueC ks vs key).2 := by
    unfold findDictC
    rcases findValueC ks vs key with ⟨_ | t, n⟩
    · rfl
    · cases t <;> rfl
  rw [h]; exact findValueC_cost ks vs key

theorem findListC_cost (ks : List StrTok) (vs : List Tok) (key : Bytes) :
    (findListC ks vs key).2 ≤ dictSize ks vs + 1 := by
  have h : (findListC ks vs key).2 = (findValueC ks vs key).2 := by
    unfold findListC
    rcases findValueC ks vs key with ⟨_ | t, n⟩
    · rfl
    · cases t <;> rfl
  rw [h]; exact findValueC_cost ks vs key

theorem findIntC_cost (ks : List StrTok) (vs : List Tok) (key : Bytes) :
    (findIntC ks vs key).2 ≤ dictSize ks vs + 1 := by
  have h : (findIntC ks vs key).2 = (findValueC ks vs key).2 := by
    unfold findIntC
    rcases findValueC ks vs key with ⟨_ | t, n⟩
    · rfl
    · cases t <;> rfl
  rw [h]; exact findValueC_cost ks vs key

theorem findStrC_cost (ks : List StrTok) (vs : List Tok) (key : Bytes) :
    (findStrC ks vs key).2 ≤ dictSize ks vs + 1 := by
  have h : (findStrC ks vs key).2 = (findValueC ks vs key).2 := by
    unfold findStrC
    rcases findValueC ks vs key with ⟨_ | t, n⟩
    · rfl
    · cases t <;> rfl
  rw [h]; exact findValueC_cost ks vs key

/-- a value found in a dictionary weighs (with its key) at most the dictionary -/
theorem findValue_size : ∀ (ks : List StrTok) (vs : List Tok) (key : Bytes) (t : Tok),
    findValue ks vs key = some t → tokSize t + 2 ≤ dictSize ks vs := by
  intro ks
  induction ks with
  | nil => intro vs key t h; simp [findValue] at h
  | cons k ks ih =>
    intro vs key t h
    rcases vs with _ | ⟨v, vs⟩
    · simp [findValue] at h
    · simp only [findValue] at h
      simp only [dictSize]
      split at h
      · cases h; omega
      · have := ih vs key t h; omega

theorem findList_size {ks : List StrTok} {vs : List Tok} {key : Bytes} {items : List Tok}
    (h : findList ks vs key = some items) : listSize items + 4 ≤ dictSize ks vs := by
  unfold findList at h
  rcases hv : findValue ks vs key with _ | t
  · rw [hv] at h; cases h
  · rw [hv] at h
    cases t with
    | list l s c =>
      simp only [Option.some.injEq] at h
      subst h
      have := findValue_size ks vs key _ hv
      simp only [tokSize] at this
      omega
    | str t => cases h
    | int v s c => cases h
    | dict k v s c => cases h

theorem findStr_size {ks : List StrTok} {vs : List Tok} {key : Bytes} {x : Bytes}
    (h : findStr ks vs key = some x) : x.length + 4 ≤ dictSize ks vs := by
  unfold findStr at h
  rcases hv : findValue ks vs key with _ | t
  · rw [hv] at h; cases h
  · rw [hv] at h
    cases t with
    | str t =>
      simp only [Option.some.injEq] at h
      subst h
      have := findValue_size ks vs key _ hv
      simp only [tokSize] at this
      omega
    | list l s c => cases h
    | int v s c => cases h
    | dict k v s c => cases h

theorem findDict_size {ks : List StrTok} {vs : List Tok} {key : Bytes} {r : List StrTok × List Tok × Nat × Nat}
    (h : findDict ks vs key = some r) : dictSize r.1 r.2.1 + 4 ≤ dictSize ks vs := by
  have := findValue_size ks vs key _ (findDict_eq_some.1 h)
  simp only [tokSize] at this
  omega

/-- weight of a list of strings: one per string plus its bytes -/
def strsSize : List Bytes → Nat
  | [] => 0
  | s :: r => s.length + 1 + strsSize r

theorem pathStringsC_cost : ∀ items : List Tok,
    (pathStringsC items).2 ≤ listSize items + 1 ∧
    ∀ ps, (pathStringsC items).1 = some ps → strsSize ps ≤ listSize items := by
  intro items
  induction items with
  | nil =>
    refine ⟨by simp [pathStringsC], ?_⟩
    intro ps h
    simp only [pathStringsC, Option.some.injEq] at h
    subst h; simp [strsSize]
  | cons t ts ih =>
    cases t with
    | str t =>
      simp only [pathStringsC, listSize, tokSize, compCost]
      split
      · rcases hp : pathStringsC ts with ⟨_ | ps, n⟩
        · rw [hp] at ih
          refine ⟨by have := ih.1; simp only [] at this ⊢; omega, ?_⟩
          intro ps h; cases h
        · rw [hp] at ih
          refine ⟨by have := ih.1; simp only [] at this ⊢; omega, ?_⟩
          intro ps' h
          simp only [Option.some.injEq] at h
          subst h
          have := ih.2 ps rfl
          simp only [strsSize]; omega
      · refine ⟨by simp only []; omega, ?_⟩
        intro ps h; cases h
    | int v s c =>
      refine ⟨by simp only [pathStringsC]; omega, ?_⟩
      intro ps h; cases h
    | list l s c =>
      refine ⟨by simp only [pathStringsC]; omega, ?_⟩
      intro ps h; cases h
    | dict k v s c =>
      refine ⟨by simp only [pathStringsC]; omega, ?_⟩
      intro ps h; cases h

theorem allPlainC_cost : ∀ ps : List Bytes, (allPlainC ps).2 ≤ strsSize ps + 1 := by
  intro ps
  induction ps with
  | nil => simp [allPlainC]
  | cons s rest ih =>
    simp only [allPlainC, strsSize, compCost]
    split <;> simp only [] <;> omega

theorem chunks20C_cost : ∀ (n : Nat) (bs : Bytes), (chunks20C n bs).2 ≤ 2 * bs.length + 1 := by
  intro n
  induction n with
  | zero => intro bs; simp [chunks20C]
  | succ n ih =>
    intro bs
    simp only [chunks20C]
    split
    · simp only []; omega
    · rename_i hne
      have h1 := ih (bs.drop 20)
      have h2 : 0 < bs.length := by
        rcases bs with _ | ⟨b, r⟩
        · simp at hne
        · simp
      simp only [List.length_drop, List.length_take] at h1 ⊢
      omega

theorem findListC_size {ks : List StrTok} {vs : List Tok} {key : Bytes} {items : List Tok} {n : Nat}
    (h : findListC ks vs key = (some items, n)) : listSize items + 4 ≤ dictSize ks vs ∧ n ≤ dictSize ks vs + 1 := by
  have h1 := findListC_fst ks vs key
  have h2 := findListC_cost ks vs key
  rw [h] at h1 h2
  exact ⟨findList_size h1.symm, h2⟩

/-- one file record: three lookups and two passes over the path, all paid by the record's dictionary -/
theorem evaluateFileC_cost (ks : List StrTok) (vs : List Tok) :
    (evaluateFileC ks vs).2 ≤ 5 * dictSize ks vs + 4 := by
  unfold evaluateFileC
  have hI := findIntC_cost ks vs kLength
  have h1 := findListC_cost ks vs kPathUtf8
  have h2 := findListC_cost ks vs kPath
  rcases hi : findIntC ks vs kLength with ⟨_ | lv, n1⟩
  · rw [hi] at hI; simp only [] at hI ⊢; omega
  · rw [hi] at hI; simp only [] at hI ⊢
    rcases toU64 lv with _ | len
    · simp only []; omega
    · simp only []
      have key : ∀ (items : List Tok) (n2 : Nat), listSize items + 4 ≤ dictSize ks vs →
          n2 ≤ 2 * dictSize ks vs + 2 →
          (match pathStringsC items with
            | (none, n3) => ((Res.err : Res FileRec), n1 + 1 + n2 + n3)
            | (some ps, n3) =>
              if ps.isEmpty = true then (Res.err, n1 + 1 + n2 + n3 + 1)
              else if (!(allPlainC ps).fst) = true then (Res.err, n1 + 1 + n2 + n3 + 1 + (allPlainC ps).snd)
              else (Res.ok ⟨len, ps⟩, n1 + 1 + n2 + n3 + 1 + (allPlainC ps).snd)).2
            ≤ 5 * dictSize ks vs + 4 := by
        intro items n2 hsz hn2
        have hp := pathStringsC_cost items
        rcases hps : pathStringsC items with ⟨_ | ps, n3⟩
        · rw [hps] at hp
          have := hp.1
          simp only [] at this ⊢; omega
        · rw [hps] at hp
          have hp1 := hp.1
          have hp2 := hp.2 ps rfl
          have ha := allPlainC_cost ps
          simp only [] at hp1 ⊢
          split
          · simp only []; omega
          · split <;> simp only [] <;> omega
      rcases hl1 : findListC ks vs kPathUtf8 with ⟨_ | l, n2⟩
      · rw [hl1] at h1
        simp only [] at h1 ⊢
        rcases hl2 : findListC ks vs kPath with ⟨_ | l', n2'⟩
        · rw [hl2] at h2
          simp only [] at h2 ⊢; omega
        · have := findListC_size hl2
          exact key _ _ this.1 (by omega)
      · have := findListC_size hl1
        exact key _ _ this.1 (by omega)

theorem evaluateFilesC_cost : ∀ items : List Tok,
    (evaluateFilesC items).2 ≤ 5 * listSize items + 1 ∧
    ∀ fs, (evaluateFilesC items).1 = .ok fs → 2 * fs.length ≤ listSize items := by
  intro items
  induction items with
  | nil =>
    refine ⟨by simp [evaluateFilesC], ?_⟩
    intro fs h
    simp only [evaluateFilesC, Res.ok.injEq] at h
    subst h; simp
  | cons t ts ih =>
    cases t with
    | dict ks vs s c =>
      have hf := evaluateFileC_cost ks vs
      simp only [evaluateFilesC, listSize, tokSize]
      rcases he : evaluateFileC ks vs with ⟨r, n⟩
      rw [he] at hf
      rcases r with f | _ | _
      · simp only [] at hf ⊢
        rcases hr : evaluateFilesC ts with ⟨r2, m⟩
        rw [hr] at ih
        have ih1 := ih.1
        simp only [] at ih1
        rcases r2 with fs | _ | _
        · refine ⟨by simp only []; omega, ?_⟩
          intro fs' h
          simp only [Res.ok.injEq] at h
          subst h
          have := ih.2 fs rfl
          simp only [List.length_cons]; omega
        · exact ⟨by simp only []; omega, by intro fs h; cases h⟩
        · exact ⟨by simp only []; omega, by intro fs h; cases h⟩
      · exact ⟨by simp only [] at hf ⊢; omega, by intro fs h; cases h⟩
      · exact ⟨by simp only [] at hf ⊢; omega, by intro fs h; cases h⟩
    | str t => exact ⟨by simp only [evaluateFilesC]; omega, by intro fs h; cases h⟩
    | int v s c => exact ⟨by simp only [evaluateFilesC]; omega, by intro fs h; cases h⟩
    | list l s c => exact ⟨by simp only [evaluateFilesC]; omega, by intro fs h; cases h⟩

theorem findStrC_fact (ks : List StrTok) (vs : List Tok) (key : Bytes) :
    (findStrC ks vs key).2 ≤ dictSize ks vs + 1 ∧
    ∀ x, (findStrC ks vs key).1 = some x → x.length + 4 ≤ dictSize ks vs :=
  ⟨findStrC_cost ks vs key, fun _ h => findStr_size ((findStrC_fst ks vs key).symm.trans h)⟩

theorem findListC_fact (ks : List StrTok) (vs : List Tok) (key : Bytes) :
    (findListC ks vs key).2 ≤ dictSize ks vs + 1 ∧
    ∀ x, (findListC ks vs key).1 = some x → listSize x + 4 ≤ dictSize ks vs :=
  ⟨findListC_cost ks vs key, fun _ h => findList_size ((findListC_fst ks vs key).symm.trans h)⟩

set_option hygiene false in
/-- the part of `evaluateInfoC_cost` below the choice of the name (used twice) -/
local macro "infoC_cost_rest" : tactic => `(tactic| (
    split
    · simp only [compCost]; omega
    · split
      · simp only [compCost]; omega
      · rcases o3 with ⟨_ | pieces, c2⟩
        · have := f3.1; simp only [compCost] at this ⊢; omega
        · have h31 := f3.1
          have h32 := f3.2 pieces rfl
          have hch := chunks20C_cost (pieces.length / 20 + 1) pieces
          simp only [] at h31 h32 ⊢
          split
          · simp only [compCost]; omega
          · rcases o4 with ⟨_ | plv, c4⟩
            · simp only [compCost] at f4 ⊢; omega
            · simp only [] at f4 ⊢
              rcases toU64 plv with _ | pl
              · simp only [compCost]; omega
              · simp only []
                rcases o5 with ⟨_ | lv, c5⟩ <;> rcases o6 with ⟨_ | items, c6⟩ <;> simp only [] at f5 ⊢
                · have := f6.1; simp only [compCost] at this ⊢; omega
                · have h61 := f6.1
                  have h62 := f6.2 items rfl
                  have hev := evaluateFilesC_cost items
                  simp only [] at h61 h62
                  rcases hr : evaluateFilesC items with ⟨r, c7⟩
                  rw [hr] at hev
                  have hev1 := hev.1
                  simp only [] at hev1
                  rcases r with fs | _ | _
                  · have hev2 := hev.2 fs rfl
                    simp only [compCost]
                    split
                    · simp only []; omega
                    · split <;> simp only [] <;> omega
                  · simp only [compCost]; omega
                  · simp only [compCost]; omega
                · have := f6.1
                  simp only [] at this
                  rcases toU64 lv with _ | l
                  · simp only [compCost]; omega
                  · simp only [compCost]
                    split <;> simp only [] <;> omega
                · have := f6.1; simp only [compCost] at this ⊢; omega))

/-- `evaluate_info`: at most six lookups, two passes over the name, the hash split, the file records — all paid by
    the weight of the info dictionary -/
theorem evaluateInfoC_cost (ks : List StrTok) (vs : List Tok) :
    (evaluateInfoC ks vs).2 ≤ 16 * dictSize ks vs + 12 := by
  unfold evaluateInfoC
  have f1 := findStrC_fact ks vs kNameUtf8
  have f2 := findStrC_fact ks vs kName
  have f3 := findStrC_fact ks vs kPieces
  have f4 := findIntC_cost ks vs kPieceLength
  have f5 := findIntC_cost ks vs kLength
  have f6 := findListC_fact ks vs kFiles
  generalize findStrC ks vs kNameUtf8 = o1 at f1 ⊢
  generalize findStrC ks vs kName = o2 at f2 ⊢
  generalize findStrC ks vs kPieces = o3 at f3 ⊢
  generalize findIntC ks vs kPieceLength = o4 at f4 ⊢
  generalize findIntC ks vs kLength = o5 at f5 ⊢
  generalize findListC ks vs kFiles = o6 at f6 ⊢
  generalize dictSize ks vs = D at *
  rcases o1 with ⟨_ | name, c0⟩
  · rcases o2 with ⟨_ | name, c0'⟩
    · have h1 := f1.1
      have h2 := f2.1
      simp only [] at h1 h2 ⊢; omega
    · have h1 := f1.1
      have h2 := f2.1
      have hname := f2.2 name rfl
      simp only [] at h1 h2 hname ⊢
      infoC_cost_rest
  · have h1 := f1.1
    have hname := f1.2 name rfl
    simp only [] at h1 hname ⊢
    infoC_cost_rest

theorem sliceRes_length {inp : Bytes} {a b : Nat} {x : Bytes} (h : sliceRes inp a b = .ok x) :
    x.length ≤ inp.length := by
  unfold sliceRes at h
  split at h
  · simp only [Res.ok.injEq] at h
    subst h
    simp only [List.length_take, List.length_drop]; omega
  · cases h

/-- `load`: decoder (2·len + 2), root lookup (≤ len), info record (≤ 16·len), hashing the info slice (≤ len) -/
theorem loadC_cost (H : Bytes → Bytes) (inp : Bytes) : (loadC H inp).2 ≤ 20 * inp.length + 2 := by
  unfold loadC
  have hd := decodeC_cost inp
  have hf := decodeC_fst inp
  rcases hdc : decodeC inp with ⟨r, n⟩
  rw [hdc] at hd hf
  simp only [] at hd hf
  rcases r with t | _ | _
  · have hsz := tokSize_le_input hf.symm
    cases t with
    | dict rks rvs s0 c0 =>
      simp only [tokSize] at hsz ⊢
      have hc := findDictC_cost rks rvs kInfo
      have hfst := findDictC_fst rks rvs kInfo
      rcases hfd : findDictC rks rvs kInfo with ⟨_ | ⟨iks, ivs, s, c⟩, m⟩
      · rw [hfd] at hc
        simp only [] at hc ⊢; omega
      · rw [hfd] at hc hfst
        have hsz2 := findDict_size hfst.symm
        simp only [] at hc hsz2 ⊢
        have hk := evaluateInfoC_cost iks ivs
        rcases hs : sliceRes inp s c with ib | _ | _
        · have hlen := sliceRes_length hs
          simp only []
          rcases hev : evaluateInfoC iks ivs with ⟨r2, k⟩
          rw [hev] at hk
          rcases r2 with info | _ | _ <;> simp only [] at hk ⊢ <;> omega
        · simp only []; omega
        · simp only []; omega
    | str t => simp only []; omega
    | int v s c => simp only []; omega
    | list l s c => simp only []; omega
  · simp only []; omega
  · simp only []; omega

/-! ### sizes of an accepted record (for the end-to-end bound: loader + layout) -/

theorem chunks20_length : ∀ (n : Nat) (bs : Bytes), 20 * (chunks20 n bs).length ≤ bs.length + 19 := by
  intro n
  induction n with
  | zero => intro bs; simp [chunks20]
  | succ n ih =>
    intro bs
    simp only [chunks20]
    split
    · simp
    · rename_i hne
      have h1 := ih (bs.drop 20)
      have h2 : 0 < bs.length := by
        rcases bs with _ | ⟨b, r⟩
        · simp at hne
        · simp
      simp only [List.length_drop, List.length_cons] at h1 ⊢
      omega

theorem chunks_found {ks : List StrTok} {vs : List Tok} {key p : Bytes} {n : Nat}
    (h : findStr ks vs key = some p) : 20 * (chunks20 n p).length ≤ dictSize ks vs + 15 := by
  have h1 := findStr_size h
  have h2 := chunks20_length n p
  omega

theorem files_found {ks : List StrTok} {vs : List Tok} {key : Bytes} {items : List Tok} {fs : List FileRec}
    (h : findList ks vs key = some items) (he : evaluateFiles items = .ok fs) :
    2 * fs.length + 4 ≤ dictSize ks vs := by
  have h1 := findList_size h
  have h2 := (evaluateFilesC_cost items).2 fs ((evaluateFilesC_fst items).trans he)
  omega

/-- an accepted info record has at most `(D + 15) / 20` hashes and `(D - 4) / 2` files, `D` the weight of its
    dictionary -/
theorem evaluateInfo_sizes (ks : List StrTok) (vs : List Tok) (info : Info) (h : evaluateInfo ks vs = .ok info) :
    20 * info.pieces.length ≤ dictSize ks vs + 15 ∧ 2 * (info.files.getD []).length + 4 ≤ dictSize ks vs := by
  unfold evaluateInfo at h
  simp only [] at h
  repeat' split at h
  all_goals first | contradiction | skip
  all_goals cases h
  all_goals simp only [Option.getD_none, Option.getD_some, List.length_nil]
  · refine ⟨chunks_found ‹_›, ?_⟩
    have := findStr_size ‹findStr ks vs kPieces = some _›
    omega
  · exact ⟨chunks_found ‹_›, files_found ‹findList ks vs kFiles = some _› ‹_›⟩

/-- the same in terms of the input: at most `len / 20` hashes and `len / 2` files -/
theorem load_sizes {H : Bytes → Bytes} {inp : Bytes} {T : Torrent} (h : load H inp = .ok T) :
    20 * T.info.pieces.length + 2 * (T.info.files.getD []).length ≤ 2 * inp.length := by
  obtain ⟨rks, rvs, s0, c0, iks, ivs, s, c, info, hd, _, _, hf, _, _, _, hs, hT⟩ := load_ok_struct h
  have h1 := tokSize_le_input hd
  have h2 := findValue_size rks rvs kInfo _ hf
  have h3 := evaluateInfo_sizes iks ivs info ((evaluateInfo_ok_iff iks ivs info).2 hs)
  subst hT
  simp only [tokSize] at h1 h2
  simp only []
  omega

end TB.LoadCostL
