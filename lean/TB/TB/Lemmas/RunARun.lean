/-
  Helper lemmas about the orchestrator part of TB.Model.Run: pre-flight passes, table with searches,
  work items, evaluation order, whole run.
-/
import TB.Lemmas.Run
import TB.Lemmas.RunATable
namespace TB

/-! ### validation, resize passes, export paths -/

theorem validatePath_ext (st : St) (a : PathArg) : Ext (fun o => o.kind = .stat) st (validatePath st a).1 := by
  unfold validatePath
  split
  · exact Ext.refl _
  rcases h1 : st.op .stat a.path _ with ⟨st1, ok1⟩
  have e1 : Ext (fun o => o.kind = .stat) st st1 := St.op_ext' h1 (fun _ => rfl)
  simp only []
  split
  · exact e1
  split <;> exact e1

theorem validateAll_ext (st : St) (as : List PathArg) : Ext (fun o => o.kind = .stat) st (validateAll st as).1 := by
  induction as generalizing st with
  | nil => exact Ext.refl _
  | cons a as ih =>
    unfold validateAll
    have e1 := validatePath_ext st a
    split
    · rename_i st1 h; rw [h] at e1; exact e1.trans (ih st1)
    · rename_i st1 h; rw [h] at e1; exact e1

theorem resizePass1_ext (st : St) (es : List TEntry) : Ext (fun o => o.kind = .openr) st (resizePass1 st es).1 := by
  induction es generalizing st with
  | nil => exact Ext.refl _
  | cons e es ih =>
    unfold resizePass1
    split
    · exact ih st
    have e1 : Ext (fun o => o.kind = .openr) st (st.openr e.fullTarget).1 :=
      (St.openr_ext st e.fullTarget).mono (fun o h => h.1)
    rcases h1 : st.openr e.fullTarget with ⟨st1, ok1⟩
    rw [h1] at e1
    simp only []
    split
    · split
      · exact e1.trans (ih st1)
      · exact e1
    · split
      · split
        · exact e1
        · exact e1.trans (ih st1)
      · exact e1.trans (ih st1)

/-- an operation of the second resize pass: open for writing / set_len of a non-padding entry of the table -/
def RzOp (table : List TEntry) (o : Op) : Prop :=
  ∃ e ∈ table, e.isPad = false ∧ (o.kind = .openrw ∨ o.kind = .setlen e.fileLength) ∧ o.path = e.fullTarget

theorem RzOp.tail {e : TEntry} {es : List TEntry} {o : Op} (h : RzOp es o) : RzOp (e :: es) o := by
  obtain ⟨e', he', h⟩ := h
  exact ⟨e', List.mem_cons_of_mem _ he', h⟩

theorem resizePass2_ext (st : St) (es : List TEntry) : Ext (RzOp es) st (resizePass2 st es).1 := by
  induction es generalizing st with
  | nil => exact Ext.refl _
  | cons e es ih =>
    have tl : ∀ st', Ext (RzOp (e :: es)) st' (resizePass2 st' es).1 :=
      fun st' => (ih st').mono (fun o h => h.tail)
    unfold resizePass2
    split
    · exact tl st
    rename_i hpad
    have hpad : e.isPad = false := by simpa using hpad
    rcases h1 : st.op .openrw e.fullTarget _ with ⟨st1, ok1⟩
    have e1 : Ext (RzOp (e :: es)) st st1 :=
      St.op_ext' h1 (fun _ => ⟨e, List.mem_cons_self, hpad, Or.inl rfl, rfl⟩)
    simp only []
    split
    · split
      · exact e1.trans (tl st1)
      · exact e1
    · split
      · rename_i i _
        split
        · rcases h2 : st1.op (.setlen e.fileLength) e.fullTarget _ with ⟨st2, ok2⟩
          have e2 : Ext (RzOp (e :: es)) st st2 :=
            e1.trans (St.op_ext' h2 (fun _ => ⟨e, List.mem_cons_self, hpad, Or.inr rfl, rfl⟩))
          simp only []
          split
          · exact e2.trans (tl st2)
          · exact e2
        · exact e1.trans (tl st1)
      · exact e1.trans (tl st1)

/-- an operation of the set-up phase: stat / read-only open, or a resize operation on a table entry -/
def SetupOp (table : List TEntry) (o : Op) : Prop := o.kind = .stat ∨ o.kind = .openr ∨ RzOp table o

theorem fixExportFileLengths_ext (st : St) (table : List TEntry) :
    Ext (SetupOp table) st (fixExportFileLengths st table).1 := by
  unfold fixExportFileLengths
  have e1 : Ext (SetupOp table) st (resizePass1 st table).1 :=
    (resizePass1_ext st table).mono (fun o h => Or.inr (Or.inl h))
  split
  · rename_i st1 h; rw [h] at e1; exact e1
  · rename_i st1 h; rw [h] at e1
    exact e1.trans ((resizePass2_ext st1 table).mono (fun o h => Or.inr (Or.inr h)))

theorem addExportPaths_ext (st : St) (c : Cache) (es : List TEntry) :
    Ext (fun o => o.kind = .openr) st (addExportPaths st c es).1 := by
  induction es generalizing st c with
  | nil => exact Ext.refl _
  | cons e es ih =>
    unfold addExportPaths
    split
    · exact ih st c
    have e1 : Ext (fun o => o.kind = .openr) st (st.openr e.fullTarget).1 :=
      (St.openr_ext st e.fullTarget).mono (fun o h => h.1)
    rcases h1 : st.openr e.fullTarget with ⟨st1, ok1⟩
    rw [h1] at e1
    simp only []
    split
    · exact e1.trans (ih st1 _)
    split
    · split
      · exact e1.trans (ih st1 _)
      · exact e1.trans (ih st1 _)
    · exact e1.trans (ih st1 _)

/-! ### torrents, table with searches -/

theorem mem_insertTorrent {x t : Torrent} {l : List Torrent} (h : x ∈ insertTorrent t l) : x = t ∨ x ∈ l := by
  induction l with
  | nil => simpa [insertTorrent] using h
  | cons u us ih =>
    simp only [insertTorrent] at h
    split at h
    · simpa using h
    · simp only [List.mem_cons] at h ⊢
      rcases h with h | h
      · exact Or.inr (Or.inl h)
      · rcases ih h with h | h
        · exact Or.inl h
        · exact Or.inr (Or.inr h)

theorem mem_sortTorrents {x : Torrent} {ts : List Torrent} (h : x ∈ sortTorrents ts) : x ∈ ts := by
  have : ∀ (ts acc : List Torrent), x ∈ ts.foldl (fun acc t => insertTorrent t acc) acc → x ∈ acc ∨ x ∈ ts := by
    intro ts
    induction ts with
    | nil => intro acc h; exact Or.inl h
    | cons t ts ih =>
      intro acc h
      simp only [List.foldl_cons] at h
      rcases ih _ h with h | h
      · rcases mem_insertTorrent h with rfl | h
        · exact Or.inr List.mem_cons_self
        · exact Or.inl h
      · exact Or.inr (List.mem_cons_of_mem _ h)
  rcases this ts [] h with h | h
  · cases h
  · exact h

theorem mem_dedupTorrents {x : Torrent} {ts : List Torrent} (h : x ∈ dedupTorrents ts) : x ∈ ts := by
  fun_induction dedupTorrents ts with
  | case1 => exact h
  | case2 t => exact h
  | case3 t u rest heq ih =>
    rcases List.mem_cons.1 (ih h) with h | h
    · exact h ▸ List.mem_cons_self
    · exact List.mem_cons_of_mem _ (List.mem_cons_of_mem _ h)
  | case4 t u rest hne ih =>
    rcases List.mem_cons.1 h with h | h
    · exact h ▸ List.mem_cons_self
    · exact List.mem_cons_of_mem _ (ih h)

/-- `e'` is `e` with the candidate list replaced -/
def UpToSearches (e e' : TEntry) : Prop := ∃ s, e' = { e with searches := s }

theorem UpToSearches.refl (e : TEntry) : UpToSearches e e := ⟨e.searches, rfl⟩

theorem populateSearches_rel (c : Cache) (obs : List (Nat × List Path)) (es : List TEntry) :
    (∀ e ∈ es, ∃ e' ∈ (populateSearches c obs es).1, UpToSearches e e')
    ∧ (∀ e' ∈ (populateSearches c obs es).1, ∃ e ∈ es, UpToSearches e e') := by
  induction es with
  | nil => simp [populateSearches]
  | cons e es ih =>
    have key : ∀ (e' : TEntry) (b : Bool), UpToSearches e e' →
        (∀ x ∈ e :: es, ∃ x' ∈ e' :: (populateSearches c obs es).1, UpToSearches x x')
        ∧ (∀ x' ∈ e' :: (populateSearches c obs es).1, ∃ x ∈ e :: es, UpToSearches x x') := by
      intro e' b he
      constructor
      · intro x hx
        rcases List.mem_cons.1 hx with rfl | hx
        · exact ⟨e', List.mem_cons_self, he⟩
        · obtain ⟨x', hx', h⟩ := ih.1 x hx
          exact ⟨x', List.mem_cons_of_mem _ hx', h⟩
      · intro x' hx'
        rcases List.mem_cons.1 hx' with rfl | hx'
        · exact ⟨e, List.mem_cons_self, he⟩
        · obtain ⟨x, hx, h⟩ := ih.2 x' hx'
          exact ⟨x, List.mem_cons_of_mem _ hx, h⟩
    unfold populateSearches
    rcases hrest : populateSearches c obs es with ⟨rest, okRest⟩
    rw [hrest] at key
    simp only []
    split
    · exact key e true (UpToSearches.refl e)
    split
    · exact key e true (UpToSearches.refl e)
    split
    · split
      · exact key _ true ⟨_, rfl⟩
      · exact key _ true ⟨_, rfl⟩
    · exact key _ true ⟨_, rfl⟩

theorem UpToSearches.isTargetOf {exportDir : Path} {t : Torrent} {e e' : TEntry} (h : UpToSearches e e')
    (ht : IsTargetOf exportDir t e) : IsTargetOf exportDir t e' := by
  obtain ⟨s, rfl⟩ := h
  exact ht

/-! ### work items -/

theorem mapM_option_mem {α β : Type} {f : α → Option β} {l : List α} {r : List β} (h : l.mapM f = some r) :
    ∀ b ∈ r, ∃ a ∈ l, f a = some b := by
  induction l generalizing r with
  | nil =>
    simp at h
    subst h
    intro b hb; cases hb
  | cons a l ih =>
    rw [List.mapM_cons] at h
    cases ha : f a with
    | none => simp [ha] at h
    | some b0 =>
      cases hl : l.mapM f with
      | none => simp [ha, hl] at h
      | some bs =>
        simp [ha, hl] at h
        subst h
        intro b hb
        rcases List.mem_cons.1 hb with rfl | hb
        · exact ⟨a, List.mem_cons_self, ha⟩
        · obtain ⟨a', ha', h⟩ := ih hl b hb
          exact ⟨a', List.mem_cons_of_mem _ ha', h⟩

theorem workOfPiece_ent {table : List TEntry} {t : Torrent} {p : Piece} {w : Work}
    (h : workOfPiece table t p = some w) : ∀ seg ∈ w.segs, seg.ent ∈ table := by
  unfold workOfPiece at h
  split at h
  · rename_i segs hm
    cases h
    intro seg hseg
    obtain ⟨s, _, hs⟩ := mapM_option_mem hm seg hseg
    simp only [lookupEntry, Option.map_eq_some_iff] at hs
    obtain ⟨e, he, rfl⟩ := hs
    exact List.mem_of_find?_eq_some he
  · cases h

theorem workOfTorrent_ent {table : List TEntry} {t : Torrent} {ws : List Work}
    (h : workOfTorrent table t = some ws) : ∀ w ∈ ws, ∀ seg ∈ w.segs, seg.ent ∈ table := by
  unfold workOfTorrent at h
  split at h
  · cases h
  · intro w hw
    obtain ⟨p, _, hp⟩ := mapM_option_mem h w hw
    exact workOfPiece_ent hp

theorem convertPiecesToWork_ent {table : List TEntry} {ts : List Torrent} {ws : List Work}
    (h : convertPiecesToWork table ts = some ws) : ∀ w ∈ ws, ∀ seg ∈ w.segs, seg.ent ∈ table := by
  induction ts generalizing ws with
  | nil => simp [convertPiecesToWork] at h; subst h; intro w hw; cases hw
  | cons t ts ih =>
    unfold convertPiecesToWork at h
    split at h
    · rename_i a b ha hb
      cases h
      intro w hw
      rcases List.mem_append.1 hw with hw | hw
      · exact workOfTorrent_ent ha w hw
      · exact ih hb w hw
    · cases h

theorem reorder_cons (ws : List Work) (o : List (Nat × Nat × Nat) × Bytes)
    (os : List (List (Nat × Nat × Nat) × Bytes)) :
    reorder ws (o :: os)
      = (ws.find? (fun w => workSig w == o)).bind (fun w => (reorder (ws.erase w) os).map (w :: ·)) := by
  cases ws <;> simp only [reorder] <;> split <;> simp [*]

theorem reorder_mem {ws : List Work} {os : List (List (Nat × Nat × Nat) × Bytes)} {r : List Work}
    (h : reorder ws os = some r) : ∀ w ∈ r, w ∈ ws := by
  induction os generalizing ws r with
  | nil =>
    cases ws with
    | nil => simp [reorder] at h; subst h; intro w hw; cases hw
    | cons x xs =>
      simp only [reorder, Option.some.injEq] at h
      subst h
      intro w hw
      exact List.mem_reverse.1 hw
  | cons o os ih =>
    rw [reorder_cons] at h
    simp only [Option.bind_eq_some_iff] at h
    obtain ⟨w0, hf, h⟩ := h
    revert h
    simp only [Option.map_eq_some_iff]
    rintro ⟨r', hr', rfl⟩ w hw
    rcases List.mem_cons.1 hw with rfl | hw
    · exact List.mem_of_find?_eq_some hf
    · exact List.mem_of_mem_erase (ih hr' w hw)

/-! ### evaluating all pieces -/

theorem solveAll_ext (H : Bytes → Bytes) (st : St) (ws : List Work) (c : Counters) (acc : List Counters) :
    Ext (fun o => ∃ w ∈ ws, PieceOp H w o) st (solveAll H st ws c acc).1 := by
  induction ws generalizing st c acc with
  | nil => exact Ext.refl _
  | cons w ws ih =>
    have e1 : Ext (fun o => ∃ w' ∈ w :: ws, PieceOp H w' o) st (solvePiece H st w).1 :=
      (solvePiece_ext H st w).mono (fun o h => ⟨w, List.mem_cons_self, h⟩)
    unfold solveAll
    split
    · rename_i st1 h; rw [h] at e1; exact e1
    · rename_i st1 r _ h; rw [h] at e1
      refine e1.trans ((ih st1 _ _).mono ?_)
      rintro o ⟨w', hw', h⟩
      exact ⟨w', List.mem_cons_of_mem _ hw', h⟩

/-! ### the whole run -/

/-- what every run satisfies -/
def RunInv (H : Bytes → Bytes) (inp : RunIn) (out : RunOut) : Prop :=
  (∀ e' ∈ out.table, ∃ e ∈ buildTable inp.exportDir.path (dedupTorrents (sortTorrents inp.torrents)) 0,
      UpToSearches e e')
  ∧ (∀ o ∈ out.ops, SetupOp out.table o
      ∨ ∃ w ∈ out.work, PieceOp H w o ∧ ∀ seg ∈ w.segs, seg.ent ∈ out.table)

theorem RzOp.transfer {t0 t : List TEntry} {o : Op} (h : RzOp t0 o)
    (ht : ∀ e ∈ t0, ∃ e' ∈ t, UpToSearches e e') : RzOp t o := by
  obtain ⟨e, he, h1, h2, h3⟩ := h
  obtain ⟨e', he', s, rfl⟩ := ht e he
  exact ⟨_, he', h1, h2, h3⟩

theorem SetupOp.transfer {t0 t : List TEntry} {o : Op} (h : SetupOp t0 o)
    (ht : ∀ e ∈ t0, ∃ e' ∈ t, UpToSearches e e') : SetupOp t o := by
  rcases h with h | h | h
  · exact Or.inl h
  · exact Or.inr (Or.inl h)
  · exact Or.inr (Or.inr (h.transfer ht))

theorem Ext.from_empty {P : Op → Prop} {a b : St} (h : Ext P a b) (ha : a.ops = []) : ∀ o ∈ b.ops, P o := by
  intro o ho
  rcases h.mem_ops o ho with h | h
  · rw [ha] at h; cases h
  · exact h

theorem run_inv (H : Bytes → Bytes) (inp : RunIn) : RunInv H inp (run H inp) := by
  unfold run
  simp only []
  split
  · exact ⟨by simp, by simp⟩
  have e1 := (validateAll_ext ⟨inp.fs, [], inp.faults⟩ (inp.scan ++ [inp.exportDir]))
  split
  · rename_i st1 hv
    rw [hv] at e1
    refine ⟨by simp, ?_⟩
    intro o ho
    exact Or.inl (Or.inl (e1.from_empty rfl o ho))
  · rename_i st1 hv
    rw [hv] at e1
    generalize ht0 : buildTable inp.exportDir.path (dedupTorrents (sortTorrents inp.torrents)) 0 = table0
    have e1 : Ext (SetupOp table0) ⟨inp.fs, [], inp.faults⟩ st1 := e1.mono (fun o h => Or.inl h)
    have e2 : Ext (SetupOp table0) ⟨inp.fs, [], inp.faults⟩
        (if inp.resize = true then fixExportFileLengths st1 table0 else (st1, Flow.continue)).1 := by
      split
      · exact e1.trans (fixExportFileLengths_ext st1 table0)
      · exact e1
    generalize (if inp.resize = true then fixExportFileLengths st1 table0 else (st1, Flow.continue)) = pr at *
    split
    · refine ⟨fun e he => ⟨e, by simpa [RunInv, ht0] using he, UpToSearches.refl e⟩, ?_⟩
      intro o ho
      exact Or.inl (e2.from_empty rfl o ho)
    · have e3 : Ext (SetupOp table0) ⟨inp.fs, [], inp.faults⟩ (addExportPaths pr.1 [] table0).1 :=
        e2.trans ((addExportPaths_ext pr.1 [] table0).mono (fun o h => Or.inr (Or.inl h)))
      generalize addExportPaths pr.1 [] table0 = pr2 at *
      generalize List.foldl (fun c d => addByDirectory pr2.1.fs c d.path (uniqueLengths table0)) pr2.2 inp.scan = cache
      have hpop := populateSearches_rel cache inp.searchObs table0
      generalize populateSearches cache inp.searchObs table0 = pop at *
      split
      · refine ⟨by simpa [RunInv, ht0] using hpop.2, ?_⟩
        intro o ho
        exact Or.inl ((e3.from_empty rfl o ho).transfer hpop.1)
      · rename_i work hwork
        have fin : ∀ ordered : List Work, (∀ w ∈ ordered, w ∈ work) → ∀ (r : Res Unit) (f : Fs) (cs : List Counters)
            (n : Nat) (b : Bool) (m : Nat),
            RunInv H inp ⟨r, (solveAll H pr2.1 ordered ⟨0, 0, 0⟩ []).1.ops, f, cs, n, b, pop.1, work, m⟩ := by
          intro ordered hord r f cs n b m
          refine ⟨by simpa [RunInv, ht0] using hpop.2, ?_⟩
          intro o ho
          have e4 := solveAll_ext H pr2.1 ordered ⟨0, 0, 0⟩ []
          rcases e4.mem_ops o ho with h | ⟨w, hw, h⟩
          · exact Or.inl ((e3.from_empty rfl o h).transfer hpop.1)
          · exact Or.inr ⟨w, hord w hw, h, convertPiecesToWork_ent hwork w (hord w hw)⟩
        cases hr : reorder work inp.order with
        | some ord => exact fin ord (reorder_mem hr) _ _ _ _ _ _
        | none => exact fin (defaultOrder work) (fun w hw => List.mem_reverse.1 hw) _ _ _ _ _ _

end TB
