/-
  Helper lemmas for C09cost.
-/
import TB.Spec.CostSpec
namespace TB.Cost

end TB.Cost
