/-
  Helper lemmas for C09cost.
  Part 1 (`*_fst`): the first component of every step-counting function is the original model function.
  Part 2 (`*_cost`): potential argument. Every automaton state pays its steps with the bytes it consumes:
    decodeIntC / decodeStrC : cost ≤ |inp| + 1, and on success cost ≤ bytes consumed (string: |value| + 2 ≤ cost);
    decodeAnyC              : cost ≤ 2|inp| + 1, and on success cost + 1 ≤ 2 · (bytes consumed);
    list / dictionary loops : cost ≤ 2|inp| + 2, and on success cost + 1 ≤ 2 · (bytes consumed);
  the key-order comparison costs at most |new key| + 1, paid by the bytes of the new key (hence the factor 2).
  "bytes consumed" is expressed through lengths (`cost + 1 + 2·|rest| ≤ 2·|inp|`), so no prefix facts are needed.
-/
import TB.Spec.CostSpec
namespace TB.Cost
open TB

/-! ### Part 1: faithfulness -/

theorem intDigitsC_fst (neg : Bool) : ∀ (inp : Bytes) (acc : Int) (pos : Nat),
    (intDigitsC neg inp acc pos).1 = intDigits neg inp acc pos := by
  intro inp
  induction inp with
  | nil => intro acc pos; simp [intDigitsC, intDigits]
  | cons b rest ih =>
    intro acc pos
    simp only [intDigitsC, intDigits, apply_ite Prod.fst, ih]

theorem decodeIntC_fst (inp : Bytes) (pos : Nat) : (decodeIntC inp pos).1 = decodeInt inp pos := by
  rcases inp with _ | ⟨b, _ | ⟨b1, _ | ⟨b2, rest2⟩⟩⟩ <;>
    simp only [decodeIntC, decodeInt, intFirst, intNonZero, apply_ite Prod.fst, intDigitsC_fst]

theorem strDigitsC_fst : ∀ (inp : Bytes) (n pos : Nat),
    (strDigitsC inp n pos).1 = strDigits inp n pos := by
  intro inp
  induction inp with
  | nil => intro n pos; simp [strDigitsC, strDigits]
  | cons b rest ih =>
    intro n pos
    simp only [strDigitsC, strDigits, apply_ite Prod.fst, ih]

theorem decodeStrC_fst (inp : Bytes) (pos : Nat) : (decodeStrC inp pos).1 = decodeStr inp pos := by
  rcases inp with _ | ⟨b, rest⟩ <;> 
    simp only [decodeStrC, decodeStr, apply_ite Prod.fst, strDigitsC_fst]

theorem decodeStrTokC_fst (inp : Bytes) (pos : Nat) :
    (decodeStrTokC inp pos).1 = decodeStrTok inp pos := by
  unfold decodeStrTokC decodeStrTok
  rw [← decodeStrC_fst]
  rcases decodeStrC inp pos with ⟨res, n⟩
  rcases res with ⟨v, c, r⟩ | _ | _ <;> rfl


theorem decodeAllC_fst : ∀ fuel : Nat,
    (∀ inp pos, (decodeAnyC fuel inp pos).1 = decodeAny fuel inp pos) ∧
    (∀ inp pos start acc, (decodeListLoopC fuel inp pos start acc).1 = decodeListLoop fuel inp pos start acc) ∧
    (∀ inp pos start ks vs, (decodeDictLoopC fuel inp pos start ks vs).1 = decodeDictLoop fuel inp pos start ks vs) := by
  intro fuel
  induction fuel with
  | zero =>
    refine ⟨?_, ?_, ?_⟩ <;> intros <;> simp [decodeAnyC, decodeAny, decodeListLoopC, decodeListLoop,
      decodeDictLoopC, decodeDictLoop]
  | succ fuel ih =>
    obtain ⟨ihA, ihL, ihD⟩ := ih
    refine ⟨?_, ?_, ?_⟩
    · intro inp pos
      rcases inp with _ | ⟨b, rest⟩
      · simp [decodeAnyC, decodeAny]
      · simp only [decodeAnyC, decodeAny, ← decodeStrTokC_fst, ← decodeIntC_fst, ← ihL, ← ihD]
        split
        · rcases decodeStrTokC (b :: rest) pos with ⟨res, n⟩
          rcases res with ⟨t, r⟩ | _ | _ <;> rfl
        · split
          · rcases decodeIntC (b :: rest) pos with ⟨res, n⟩
            rcases res with ⟨v, c, r⟩ | _ | _ <;> rfl
          · split
            · rfl
            · split <;> rfl
    · intro inp pos start acc
      rcases inp with _ | ⟨b, rest⟩
      · simp [decodeListLoopC, decodeListLoop]
      · simp only [decodeListLoopC, decodeListLoop, ← ihA]
        split
        · rcases decodeAnyC fuel (b :: rest) pos with ⟨res, n⟩
          rcases res with ⟨t, r⟩ | _ | _
          · simp only [ihL]
          · rfl
          · rfl
        · split <;> rfl
    · intro inp pos start ks vs
      rcases inp with _ | ⟨b, rest⟩
      · simp [decodeDictLoopC, decodeDictLoop]
      · simp only [decodeDictLoopC, decodeDictLoop, ← decodeStrTokC_fst]
        split
        · rcases decodeStrTokC (b :: rest) pos with ⟨res, n⟩
          rcases res with ⟨k, r⟩ | _ | _
          · have key : ∀ (okOrder : Bool) (cmp : Nat),
                (if okOrder = true then
                  match r with
                  | [] => ((Res.err : Res (Tok × Bytes)), n + cmp + 1)
                  | b2 :: _ =>
                    if isValueStart b2 = true then
                      match decodeAnyC fuel r k.c with
                      | (.ok (t, r2), m) =>
                        ((decodeDictLoopC fuel r2 t.cont start (k :: ks) (t :: vs)).1,
                          (decodeDictLoopC fuel r2 t.cont start (k :: ks) (t :: vs)).2 + n + cmp + m + 1)
                      | (.err, m) => (.err, n + cmp + m + 1) | (.panic, m) => (.panic, n + cmp + m + 1)
                    else (.err, n + cmp + 1)
                else (.err, n + cmp + 1)).1 =
                (if okOrder = true then
                  match r with
                  | [] => .err
                  | b2 :: _ =>
                    if isValueStart b2 = true then
                      match decodeAny fuel r k.c with
                      | .ok (t, r2) => decodeDictLoop fuel r2 t.cont start (k :: ks) (t :: vs)
                      | .err => .err | .panic => .panic
                    else .err
                else .err) := by
              intro okOrder cmp
              cases okOrder
              · rfl
              · rw [if_pos rfl, if_pos rfl]
                rcases r with _ | ⟨b2, r'⟩
                · rfl
                · simp only [← ihA]
                  split
                  · rcases decodeAnyC fuel (b2 :: r') k.c with ⟨res, m⟩
                    rcases res with ⟨t, r2⟩ | _ | _
                    · simp only [ihD]
                    · rfl
                    · rfl
                  · rfl
            exact key _ _
          · rfl
          · rfl
        · split <;> rfl

theorem decodeC_fst (inp : Bytes) : (decodeC inp).1 = decode inp := by
  unfold decodeC decode
  rw [← (decodeAllC_fst _).1]
  rcases decodeAnyC (2 * inp.length + 2) inp 0 with ⟨res, n⟩
  rcases res with ⟨t, _ | ⟨b, r⟩⟩ | _ | _ <;> rfl

/-! ### Part 2: cost -/

theorem intDigitsC_cost (neg : Bool) : ∀ (inp : Bytes) (acc : Int) (pos : Nat),
    (intDigitsC neg inp acc pos).2 ≤ inp.length + 1 ∧
    ∀ v c r, (intDigitsC neg inp acc pos).1 = .ok (v, c, r) →
      (intDigitsC neg inp acc pos).2 + r.length ≤ inp.length ∧ 1 ≤ (intDigitsC neg inp acc pos).2 := by
  intro inp
  induction inp with
  | nil => intro acc pos; simp [intDigitsC]
  | cons b rest ih =>
    intro acc pos
    simp only [intDigitsC]
    generalize (if neg = true then acc * 10 - ↑(digitVal b) else acc * 10 + ↑(digitVal b)) = a
    split
    · split
      · simp
      · split
        · simp
        · have h := ih a (pos + 1)
          refine ⟨by simp only [List.length_cons]; omega, ?_⟩
          intro v c r hr
          have := h.2 v c r hr
          simp only [List.length_cons]; omega
    · split
      · refine ⟨by simp, ?_⟩
        intro v c r hr
        simp only [Res.ok.injEq, Prod.mk.injEq] at hr
        simp only [← hr.2.2, List.length_cons]; omega
      · simp

theorem intStop_len {v0 : Int} {inp : Bytes} {pos : Nat} {v : Int} {c : Nat} {r : Bytes}
    (h : intStop v0 inp pos = .ok (v, c, r)) : r.length + 1 = inp.length := by
  rcases inp with _ | ⟨b, rest⟩
  · simp [intStop] at h
  · simp only [intStop] at h
    split at h
    · simp only [Res.ok.injEq, Prod.mk.injEq] at h
      simp [h.2.2]
    · cases h

theorem decodeIntC_cost (inp : Bytes) (pos : Nat) :
    (decodeIntC inp pos).2 ≤ inp.length + 1 ∧
    ∀ v c r, (decodeIntC inp pos).1 = .ok (v, c, r) →
      (decodeIntC inp pos).2 + r.length ≤ inp.length ∧ 2 ≤ (decodeIntC inp pos).2 := by
  rcases inp with _ | ⟨b, _ | ⟨b1, rest1⟩⟩
  · simp [decodeIntC]
  · simp only [decodeIntC]; split <;> simp
  · simp only [decodeIntC]
    split
    · split
      · have h := intDigitsC_cost false rest1 (↑(digitVal b1)) (pos + 2)
        refine ⟨by simp only [List.length_cons]; omega, ?_⟩
        intro v c r hr
        have := h.2 v c r hr
        simp only [List.length_cons]; omega
      · split
        · refine ⟨by simp, ?_⟩
          intro v c r hr
          have := intStop_len hr
          simp only [List.length_cons]; omega
        · split
          · rcases rest1 with _ | ⟨b2, rest2⟩
            · simp
            · simp only []
              split
              · have h := intDigitsC_cost true rest2 (-↑(digitVal b2)) (pos + 3)
                refine ⟨by simp only [List.length_cons]; omega, ?_⟩
                intro v c r hr
                have := h.2 v c r hr
                simp only [List.length_cons]; omega
              · simp
          · simp
    · simp


theorem strChars_len {n : Nat} {inp : Bytes} {pos : Nat} {v : Bytes} {c : Nat} {r : Bytes}
    (h : strChars n inp pos = .ok (v, c, r)) : n + r.length = inp.length ∧ v.length = n := by
  rcases inp with _ | ⟨b, rest⟩
  · simp [strChars] at h
  · simp only [strChars] at h
    split at h
    · cases h
    · rename_i hn
      simp only [Res.ok.injEq, Prod.mk.injEq] at h
      rw [← h.1, ← h.2.2]
      simp only [List.length_take, List.length_drop]
      omega

theorem strDigitsC_cost : ∀ (inp : Bytes) (n pos : Nat),
    (strDigitsC inp n pos).2 ≤ inp.length + 1 ∧
    ∀ v c r, (strDigitsC inp n pos).1 = .ok (v, c, r) →
      (strDigitsC inp n pos).2 + r.length ≤ inp.length ∧ v.length + 1 ≤ (strDigitsC inp n pos).2 := by
  intro inp
  induction inp with
  | nil => intro n pos; simp [strDigitsC]
  | cons b rest ih =>
    intro n pos
    simp only [strDigitsC]
    split
    · split
      · simp
      · split
        · simp
        · have h := ih (n * 10 + digitVal b) (pos + 1)
          refine ⟨by simp only [List.length_cons]; omega, ?_⟩
          intro v c r hr
          have := h.2 v c r hr
          simp only [List.length_cons]; omega
    · split
      · rcases hs : strChars n rest (pos + 1) with ⟨v, c, r⟩ | _ | _
        · have := strChars_len hs
          refine ⟨by simp only [List.length_cons]; omega, ?_⟩
          intro v' c' r' hr
          simp only [Res.ok.injEq, Prod.mk.injEq] at hr
          simp only [← hr.1, ← hr.2.2, List.length_cons]; omega
        · simp
        · simp
      · simp

theorem strSep_len {inp : Bytes} {pos : Nat} {v : Bytes} {c : Nat} {r : Bytes}
    (h : strSep inp pos = .ok (v, c, r)) : r.length + 1 = inp.length ∧ v.length = 0 := by
  rcases inp with _ | ⟨b, rest⟩
  · simp [strSep] at h
  · simp only [strSep] at h
    split at h
    · simp only [Res.ok.injEq, Prod.mk.injEq] at h
      simp [← h.1, ← h.2.2]
    · cases h

theorem decodeStrC_cost (inp : Bytes) (pos : Nat) :
    (decodeStrC inp pos).2 ≤ inp.length + 1 ∧
    ∀ v c r, (decodeStrC inp pos).1 = .ok (v, c, r) →
      (decodeStrC inp pos).2 + r.length ≤ inp.length ∧ v.length + 2 ≤ (decodeStrC inp pos).2 := by
  rcases inp with _ | ⟨b, rest⟩
  · simp [decodeStrC]
  · simp only [decodeStrC]
    split
    · refine ⟨by simp, ?_⟩
      intro v c r hr
      have := strSep_len hr
      simp only [List.length_cons]; omega
    · split
      · have h := strDigitsC_cost rest (digitVal b) (pos + 1)
        refine ⟨by simp only [List.length_cons]; omega, ?_⟩
        intro v c r hr
        have := h.2 v c r hr
        simp only [List.length_cons]; omega
      · simp

theorem decodeStrTokC_cost (inp : Bytes) (pos : Nat) :
    (decodeStrTokC inp pos).2 ≤ inp.length + 1 ∧
    ∀ k r, (decodeStrTokC inp pos).1 = .ok (k, r) →
      (decodeStrTokC inp pos).2 + r.length ≤ inp.length ∧ k.val.length + 2 ≤ (decodeStrTokC inp pos).2 := by
  have h := decodeStrC_cost inp pos
  unfold decodeStrTokC
  rcases hs : decodeStrC inp pos with ⟨res, n⟩
  rw [hs] at h
  rcases res with ⟨v, c, r⟩ | _ | _
  · refine ⟨h.1, ?_⟩
    intro k r' hr
    simp only [Res.ok.injEq, Prod.mk.injEq] at hr
    have := h.2 v c r rfl
    simp only [← hr.1, ← hr.2]
    exact this
  · exact ⟨h.1, by intro k r hr; cases hr⟩
  · exact ⟨h.1, by intro k r hr; cases hr⟩

theorem bytesLtCost_le (a b : Bytes) : bytesLtCost a b ≤ b.length + 1 := by
  unfold bytesLtCost; omega


theorem decodeAllC_cost : ∀ fuel : Nat,
    (∀ inp pos, (decodeAnyC fuel inp pos).2 ≤ 2 * inp.length + 1 ∧
      ∀ t r, (decodeAnyC fuel inp pos).1 = .ok (t, r) →
        (decodeAnyC fuel inp pos).2 + 1 + 2 * r.length ≤ 2 * inp.length) ∧
    (∀ inp pos start acc, (decodeListLoopC fuel inp pos start acc).2 ≤ 2 * inp.length + 2 ∧
      ∀ t r, (decodeListLoopC fuel inp pos start acc).1 = .ok (t, r) →
        (decodeListLoopC fuel inp pos start acc).2 + 1 + 2 * r.length ≤ 2 * inp.length) ∧
    (∀ inp pos start ks vs, (decodeDictLoopC fuel inp pos start ks vs).2 ≤ 2 * inp.length + 2 ∧
      ∀ t r, (decodeDictLoopC fuel inp pos start ks vs).1 = .ok (t, r) →
        (decodeDictLoopC fuel inp pos start ks vs).2 + 1 + 2 * r.length ≤ 2 * inp.length) := by
  intro fuel
  induction fuel with
  | zero =>
    refine ⟨?_, ?_, ?_⟩ <;> intros <;> simp [decodeAnyC, decodeListLoopC, decodeDictLoopC]
  | succ fuel ih =>
    obtain ⟨ihA, ihL, ihD⟩ := ih
    refine ⟨?_, ?_, ?_⟩
    · intro inp pos
      rcases inp with _ | ⟨b, rest⟩
      · simp [decodeAnyC]
      · simp only [decodeAnyC]
        split
        · have h := decodeStrTokC_cost (b :: rest) pos
          rcases hs : decodeStrTokC (b :: rest) pos with ⟨res, n⟩
          rw [hs] at h
          simp only [List.length_cons] at h ⊢
          rcases res with ⟨k, r⟩ | _ | _
          · refine ⟨by simp only []; omega, ?_⟩
            intro t r' hr
            simp only [Res.ok.injEq, Prod.mk.injEq] at hr
            have := h.2 k r rfl
            simp only [← hr.2]; omega
          · exact ⟨by simp only []; omega, by intro t r hr; cases hr⟩
          · exact ⟨by simp only []; omega, by intro t r hr; cases hr⟩
        · split
          · have h := decodeIntC_cost (b :: rest) pos
            rcases hs : decodeIntC (b :: rest) pos with ⟨res, n⟩
            rw [hs] at h
            simp only [List.length_cons] at h ⊢
            rcases res with ⟨v, c, r⟩ | _ | _
            · refine ⟨by simp only []; omega, ?_⟩
              intro t r' hr
              simp only [Res.ok.injEq, Prod.mk.injEq] at hr
              have := h.2 v c r rfl
              simp only [← hr.2]; omega
            · exact ⟨by simp only []; omega, by intro t r hr; cases hr⟩
            · exact ⟨by simp only []; omega, by intro t r hr; cases hr⟩
          · split
            · have h := ihL rest (pos + 1) pos []
              simp only [List.length_cons]
              refine ⟨by omega, ?_⟩
              intro t r hr
              have := h.2 t r hr
              omega
            · split
              · have h := ihD rest (pos + 1) pos [] []
                simp only [List.length_cons]
                refine ⟨by omega, ?_⟩
                intro t r hr
                have := h.2 t r hr
                omega
              · simp
    · intro inp pos start acc
      rcases inp with _ | ⟨b, rest⟩
      · simp [decodeListLoopC]
      · simp only [decodeListLoopC]
        split
        · have h := ihA (b :: rest) pos
          rcases hs : decodeAnyC fuel (b :: rest) pos with ⟨res, n⟩
          rw [hs] at h
          simp only [List.length_cons] at h ⊢
          rcases res with ⟨t, r⟩ | _ | _
          · have h2 := h.2 t r rfl
            have hq := ihL r t.cont start (t :: acc)
            simp only []
            refine ⟨by omega, ?_⟩
            intro t' r' hr
            have := hq.2 t' r' hr
            omega
          · exact ⟨by simp only []; omega, by intro t r hr; cases hr⟩
          · exact ⟨by simp only []; omega, by intro t r hr; cases hr⟩
        · split
          · refine ⟨by simp, ?_⟩
            intro t r hr
            simp only [Res.ok.injEq, Prod.mk.injEq] at hr
            simp only [← hr.2, List.length_cons]; omega
          · simp
    · intro inp pos start ks vs
      rcases inp with _ | ⟨b, rest⟩
      · simp [decodeDictLoopC]
      · simp only [decodeDictLoopC]
        split
        · have h := decodeStrTokC_cost (b :: rest) pos
          rcases hs : decodeStrTokC (b :: rest) pos with ⟨res, n⟩
          rw [hs] at h
          simp only [List.length_cons] at h ⊢
          rcases res with ⟨k, r⟩ | _ | _
          · have h2 := h.2 k r rfl
            have key : ∀ (okOrder : Bool) (cmp : Nat), cmp ≤ k.val.length + 1 →
                ∀ X : Res (Tok × Bytes) × Nat, X = (if okOrder = true then
                  match r with
                  | [] => ((Res.err : Res (Tok × Bytes)), n + cmp + 1)
                  | b2 :: _ =>
                    if isValueStart b2 = true then
                      match decodeAnyC fuel r k.c with
                      | (.ok (t, r2), m) =>
                        ((decodeDictLoopC fuel r2 t.cont start (k :: ks) (t :: vs)).1,
                          (decodeDictLoopC fuel r2 t.cont start (k :: ks) (t :: vs)).2 + n + cmp + m + 1)
                      | (.err, m) => (.err, n + cmp + m + 1) | (.panic, m) => (.panic, n + cmp + m + 1)
                    else (.err, n + cmp + 1)
                else (.err, n + cmp + 1)) →
                X.2 ≤ 2 * (rest.length + 1) + 2 ∧
                ∀ t r', X.1 = .ok (t, r') → X.2 + 1 + 2 * r'.length ≤ 2 * (rest.length + 1) := by
              intro okOrder cmp hcmp X hX
              subst hX
              cases okOrder
              · refine ⟨?_, by intro t r hr; cases hr⟩
                simp only [Bool.false_eq_true, if_false]; omega
              · rw [if_pos rfl]
                rcases r with _ | ⟨b2, r'⟩
                · refine ⟨?_, by intro t r hr; cases hr⟩
                  simp only []; omega
                · simp only []
                  split
                  · have hv := ihA (b2 :: r') k.c
                    rcases hs2 : decodeAnyC fuel (b2 :: r') k.c with ⟨res, m⟩
                    rw [hs2] at hv
                    rcases res with ⟨t, r2⟩ | _ | _
                    · have hv2 := hv.2 t r2 rfl
                      have hq := ihD r2 t.cont start (k :: ks) (t :: vs)
                      simp only []
                      refine ⟨by omega, ?_⟩
                      intro t' r'' hr
                      have := hq.2 t' r'' hr
                      omega
                    · refine ⟨?_, by intro t r hr; cases hr⟩
                      simp only []; omega
                    · refine ⟨?_, by intro t r hr; cases hr⟩
                      simp only []; omega
                  · refine ⟨?_, by intro t r hr; cases hr⟩
                    simp only []; omega
            refine key _ _ ?_ _ rfl
            rcases ks with _ | ⟨last, ks'⟩
            · simp
            · exact bytesLtCost_le _ _
          · exact ⟨by simp only []; omega, by intro t r hr; cases hr⟩
          · exact ⟨by simp only []; omega, by intro t r hr; cases hr⟩
        · split
          · refine ⟨by simp, ?_⟩
            intro t r hr
            simp only [Res.ok.injEq, Prod.mk.injEq] at hr
            simp only [← hr.2, List.length_cons]; omega
          · simp

theorem decodeC_cost (inp : Bytes) : (decodeC inp).2 ≤ 2 * inp.length + 2 := by
  have h := (decodeAllC_cost (2 * inp.length + 2)).1 inp 0
  unfold decodeC
  rcases hs : decodeAnyC (2 * inp.length + 2) inp 0 with ⟨res, n⟩
  rw [hs] at h
  rcases res with ⟨t, _ | ⟨b, r⟩⟩ | _ | _ <;> simp only [] <;> omega

end TB.Cost
