/-
  Helper lemmas for C05: the termination measure.

  * TB.Lemmas.ExecTermInv  — the invariant `Inv` of reachable states (`Inv_reach`)
  * TB.Lemmas.ExecTermMeas — how `rank` and the components of `measure` change
  * TB.Lemmas.ExecTermDec  — `measure_dec_<pc>`: one lemma per program counter, and `measure_dec`
  * here: the order `mlt` is well-founded; the measure decreases along every step from a reachable state;
    termination follows.
-/
import TB.Spec.ExecSpec
import TB.Lemmas.ExecTermInv
import TB.Lemmas.ExecTermMeas
import TB.Lemmas.ExecTermDec
namespace TB.Exec.Term
/-- `mlt` is the lexicographic product of four copies of `<` on `Nat` -/
theorem mlt_wf : WellFounded mlt := by
  have hwf : WellFounded (Prod.Lex (· < · : Nat → Nat → Prop)
      (Prod.Lex (· < · : Nat → Nat → Prop) (Prod.Lex (· < · : Nat → Nat → Prop) (· < · : Nat → Nat → Prop)))) :=
    (Prod.lex ⟨_, Nat.lt_wfRel.wf⟩ (Prod.lex ⟨_, Nat.lt_wfRel.wf⟩ (Prod.lex ⟨_, Nat.lt_wfRel.wf⟩ ⟨_, Nat.lt_wfRel.wf⟩))).wf
  refine Subrelation.wf ?_ hwf
  intro a b h
  obtain ⟨a1, a2, a3, a4⟩ := a
  obtain ⟨b1, b2, b3, b4⟩ := b
  simp only [mlt] at h
  rcases h with h | ⟨rfl, h | ⟨rfl, h | ⟨rfl, h⟩⟩⟩
  · exact Prod.Lex.left _ _ h
  · exact Prod.Lex.right _ (Prod.Lex.left _ _ h)
  · exact Prod.Lex.right _ (Prod.Lex.right _ (Prod.Lex.left _ _ h))
  · exact Prod.Lex.right _ (Prod.Lex.right _ (Prod.Lex.right _ h))

/-- every step from a reachable state decreases the measure -/
theorem measure_decreases_reach (bal : Bal) (hb : BalSpec bal) (qs : List (List Nat)) (s s' : ExSt) (i : Nat)
    (hr : Reach bal (init qs) s) (hs : step bal s i = some s') : mlt (measure s') (measure s) :=
  measure_dec hb (Inv_reach hb hr) hs

/-- termination from the decrease of the measure on reachable states -/
theorem terminates_of_decreases (bal : Bal) (qs : List (List Nat))
    (hdec : ∀ s s' i, Reach bal (init qs) s → step bal s i = some s' → mlt (measure s') (measure s)) :
    WellFounded (fun s' s => Reach bal (init qs) s ∧ ∃ i, step bal s i = some s') := by
  refine Subrelation.wf ?_ (InvImage.wf measure mlt_wf)
  intro s' s h
  obtain ⟨hr, i, hs⟩ := h
  exact hdec s s' i hr hs

end TB.Exec.Term