/-
  Helper lemmas for C05: the termination measure.
-/
import TB.Spec.ExecSpec
import TB.Lemmas.Exec
namespace TB.Exec

end TB.Exec
