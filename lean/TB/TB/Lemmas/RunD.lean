/-
  Helper lemmas about TB.Model.Run (RunD).
-/
import TB.Spec.ExportSpec
import TB.Lemmas.RunDBase
import TB.Lemmas.RunDReplay
import TB.Lemmas.RunDOk
import TB.Lemmas.RunDSim
namespace TB.RD
end TB.RD