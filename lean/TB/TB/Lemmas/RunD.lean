/-
  Helper lemmas about TB.Model.Run (RunD).
-/
import TB.Spec.ExportSpec
namespace TB

end TB
