/-
  Helper lemmas for C05 (termination part): the reachable-state invariant `Inv` used by the measure proof.
-/
import TB.Spec.ExecSpec
namespace TB.Exec.Term
/-- program counters at which the worker holds the state lock `S` -/
def holdsS : Pc → Bool
  | .haveState | .exiting | .wantLocal | .haveLocal | .cont1 | .cont2 | .collect _ | .bal
  | .release _ _ | .dec _ | .unlockState => true
  | _ => false

/-- upper bound on the queue locks worker `h` may hold at program counter `pc` -/
def holdsQ (active h : Nat) (pc : Pc) (t : Nat) : Prop :=
  match pc with
  | .popped _ => t = h
  | .haveLocal => t = h
  | .cont1 => t = h
  | .collect j => t = h ∨ t ∈ (others h active).take j
  | .bal => t < active
  | .release j _ => j ≤ t ∧ t < active
  | _ => False

/-- facts about the own queue and `active` that a worker knows at its program counter -/
def ownOK (queues : List (List Nat)) (active i : Nat) (pc : Pc) : Prop :=
  match pc with
  | .wantLocal => i < active
  | .haveLocal => i < active
  | .cont1 => queues[i]?.getD [] ≠ []
  | .cont2 => queues[i]?.getD [] ≠ []
  | .collect _ => i < active ∧ queues[i]?.getD [] = []
  | .bal => i < active ∧ queues[i]?.getD [] = []
  | .release _ d => queues[i]?.getD [] ≠ [] ∨ active - d ≤ i
  | .dec d => queues[i]?.getD [] ≠ [] ∨ active - d ≤ i
  | .unlockState => queues[i]?.getD [] ≠ [] ∨ active ≤ i
  | _ => True

/-- the invariant of reachable states needed for the termination measure -/
structure Inv (s : ExSt) : Prop where
  lenQ : s.queues.length = s.pcs.length
  lenL : s.qlock.length = s.pcs.length
  actLe : s.active ≤ s.pcs.length
  sLock : ∀ i pc, s.pcs[i]? = some pc → (holdsS pc = true ↔ s.stateLock = some i)
  qLock : ∀ t h, s.qlock[t]? = some (some h) → ∃ pc, s.pcs[h]? = some pc ∧ holdsQ s.active h pc t
  own : ∀ i pc, s.pcs[i]? = some pc → ownOK s.queues s.active i pc

theorem holdsQ_of_not_holdsS {A A' h t : Nat} {pc : Pc} (hn : holdsS pc = false) :
    holdsQ A h pc t → holdsQ A' h pc t := by
  cases pc <;> simp [holdsS, holdsQ] at hn ⊢

theorem holdsS_of_holdsQ_ne {A h t : Nat} {pc : Pc} (hq : holdsQ A h pc t) (hne : t ≠ h) : holdsS pc = true := by
  cases pc <;> simp_all [holdsS, holdsQ]

theorem ownOK_of_not_holdsS {Q : List (List Nat)} {A i : Nat} {pc : Pc} (hn : holdsS pc = false) : ownOK Q A i pc := by
  cases pc <;> simp [holdsS, ownOK] at hn ⊢

theorem ownOK_frame {Q Q' : List (List Nat)} {A i : Nat} {pc : Pc} (hq : Q'[i]? = Q[i]?) (h : ownOK Q A i pc) :
    ownOK Q' A i pc := by
  cases pc <;> simp_all [ownOK]

/-- two workers cannot both hold `S` -/
theorem Inv.holder_unique {s : ExSt} (hI : Inv s) {i k : Nat} {pc pck : Pc} (hi : s.pcs[i]? = some pc)
    (hk : s.pcs[k]? = some pck) (h1 : holdsS pc = true) (h2 : holdsS pck = true) : k = i := by
  have a := (hI.sLock i pc hi).1 h1
  have b := (hI.sLock k pck hk).1 h2
  rw [a] at b; injection b with b; exact b.symm

/-- generic preservation: worker `i` moves from `pc` to `pc'` -/
theorem Inv.step_generic {s s' : ExSt} {i : Nat} {pc pc' : Pc} (hI : Inv s) (hpc : s.pcs[i]? = some pc)
    (hpcs : s'.pcs = s.pcs.set i pc')
    (hQlen : s'.queues.length = s.queues.length) (hLlen : s'.qlock.length = s.qlock.length)
    (hA : s'.active ≤ s.active)
    (hSL : s'.stateLock = if holdsS pc' then some i else if holdsS pc then none else s.stateLock)
    (hfree : holdsS pc' = true → holdsS pc = false → s.stateLock = none)
    (hL : ∀ t h, s'.qlock[t]? = some (some h) →
      (h = i ∧ holdsQ s'.active i pc' t) ∨ (h ≠ i ∧ s.qlock[t]? = some (some h)))
    (hframe : holdsS pc = false → s'.active = s.active ∧ ∀ t, t ≠ i → s'.queues[t]? = s.queues[t]?)
    (hown : ownOK s'.queues s'.active i pc') : Inv s' := by
  have hin : i < s.pcs.length := by
    rcases Nat.lt_or_ge i s.pcs.length with h | h
    · exact h
    · rw [List.getElem?_eq_none h] at hpc; cases hpc
  have hother : ∀ k, k ≠ i → s'.pcs[k]? = s.pcs[k]? := by
    intro k hk; rw [hpcs, List.getElem?_set_ne (Ne.symm hk)]
  have hself : s'.pcs[i]? = some pc' := by
    rw [hpcs, List.getElem?_set_self hin]
  have hSi := hI.sLock i pc hpc
  refine ⟨?_, ?_, ?_, ?_, ?_, ?_⟩
  · rw [hQlen, hpcs, List.length_set]; exact hI.lenQ
  · rw [hLlen, hpcs, List.length_set]; exact hI.lenL
  · rw [hpcs, List.length_set]; exact Nat.le_trans hA hI.actLe
  · intro k pck hk
    by_cases hki : k = i
    · subst hki
      rw [hself] at hk; injection hk with hk; subst hk
      rw [hSL]
      cases h1 : holdsS pc'
      · cases h2 : holdsS pc
        · simp only [Bool.false_eq_true, if_false, false_iff]
          intro h; exact absurd (hSi.2 h) (by simp [h2])
        · simp
      · simp
    · rw [hother k hki] at hk
      have hSk := hI.sLock k pck hk
      rw [hSL]
      cases h1 : holdsS pc'
      · cases h2 : holdsS pc
        · simpa using hSk
        · have : s.stateLock = some i := hSi.1 h2
          simp only [Bool.false_eq_true, if_false, if_true]
          constructor
          · intro h; have := hSk.1 h; simp_all
          · intro h; cases h
      · simp only [if_true]
        constructor
        · intro h
          have hk' := hSk.1 h
          cases h2 : holdsS pc
          · rw [hfree h1 h2] at hk'; cases hk'
          · rw [hSi.1 h2] at hk'; injection hk' with hk'; exact absurd hk'.symm hki
        · intro h; injection h with h; exact absurd h.symm hki
  · intro t h hq
    rcases hL t h hq with ⟨rfl, hh⟩ | ⟨hne, hq0⟩
    · exact ⟨pc', hself, hh⟩
    · obtain ⟨pch, hpch, hh⟩ := hI.qLock t h hq0
      refine ⟨pch, by rw [hother h hne]; exact hpch, ?_⟩
      cases h2 : holdsS pc
      · rw [(hframe h2).1]; exact hh
      · have : holdsS pch = false := by
          cases h3 : holdsS pch
          · rfl
          · exact absurd (hI.holder_unique hpc hpch h2 h3) hne
        exact holdsQ_of_not_holdsS this hh
  · intro k pck hk
    by_cases hki : k = i
    · subst hki
      rw [hself] at hk; injection hk with hk; subst hk; exact hown
    · rw [hother k hki] at hk
      cases h2 : holdsS pc
      · have hf := hframe h2
        rw [hf.1]
        exact ownOK_frame (hf.2 k hki) (hI.own k pck hk)
      · have : holdsS pck = false := by
          cases h3 : holdsS pck
          · rfl
          · exact absurd (hI.holder_unique hpc hk h2 h3) hki
        exact ownOK_of_not_holdsS this


theorem takeWhile_length_not {α : Type} (p : α → Bool) (l : List α) (x : α)
    (h : l[(l.takeWhile p).length]? = some x) : p x = false := by
  induction l with
  | nil => simp at h
  | cons a l ih =>
    cases hp : p a
    · simp [List.takeWhile, hp] at h; rw [← h]; exact hp
    · simp [List.takeWhile, hp] at h; exact ih h

/-- after `balance`, the queues before the empty tail are all non-empty -/
theorem bal_nonempty {bal : Bal} (hb : BalSpec bal) {A : Nat} {Q : List (List Nat)} (hA : 0 < A) (hle : A ≤ Q.length)
    {k : Nat} (hk : k < A - emptyTail (bal A Q) A) : (bal A Q)[k]?.getD [] ≠ [] := by
  obtain ⟨hlen, _, _, hsz⟩ := hb A Q hA hle
  generalize hQ' : bal A Q = Q' at *
  generalize hT : (Q.take A).flatten.length = T at *
  have hl : ((Q'.take A).reverse).length = A := by simp [hlen]; omega
  have hd : emptyTail Q' A < A := by omega
  have hdl : emptyTail Q' A < ((Q'.take A).reverse).length := by omega
  have hx := takeWhile_length_not (·.isEmpty) (Q'.take A).reverse ((Q'.take A).reverse[emptyTail Q' A]'hdl)
    (by unfold emptyTail; exact List.getElem?_eq_getElem _)
  simp only [List.getElem_reverse, List.getElem_take] at hx
  have hlt : (Q'.take A).length - 1 - emptyTail Q' A < Q'.length := by simp; omega
  have hidx : (Q'.take A).length - 1 - emptyTail Q' A = A - 1 - emptyTail Q' A := by simp; omega
  have h1 := hsz (A - 1 - emptyTail Q' A) (by omega)
  have h2 := hsz k (by omega)
  have hne : (Q'[A - 1 - emptyTail Q' A]?.getD []).length ≠ 0 := by
    rw [List.getElem?_eq_getElem (by omega)]
    simp only [Option.getD_some]
    intro h0
    have := List.eq_nil_of_length_eq_zero h0
    simp only [hidx] at hx
    rw [this] at hx; simp at hx
  intro hk0
  rw [hk0] at h2
  simp only [List.length_nil] at h2
  split at h1 <;> split at h2 <;> omega

/-! ### the initial state -/

theorem Inv_init (qs : List (List Nat)) : Inv (init qs) := by
  refine ⟨by simp [init], by simp [init], by simp [init], ?_, ?_, ?_⟩
  · intro i pc h
    simp only [init, List.getElem?_replicate] at h
    split at h
    · injection h with h; subst h; simp [holdsS, init]
    · cases h
  · intro t h hq
    simp only [init, List.getElem?_replicate] at hq
    split at hq
    · injection hq with hq; cases hq
    · cases hq
  · intro i pc h
    simp only [init, List.getElem?_replicate] at h
    split at h
    · injection h with h; subst h; simp [ownOK]
    · cases h

/-! ### preservation, one lemma per program counter -/

theorem qlock_some_of_beq {s : ExSt} {t : Nat} (h : (s.qlock[t]? == some none) = true) : s.qlock[t]? = some none := by
  simpa using h

theorem lt_of_getElem?_eq_some {α : Type} {l : List α} {i : Nat} {x : α} (h : l[i]? = some x) : i < l.length := by
  rcases Nat.lt_or_ge i l.length with h' | h'
  · exact h'
  · rw [List.getElem?_eq_none h'] at h; cases h

/-- `hL` of `step_generic` when the queue locks do not change -/
theorem hL_same {s : ExSt} (hI : Inv s) {i : Nat} {pc pc' : Pc} {A' : Nat} (hpc : s.pcs[i]? = some pc)
    (himp : ∀ t, holdsQ s.active i pc t → holdsQ A' i pc' t) :
    ∀ t h, s.qlock[t]? = some (some h) → (h = i ∧ holdsQ A' i pc' t) ∨ (h ≠ i ∧ s.qlock[t]? = some (some h)) := by
  intro t h hq
  by_cases hh : h = i
  · subst hh
    obtain ⟨pch, hpch, hh⟩ := hI.qLock t h hq
    rw [hpc] at hpch; injection hpch with hpch; subst hpch
    exact Or.inl ⟨rfl, himp t hh⟩
  · exact Or.inr ⟨hh, hq⟩

/-- `hL` of `step_generic` when queue lock `t0` is set to `v` -/
theorem hL_set {s : ExSt} (hI : Inv s) {i t0 : Nat} {v : Option Nat} {pc pc' : Pc} {A' : Nat}
    (hpc : s.pcs[i]? = some pc)
    (himp : ∀ t, t ≠ t0 → holdsQ s.active i pc t → holdsQ A' i pc' t)
    (hv : ∀ h, v = some h → h = i ∧ holdsQ A' i pc' t0) :
    ∀ t h, (s.qlock.set t0 v)[t]? = some (some h) →
      (h = i ∧ holdsQ A' i pc' t) ∨ (h ≠ i ∧ s.qlock[t]? = some (some h)) := by
  intro t h hq
  by_cases ht : t = t0
  · subst ht
    have hlt : t < s.qlock.length := by
      have := lt_of_getElem?_eq_some hq; simpa using this
    rw [List.getElem?_set_self hlt] at hq
    injection hq with hq
    exact Or.inl (hv h hq)
  · rw [List.getElem?_set_ne (Ne.symm ht)] at hq
    by_cases hh : h = i
    · subst hh
      obtain ⟨pch, hpch, hh⟩ := hI.qLock t h hq
      rw [hpc] at hpch; injection hpch with hpch; subst hpch
      exact Or.inl ⟨rfl, himp t ht hh⟩
    · exact Or.inr ⟨hh, hq⟩

theorem Inv_step_top {bal : Bal} {s s' : ExSt} {i : Nat} (hI : Inv s) (hpc : s.pcs[i]? = some .top)
    (hs : step bal s i = some s') : Inv s' := by
  simp only [step, hpc] at hs
  split at hs
  · injection hs with hs; subst hs
    refine hI.step_generic hpc (pc' := .popped _) rfl (by simp [setPc, setQLock]) (by simp [setPc, setQLock])
      (Nat.le_refl _) (by simp [holdsS, setPc, setQLock]) (by simp [holdsS]) ?_ ?_ (by simp [ownOK])
    · exact hL_set hI hpc (by intro t _ h; simp [holdsQ] at h) (by intro h hh; injection hh with hh; subst hh; simp [holdsQ])
    · intro _; refine ⟨rfl, ?_⟩
      intro t ht; simp only [setPc, setQLock]; rw [List.getElem?_set_ne (Ne.symm ht)]
  · injection hs with hs; subst hs
    refine hI.step_generic hpc (pc' := .wantState) rfl rfl rfl (Nat.le_refl _) (by simp [holdsS, setPc])
      (by simp [holdsS]) ?_ (fun _ => ⟨rfl, fun _ _ => rfl⟩) (by simp [ownOK])
    exact hL_same hI hpc (by intro t h; simp [holdsQ] at h)

theorem Inv_step_popped {bal : Bal} {s s' : ExSt} {i : Nat} {item : Option Nat} (hI : Inv s)
    (hpc : s.pcs[i]? = some (.popped item)) (hs : step bal s i = some s') : Inv s' := by
  simp only [step, hpc] at hs
  injection hs with hs; subst hs
  cases item with
  | none =>
    refine hI.step_generic hpc (pc' := .wantState) rfl rfl
      (by simp [setPc, setQLock]) (Nat.le_refl _) (by simp [holdsS, setPc, setQLock])
      (by simp [holdsS]) ?_ (fun _ => ⟨rfl, fun _ _ => rfl⟩) (by simp [ownOK])
    exact hL_set hI hpc (by intro t ht h; simp [holdsQ] at h; exact absurd h ht) (by intro h hh; cases hh)
  | some x =>
    refine hI.step_generic hpc (pc' := .solving x) rfl rfl
      (by simp [setPc, setQLock]) (Nat.le_refl _) (by simp [holdsS, setPc, setQLock])
      (by simp [holdsS]) ?_ (fun _ => ⟨rfl, fun _ _ => rfl⟩) (by simp [ownOK])
    exact hL_set hI hpc (by intro t ht h; simp [holdsQ] at h; exact absurd h ht) (by intro h hh; cases hh)

theorem Inv_step_solving {bal : Bal} {s s' : ExSt} {i x : Nat} (hI : Inv s)
    (hpc : s.pcs[i]? = some (.solving x)) (hs : step bal s i = some s') : Inv s' := by
  simp only [step, hpc] at hs
  injection hs with hs; subst hs
  refine hI.step_generic hpc (pc' := .top) rfl rfl rfl (Nat.le_refl _) (by simp [holdsS, setPc])
    (by simp [holdsS]) ?_ (fun _ => ⟨rfl, fun _ _ => rfl⟩) (by simp [ownOK])
  exact hL_same hI hpc (by intro t h; simp [holdsQ] at h)

theorem Inv_step_wantState {bal : Bal} {s s' : ExSt} {i : Nat} (hI : Inv s)
    (hpc : s.pcs[i]? = some .wantState) (hs : step bal s i = some s') : Inv s' := by
  simp only [step, hpc] at hs
  split at hs
  · rename_i hnone
    injection hs with hs; subst hs
    refine hI.step_generic hpc (pc' := .haveState) rfl rfl rfl (Nat.le_refl _) (by simp [holdsS, setPc])
      (by intro _ _; simpa using hnone) ?_ (fun _ => ⟨rfl, fun _ _ => rfl⟩) (by simp [ownOK])
    exact hL_same hI hpc (by intro t h; simp [holdsQ] at h)
  · cases hs

theorem Inv_step_haveState {bal : Bal} {s s' : ExSt} {i : Nat} (hI : Inv s)
    (hpc : s.pcs[i]? = some .haveState) (hs : step bal s i = some s') : Inv s' := by
  simp only [step, hpc] at hs
  injection hs with hs; subst hs
  have hS := (hI.sLock i _ hpc).1 rfl
  refine hI.step_generic hpc (pc' := if i ≥ s.active then .exiting else .wantLocal) rfl rfl rfl (Nat.le_refl _)
    (by split <;> simp [holdsS, setPc, hS]) (by simp [holdsS]) ?_ (by simp [holdsS]) ?_
  · exact hL_same hI hpc (by intro t h; simp [holdsQ] at h)
  · split
    · simp [ownOK]
    · simp only [ownOK, setPc]; omega

theorem Inv_step_exiting {bal : Bal} {s s' : ExSt} {i : Nat} (hI : Inv s)
    (hpc : s.pcs[i]? = some .exiting) (hs : step bal s i = some s') : Inv s' := by
  simp only [step, hpc] at hs
  injection hs with hs; subst hs
  refine hI.step_generic hpc (pc' := .done) rfl rfl rfl (Nat.le_refl _) (by simp [holdsS, setPc])
    (by simp [holdsS]) ?_ (by simp [holdsS]) (by simp [ownOK])
  exact hL_same hI hpc (by intro t h; simp [holdsQ] at h)

theorem Inv_step_wantLocal {bal : Bal} {s s' : ExSt} {i : Nat} (hI : Inv s)
    (hpc : s.pcs[i]? = some .wantLocal) (hs : step bal s i = some s') : Inv s' := by
  simp only [step, hpc] at hs
  split at hs
  · injection hs with hs; subst hs
    have hS := (hI.sLock i _ hpc).1 rfl
    have hown := hI.own i _ hpc
    refine hI.step_generic hpc (pc' := .haveLocal) rfl rfl (by simp [setPc, setQLock]) (Nat.le_refl _)
      (by simp [holdsS, setPc, setQLock, hS]) (by simp [holdsS]) ?_ (by simp [holdsS]) ?_
    · exact hL_set hI hpc (by intro t _ h; simp [holdsQ] at h) (by intro h hh; injection hh with hh; subst hh; simp [holdsQ])
    · simpa [ownOK, setPc, setQLock] using hown
  · cases hs

theorem Inv_step_haveLocal {bal : Bal} {s s' : ExSt} {i : Nat} (hI : Inv s)
    (hpc : s.pcs[i]? = some .haveLocal) (hs : step bal s i = some s') : Inv s' := by
  simp only [step, hpc] at hs
  injection hs with hs; subst hs
  have hS := (hI.sLock i _ hpc).1 rfl
  have hown := hI.own i _ hpc
  refine hI.step_generic hpc (pc' := if (s.queues[i]?.getD []).length > 0 then .cont1 else .collect 0) rfl rfl rfl
    (Nat.le_refl _) (by split <;> simp [holdsS, setPc, hS]) (by simp [holdsS]) ?_ (by simp [holdsS]) ?_
  · refine hL_same hI hpc ?_
    intro t h; simp only [holdsQ] at h; subst h
    split <;> simp [holdsQ]
  · split
    · rename_i h
      simp only [ownOK, setPc]; intro h0; rw [h0] at h; simp at h
    · rename_i h
      simp only [ownOK, setPc]
      refine ⟨by simpa [ownOK] using hown, ?_⟩
      exact List.eq_nil_of_length_eq_zero (by omega)

theorem Inv_step_cont1 {bal : Bal} {s s' : ExSt} {i : Nat} (hI : Inv s)
    (hpc : s.pcs[i]? = some .cont1) (hs : step bal s i = some s') : Inv s' := by
  have hS := (hI.sLock i _ hpc).1 rfl
  simp only [step, hpc] at hs
  injection hs with hs; subst hs
  have hown := hI.own i _ hpc
  refine hI.step_generic hpc (pc' := .cont2) rfl rfl (by simp [setPc, setQLock]) (Nat.le_refl _)
    (by simp [holdsS, setPc, setQLock, hS]) (by simp [holdsS]) ?_ (by simp [holdsS]) ?_
  · exact hL_set hI hpc (by intro t ht h; simp [holdsQ] at h; exact absurd h ht) (by intro h hh; cases hh)
  · simpa [ownOK, setPc, setQLock] using hown

theorem Inv_step_cont2 {bal : Bal} {s s' : ExSt} {i : Nat} (hI : Inv s)
    (hpc : s.pcs[i]? = some .cont2) (hs : step bal s i = some s') : Inv s' := by
  simp only [step, hpc] at hs
  injection hs with hs; subst hs
  refine hI.step_generic hpc (pc' := .top) rfl rfl rfl (Nat.le_refl _) (by simp [holdsS, setPc])
    (by simp [holdsS]) ?_ (by simp [holdsS]) (by simp [ownOK])
  exact hL_same hI hpc (by intro t h; simp [holdsQ] at h)

theorem mem_others {i A t : Nat} : t ∈ others i A ↔ t < A ∧ t ≠ i := by
  simp [others]

theorem Inv_step_collect {bal : Bal} {s s' : ExSt} {i j : Nat} (hI : Inv s)
    (hpc : s.pcs[i]? = some (.collect j)) (hs : step bal s i = some s') : Inv s' := by
  have hS := (hI.sLock i _ hpc).1 rfl
  simp only [step, hpc] at hs
  have hown := hI.own i _ hpc
  split at hs
  · injection hs with hs; subst hs
    refine hI.step_generic hpc (pc' := .bal) rfl rfl rfl (Nat.le_refl _) (by simp [holdsS, setPc, hS])
      (by simp [holdsS]) ?_ (by simp [holdsS]) (by simpa [ownOK, setPc] using hown)
    refine hL_same hI hpc ?_
    intro t h
    simp only [holdsQ, setPc] at h ⊢
    rcases h with h | h
    · subst h; exact hown.1
    · exact (mem_others.1 (List.mem_of_mem_take h)).1
  · rename_i t0 ht0
    split at hs
    · injection hs with hs; subst hs
      refine hI.step_generic hpc (pc' := .collect (j + 1)) rfl rfl (by simp [setPc, setQLock]) (Nat.le_refl _)
        (by simp [holdsS, setPc, setQLock, hS]) (by simp [holdsS]) ?_ (by simp [holdsS])
        (by simpa [ownOK, setPc, setQLock] using hown)
      refine hL_set hI hpc ?_ ?_
      · intro t _ h
        simp only [holdsQ, setPc, setQLock] at h ⊢
        rcases h with h | h
        · exact Or.inl h
        · refine Or.inr ?_
          rw [List.take_add_one]; exact List.mem_append_left _ h
      · intro h hh; injection hh with hh; subst hh
        refine ⟨rfl, ?_⟩
        simp only [holdsQ, setPc, setQLock]
        refine Or.inr ?_
        rw [List.take_add_one, ht0]; simp
    · cases hs

theorem Inv_step_bal {bal : Bal} (hb : BalSpec bal) {s s' : ExSt} {i : Nat} (hI : Inv s)
    (hpc : s.pcs[i]? = some .bal) (hs : step bal s i = some s') : Inv s' := by
  have hS := (hI.sLock i _ hpc).1 rfl
  simp only [step, hpc] at hs
  injection hs with hs; subst hs
  have hown := hI.own i _ hpc
  have hA : 0 < s.active := by have := hown.1; omega
  have hle : s.active ≤ s.queues.length := by rw [hI.lenQ]; exact hI.actLe
  have hspec := hb s.active s.queues hA hle
  refine hI.step_generic hpc (pc' := .release 0 (emptyTail (bal s.active s.queues) s.active)) rfl
    (by simpa [setPc] using hspec.1) rfl (Nat.le_refl _) (by simp [holdsS, setPc, hS])
    (by simp [holdsS]) ?_ (by simp [holdsS]) ?_
  · refine hL_same hI hpc ?_
    intro t h
    simp only [holdsQ, setPc] at h ⊢
    exact ⟨Nat.zero_le _, h⟩
  · simp only [ownOK, setPc]
    by_cases hk : i < s.active - emptyTail (bal s.active s.queues) s.active
    · exact Or.inl (bal_nonempty hb hA hle hk)
    · exact Or.inr (by omega)

theorem Inv_step_release {bal : Bal} {s s' : ExSt} {i j d : Nat} (hI : Inv s)
    (hpc : s.pcs[i]? = some (.release j d)) (hs : step bal s i = some s') : Inv s' := by
  have hS := (hI.sLock i _ hpc).1 rfl
  simp only [step, hpc] at hs
  have hown := hI.own i _ hpc
  split at hs
  · injection hs with hs; subst hs
    refine hI.step_generic hpc (pc' := .release (j + 1) d) rfl rfl (by simp [setPc, setQLock]) (Nat.le_refl _)
      (by simp [holdsS, setPc, setQLock, hS]) (by simp [holdsS]) ?_ (by simp [holdsS])
      (by simpa [ownOK, setPc, setQLock] using hown)
    refine hL_set hI hpc ?_ (by intro h hh; cases hh)
    intro t ht h
    simp only [holdsQ, setPc, setQLock] at h ⊢
    omega
  · injection hs with hs; subst hs
    refine hI.step_generic hpc (pc' := .dec d) rfl rfl rfl (Nat.le_refl _)
      (by simp [holdsS, setPc, hS]) (by simp [holdsS]) ?_ (by simp [holdsS])
      (by simpa [ownOK, setPc] using hown)
    refine hL_same hI hpc ?_
    intro t h
    simp only [holdsQ] at h ⊢
    omega

theorem Inv_step_dec {bal : Bal} {s s' : ExSt} {i d : Nat} (hI : Inv s)
    (hpc : s.pcs[i]? = some (.dec d)) (hs : step bal s i = some s') : Inv s' := by
  have hS := (hI.sLock i _ hpc).1 rfl
  simp only [step, hpc] at hs
  injection hs with hs; subst hs
  have hown := hI.own i _ hpc
  refine hI.step_generic hpc (pc' := .unlockState) rfl rfl rfl (by simp [setPc])
    (by simp [holdsS, setPc, hS]) (by simp [holdsS]) ?_ (by simp [holdsS])
    (by simpa [ownOK, setPc] using hown)
  exact hL_same hI hpc (by intro t h; simp [holdsQ] at h)

theorem Inv_step_unlockState {bal : Bal} {s s' : ExSt} {i : Nat} (hI : Inv s)
    (hpc : s.pcs[i]? = some .unlockState) (hs : step bal s i = some s') : Inv s' := by
  simp only [step, hpc] at hs
  injection hs with hs; subst hs
  refine hI.step_generic hpc (pc' := .top) rfl rfl rfl (Nat.le_refl _) (by simp [holdsS, setPc])
    (by simp [holdsS]) ?_ (by simp [holdsS]) (by simp [ownOK])
  exact hL_same hI hpc (by intro t h; simp [holdsQ] at h)

theorem Inv_step {bal : Bal} (hb : BalSpec bal) {s s' : ExSt} {i : Nat} (hI : Inv s)
    (hs : step bal s i = some s') : Inv s' := by
  cases hpc : s.pcs[i]? with
  | none => simp [step, hpc] at hs
  | some pc =>
    cases pc with
    | top => exact Inv_step_top hI hpc hs
    | popped item => exact Inv_step_popped hI hpc hs
    | solving x => exact Inv_step_solving hI hpc hs
    | wantState => exact Inv_step_wantState hI hpc hs
    | haveState => exact Inv_step_haveState hI hpc hs
    | exiting => exact Inv_step_exiting hI hpc hs
    | wantLocal => exact Inv_step_wantLocal hI hpc hs
    | haveLocal => exact Inv_step_haveLocal hI hpc hs
    | cont1 => exact Inv_step_cont1 hI hpc hs
    | cont2 => exact Inv_step_cont2 hI hpc hs
    | collect j => exact Inv_step_collect hI hpc hs
    | bal => exact Inv_step_bal hb hI hpc hs
    | release j d => exact Inv_step_release hI hpc hs
    | dec d => exact Inv_step_dec hI hpc hs
    | unlockState => exact Inv_step_unlockState hI hpc hs
    | done => simp [step, hpc] at hs

/-- every reachable state satisfies the invariant -/
theorem Inv_reach {bal : Bal} (hb : BalSpec bal) {qs : List (List Nat)} {s : ExSt} (h : Reach bal (init qs) s) : Inv s := by
  induction h with
  | refl => exact Inv_init qs
  | step i _ hs ih => exact Inv_step hb ih hs

end TB.Exec.Term