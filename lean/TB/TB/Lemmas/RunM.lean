/-
  Helper lemmas (RunM).
-/
import TB.Spec.ExportSpec
namespace TB.RunM

end TB.RunM
