/-
  Helper lemmas (RunM): the frame of a run at tree level (C03frame).

  * `FrInv`: a name that is not an export image keeps its inode and its content (the structural part is `RunK.SInv`);
  * `applyOp_isDir`: no logged operation removes a directory;
  * `OpFactM`/`run_opFactM`: an `openc` of the run names an export image, a `mkdirs` the parent of one;
  * `NInv`: names and directories of the replayed tree are old or (prefixes of) export images.
-/
import TB.Spec.ExportSpec
import TB.Lemmas.RunK
namespace TB.RunM
open TB

variable {table : List TEntry} {fs0 : Fs}

/-! ### a file outside the export images -/

/-- the name `p` (inode `i` at the start) is outside the images; its content is the initial one -/
structure FrInv (table : List TEntry) (i : Nat) (fs0 fs : Fs) : Prop where
  s : RunK.SInv table fs0 fs
  c : fs.content i = fs0.content i

theorem FrInv.step {H : Bytes → Bytes} {work : List Work} {p : Path} {i : Nat} {fs : Fs}
    (hp : fs0.inoOf p = some i)
    (hout : ∀ e ∈ table, e.isPad = false → e.fullTarget ≠ p)
    (o : Op) (hf : RunJ.OpFact H work table o) (h : FrInv table i fs0 fs) : FrInv table i fs0 (applyOp fs o) := by
  refine ⟨h.s.step o, ?_⟩
  have hi' := h.s.keep _ _ hp
  rcases RunK.applyOp_content o i (h.s.lt _ _ hi') with e | ⟨hl, hk⟩
  · rw [e]; exact h.c
  · exfalso
    have hio := RunF.look_file_inoOf hl
    obtain ⟨e, he, hpe, hpath⟩ := RunK.opFact_path hf (by
      rcases hk with ⟨n, hk, _⟩ | ⟨off, d, hk, _⟩
      · exact Or.inl ⟨n, hk⟩
      · exact Or.inr ⟨off, d, hk⟩)
    rw [hpath] at hio
    exact hout e he hpe (h.s.na e he hpe _ _ hio hi').symm

theorem frame (H : Bytes → Bytes) (inp : RunIn) (hwf : FsWF inp.fs)
    (hna : RunJ.NoAl inp.fs (run H inp).table) (p : Path) (i : Nat)
    (hp : inp.fs.inoOf p = some i)
    (hout : ∀ e ∈ (run H inp).table, e.isPad = false → e.fullTarget ≠ p)
    (ops : List Op) (hops : ∀ o ∈ ops, o ∈ (run H inp).ops) :
    (replay inp.fs ops).inoOf p = some i ∧ (replay inp.fs ops).content i = inp.fs.content i := by
  have h0 : FrInv (run H inp).table i inp.fs inp.fs := ⟨RunK.SInv.base hwf hna, rfl⟩
  have := RunK.replay_ind (Q := FrInv (run H inp).table i inp.fs)
    (F := RunJ.OpFact H (run H inp).work (run H inp).table)
    (fun fs o hf h => FrInv.step hp hout o hf h) ops inp.fs
    (fun o ho => RunJ.run_opFact H inp o (hops o ho)) h0
  exact ⟨this.s.keep p i hp, this.c⟩

/-! ### directories are never removed -/

theorem applyOp_isDir {fs : Fs} (o : Op) {d : Path} (hd : fs.isDir d = true) : (applyOp fs o).isDir d = true := by
  unfold applyOp
  cases o.kind with
  | mkdirs =>
    simp only []
    split
    · exact (RunF.mkdirs_spec fs o.path).2.2.2.1 d hd
    · exact hd
  | openc =>
    simp only []
    split
    · rcases RunF.openCreate_cases fs o.path with e | ⟨_, e⟩
      · rw [e]; exact hd
      · rw [e, RunF.isDir_addFile]; exact hd
    · exact hd
  | setlen n =>
    simp only []
    split
    · cases fs.look o.path with
      | file i => exact hd
      | _ => exact hd
    · exact hd
  | write off b =>
    simp only []
    split
    · cases fs.look o.path with
      | file i => exact hd
      | _ => exact hd
    · exact hd
  | _ => exact hd

theorem replay_isDir (ops : List Op) (fs : Fs) {d : Path} (hd : fs.isDir d = true) :
    (replay fs ops).isDir d = true :=
  RunK.replay_ind (Q := fun fs => fs.isDir d = true) (F := fun _ => True)
    (fun _ o _ h => applyOp_isDir o h) ops fs (fun _ _ => trivial) hd

/-! ### what `create_dir_all` adds -/

theorem mkdirsAux_new (l : List Path) : ∀ (fs fs' : Fs), Fs.mkdirsAux fs l = some fs' →
    ∀ d, fs'.isDir d = true → fs.isDir d = true ∨ d ∈ l := by
  induction l with
  | nil =>
    intro fs fs' h d hd
    simp only [Fs.mkdirsAux, Option.some.injEq] at h
    subst h
    exact Or.inl hd
  | cons q rest ih =>
    intro fs fs' h d hd
    simp only [Fs.mkdirsAux] at h
    split at h
    · rcases ih _ _ h d hd with h' | h'
      · exact Or.inl h'
      · exact Or.inr (List.mem_cons_of_mem _ h')
    · split at h
      · cases h
      · rcases ih _ _ h d hd with h' | h'
        · rw [RunF.isDir_cons, Bool.or_eq_true] at h'
          rcases h' with h' | h'
          · exact Or.inl h'
          · right
            have : d = q := by simpa using h'
            rw [this]; exact List.mem_cons_self
        · exact Or.inr (List.mem_cons_of_mem _ h')

theorem prefix_of_mem {p d : Path} (h : d ∈ Fs.properPrefixes p ++ [p]) : Path.isPrefixOf d p := by
  rcases List.mem_append.1 h with h | h
  · obtain ⟨n, _, _, rfl⟩ := RunF.mem_properPrefixes.1 h
    exact ⟨p.drop n, (List.take_append_drop n p).symm⟩
  · rw [List.mem_singleton] at h
    subst h
    exact ⟨[], (List.append_nil _).symm⟩

theorem mkdirs_new (fs : Fs) (p d : Path) (hd : (fs.mkdirs p).1.isDir d = true) :
    fs.isDir d = true ∨ Path.isPrefixOf d p := by
  unfold Fs.mkdirs at hd
  split at hd
  · rename_i fs' h
    rcases mkdirsAux_new _ _ _ h d hd with h' | h'
    · exact Or.inl h'
    · exact Or.inr (prefix_of_mem h')
  · exact Or.inl hd

/-! ### names and directories after one operation -/

theorem applyOp_inoOf {fs : Fs} (o : Op) {q : Path} {j : Nat} (h : (applyOp fs o).inoOf q = some j) :
    fs.inoOf q = some j ∨ (o.kind = .openc ∧ q = o.path) := by
  unfold applyOp at h
  cases hk : o.kind with
  | mkdirs =>
    rw [hk] at h
    simp only [] at h
    split at h
    · rw [RunF.inoOf_congr (RunF.mkdirs_spec fs o.path).1] at h; exact Or.inl h
    · exact Or.inl h
  | openc =>
    rw [hk] at h
    simp only [] at h
    split at h
    · rcases RunF.openCreate_cases fs o.path with e | ⟨_, e⟩
      · rw [e] at h; exact Or.inl h
      · rw [e, RunF.inoOf_addFile] at h
        split at h
        · rename_i e'; exact Or.inr ⟨rfl, e'.symm⟩
        · exact Or.inl h
    · exact Or.inl h
  | setlen n =>
    rw [hk] at h
    simp only [] at h
    split at h
    · cases hl : fs.look o.path with
      | file i => rw [hl] at h; exact Or.inl h
      | notFound => rw [hl] at h; exact Or.inl h
      | notDir => rw [hl] at h; exact Or.inl h
      | dir => rw [hl] at h; exact Or.inl h
    · exact Or.inl h
  | write off b =>
    rw [hk] at h
    simp only [] at h
    split at h
    · cases hl : fs.look o.path with
      | file i => rw [hl] at h; exact Or.inl h
      | notFound => rw [hl] at h; exact Or.inl h
      | notDir => rw [hl] at h; exact Or.inl h
      | dir => rw [hl] at h; exact Or.inl h
    · exact Or.inl h
  | stat => rw [hk] at h; exact Or.inl h
  | openr => rw [hk] at h; exact Or.inl h
  | openrw => rw [hk] at h; exact Or.inl h
  | seek n => rw [hk] at h; exact Or.inl h
  | read => rw [hk] at h; exact Or.inl h

theorem applyOp_isDir_new {fs : Fs} (o : Op) {d : Path} (h : (applyOp fs o).isDir d = true) :
    fs.isDir d = true ∨ (o.kind = .mkdirs ∧ Path.isPrefixOf d o.path) := by
  unfold applyOp at h
  cases hk : o.kind with
  | mkdirs =>
    rw [hk] at h
    simp only [] at h
    split at h
    · rcases mkdirs_new fs o.path d h with h' | h'
      · exact Or.inl h'
      · exact Or.inr ⟨rfl, h'⟩
    · exact Or.inl h
  | openc =>
    rw [hk] at h
    simp only [] at h
    split at h
    · rcases RunF.openCreate_cases fs o.path with e | ⟨_, e⟩
      · rw [e] at h; exact Or.inl h
      · rw [e, RunF.isDir_addFile] at h; exact Or.inl h
    · exact Or.inl h
  | setlen n =>
    rw [hk] at h
    simp only [] at h
    split at h
    · cases hl : fs.look o.path with
      | file i => rw [hl] at h; exact Or.inl h
      | notFound => rw [hl] at h; exact Or.inl h
      | notDir => rw [hl] at h; exact Or.inl h
      | dir => rw [hl] at h; exact Or.inl h
    · exact Or.inl h
  | write off b =>
    rw [hk] at h
    simp only [] at h
    split at h
    · cases hl : fs.look o.path with
      | file i => rw [hl] at h; exact Or.inl h
      | notFound => rw [hl] at h; exact Or.inl h
      | notDir => rw [hl] at h; exact Or.inl h
      | dir => rw [hl] at h; exact Or.inl h
    · exact Or.inl h
  | stat => rw [hk] at h; exact Or.inl h
  | openr => rw [hk] at h; exact Or.inl h
  | openrw => rw [hk] at h; exact Or.inl h
  | seek n => rw [hk] at h; exact Or.inl h
  | read => rw [hk] at h; exact Or.inl h

/-! ### the creating operations of a run -/

/-- an `openc` names the image of a non-padding table entry, a `mkdirs` the parent of one -/
def OpFactM (table : List TEntry) (o : Op) : Prop :=
  (o.kind = .openc → ∃ e ∈ table, e.isPad = false ∧ o.path = e.fullTarget) ∧
  (o.kind = .mkdirs → ∃ e ∈ table, e.isPad = false ∧ o.path = e.fullTarget.dropLast)

theorem run_opFactM (H : Bytes → Bytes) (inp : RunIn) :
    ∀ o ∈ (run H inp).ops, OpFactM (run H inp).table o := by
  intro o ho
  rcases (run_inv H inp).2 o ho with (h | h | ⟨e, he, hp, hkind, hpath⟩) | ⟨w, hw, h, hent⟩
  · exact ⟨fun hk => (by rw [h] at hk; cases hk), fun hk => (by rw [h] at hk; cases hk)⟩
  · exact ⟨fun hk => (by rw [h] at hk; cases hk), fun hk => (by rw [h] at hk; cases hk)⟩
  · refine ⟨fun hk => ?_, fun hk => ?_⟩
    · rcases hkind with h | h <;> (rw [h] at hk; cases hk)
    · rcases hkind with h | h <;> (rw [h] at hk; cases hk)
  · rcases h with h | ⟨buf, hb, k, seg, hseg, hp, hs⟩
    · refine ⟨fun hk => ?_, fun hk => ?_⟩
      · rcases h with h | ⟨m, h⟩ | h <;> (rw [h] at hk; cases hk)
      · rcases h with h | ⟨m, h⟩ | h <;> (rw [h] at hk; cases hk)
    · have hmem := List.mem_of_getElem? hseg
      have hc := hs.confined.1
      refine ⟨fun hk => ?_, fun hk => ?_⟩
      · refine ⟨seg.ent, hent seg hmem, hp, ?_⟩
        rw [hk] at hc; simpa using hc
      · refine ⟨seg.ent, hent seg hmem, hp, ?_⟩
        rw [hk] at hc; simpa using hc

/-! ### nothing new elsewhere -/

structure NInv (table : List TEntry) (fs0 fs : Fs) : Prop where
  f : ∀ q j, fs.inoOf q = some j →
    fs0.inoOf q = some j ∨ ∃ e ∈ table, e.isPad = false ∧ e.fullTarget = q
  d : ∀ d, fs.isDir d = true →
    fs0.isDir d = true ∨ ∃ e ∈ table, e.isPad = false ∧ Path.isPrefixOf d e.fullTarget.dropLast

theorem NInv.step {fs : Fs} (o : Op) (hf : OpFactM table o) (h : NInv table fs0 fs) :
    NInv table fs0 (applyOp fs o) := by
  refine ⟨?_, ?_⟩
  · intro q j hq
    rcases applyOp_inoOf o hq with h' | ⟨hk, rfl⟩
    · exact h.f q j h'
    · obtain ⟨e, he, hp, hpath⟩ := hf.1 hk
      exact Or.inr ⟨e, he, hp, hpath.symm⟩
  · intro d hd
    rcases applyOp_isDir_new o hd with h' | ⟨hk, hpre⟩
    · exact h.d d h'
    · obtain ⟨e, he, hp, hpath⟩ := hf.2 hk
      rw [hpath] at hpre
      exact Or.inr ⟨e, he, hp, hpre⟩

theorem nothing_new (H : Bytes → Bytes) (inp : RunIn) (ops : List Op) (hops : ∀ o ∈ ops, o ∈ (run H inp).ops) :
    NInv (run H inp).table inp.fs (replay inp.fs ops) :=
  RunK.replay_ind (Q := NInv (run H inp).table inp.fs) (F := OpFactM (run H inp).table)
    (fun _ o hf h => h.step o hf) ops inp.fs (fun o ho => run_opFactM H inp o (hops o ho))
    ⟨fun _ _ h => Or.inl h, fun _ h => Or.inl h⟩

end TB.RunM
