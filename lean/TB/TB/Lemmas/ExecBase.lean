/-
  Helper lemmas for C05: the safety invariant of the executor transition system — definitions and generic
  list lemmas.
-/
import TB.Spec.ExecSpec
namespace TB.Exec

/-! ### classification of program counters -/

/-- program counters at which the worker holds the state lock `S` -/
def holdsS : Pc → Bool
  | .haveState | .exiting | .wantLocal | .haveLocal | .cont1 | .cont2 | .collect _ | .bal
  | .release _ _ | .dec _ | .unlockState => true
  | _ => false

/-- program counters that are only reached by a worker `i < active_threads` -/
def needsActive : Pc → Bool
  | .wantLocal | .haveLocal | .collect _ | .bal | .release _ _ => true
  | _ => false

/-- program counters only reached by a worker `i ≥ active_threads` -/
def exited : Pc → Bool
  | .exiting | .done => true
  | _ => false

/-- the pending deactivation count -/
def pendingDec : Pc → Option Nat
  | .release _ d => some d
  | .dec d => some d
  | _ => none

/-- the item a worker has in hand -/
def hand : Pc → Option Nat
  | .popped (some x) => some x
  | .solving x => some x
  | _ => none

/-- the queue locks worker `h` may hold at program counter `pc` (`a` = `active_threads`) -/
def mayHold (a h : Nat) (pc : Pc) (j : Nat) : Prop :=
  match pc with
  | .popped _ => j = h
  | .haveLocal => j = h
  | .cont1 => j = h
  | .collect k => j = h ∨ j ∈ (others h a).take k
  | .bal => j < a
  | .release k _ => k ≤ j ∧ j < a
  | _ => False

theorem inHand_eq (s : ExSt) : inHand s = s.pcs.filterMap hand := by
  unfold inHand
  congr 1

theorem holdsS_of_needsActive {pc : Pc} (h : needsActive pc = true) : holdsS pc = true := by
  cases pc <;> simp_all [needsActive, holdsS]

theorem holdsS_of_pendingDec {pc : Pc} {d : Nat} (h : pendingDec pc = some d) : holdsS pc = true := by
  cases pc <;> simp_all [pendingDec, holdsS]

theorem mayHold_of_not_holdsS {a a' h j : Nat} {pc : Pc} (hn : holdsS pc = false)
    (hm : mayHold a h pc j) : mayHold a' h pc j := by
  cases pc <;> simp_all [mayHold, holdsS]

/-! ### the per-worker invariant and the global invariant -/

/-- what worker `i` at `pc` knows about the state lock, `active_threads` and the queues -/
structure WInv (st : Option Nat) (act : Nat) (qs : List (List Nat)) (i : Nat) (pc : Pc) : Prop where
  hs : holdsS pc = true → st = some i
  na : needsActive pc = true → i < act
  ex : exited pc = true → act ≤ i
  pd : ∀ d, pendingDec pc = some d → ∀ j, act - d ≤ j → qs[j]?.getD [] = []

/-- the inductive safety invariant (`qs0` = the initial queues) -/
structure Inv (qs0 : List (List Nat)) (s : ExSt) : Prop where
  lenQ : s.queues.length = s.pcs.length
  lenL : s.qlock.length = s.pcs.length
  actLe : s.active ≤ s.pcs.length
  cons : List.Perm (s.solved ++ inHand s ++ s.queues.flatten) qs0.flatten
  sHeld : ∀ h, s.stateLock = some h → ∃ pc, s.pcs[h]? = some pc ∧ holdsS pc = true
  wrk : ∀ i pc, s.pcs[i]? = some pc → WInv s.stateLock s.active s.queues i pc
  qHold : ∀ j h, s.qlock[j]? = some (some h) → ∃ pc, s.pcs[h]? = some pc ∧ mayHold s.active h pc j
  tail : ∀ j, s.active ≤ j → s.queues[j]?.getD [] = []

theorem WInv.mono_q {st : Option Nat} {a : Nat} {qs qs' : List (List Nat)} {i : Nat} {pc : Pc}
    (hq : ∀ j : Nat, qs[j]?.getD [] = [] → qs'[j]?.getD [] = []) (h : WInv st a qs i pc) : WInv st a qs' i pc :=
  ⟨h.hs, h.na, h.ex, fun d hd j hj => hq j (h.pd d hd j hj)⟩

theorem WInv.of_not_holdsS {st st' : Option Nat} {a a' : Nat} {qs qs' : List (List Nat)} {i : Nat} {pc : Pc}
    (hn : holdsS pc = false) (ha : a' ≤ a) (h : WInv st a qs i pc) : WInv st' a' qs' i pc := by
  refine ⟨fun h' => ?_, fun h' => ?_, fun h' => ?_, fun d hd => ?_⟩
  · rw [hn] at h'; cases h'
  · rw [holdsS_of_needsActive h'] at hn; cases hn
  · exact Nat.le_trans ha (h.ex h')
  · rw [holdsS_of_pendingDec hd] at hn; cases hn

theorem WInv.triv {st : Option Nat} {a : Nat} {qs : List (List Nat)} {i : Nat} {pc : Pc}
    (h1 : holdsS pc = false) (h2 : exited pc = false) : WInv st a qs i pc := by
  refine ⟨fun h' => ?_, fun h' => ?_, fun h' => ?_, fun d hd => ?_⟩
  · rw [h1] at h'; cases h'
  · rw [holdsS_of_needsActive h'] at h1; cases h1
  · rw [h2] at h'; cases h'
  · rw [holdsS_of_pendingDec hd] at h1; cases h1

theorem Inv.other_not_holdsS {qs0 : List (List Nat)} {s : ExSt} (hinv : Inv qs0 s) {i j : Nat} {pc : Pc}
    (hst : s.stateLock = some i) (hne : j ≠ i) (hj : s.pcs[j]? = some pc) : holdsS pc = false := by
  cases hh : holdsS pc with
  | false => rfl
  | true =>
    have := (hinv.wrk j pc hj).hs hh
    rw [hst] at this
    exact absurd (Option.some.inj this).symm hne

theorem Inv.none_not_holdsS {qs0 : List (List Nat)} {s : ExSt} (hinv : Inv qs0 s) {j : Nat} {pc : Pc}
    (hst : s.stateLock = none) (hj : s.pcs[j]? = some pc) : holdsS pc = false := by
  cases hh : holdsS pc with
  | false => rfl
  | true =>
    have := (hinv.wrk j pc hj).hs hh
    rw [hst] at this
    cases this

/-! ### generic list lemmas -/

theorem lt_of_getElem?_eq_some {α : Type} {l : List α} {i : Nat} {a : α} (h : l[i]? = some a) : i < l.length := by
  rcases List.getElem?_eq_some_iff.1 h with ⟨h', _⟩
  exact h'

theorem getElem?_set_self_of {α : Type} {l : List α} {i : Nat} {a b : α} (h : l[i]? = some a) :
    (l.set i b)[i]? = some b := by
  rw [List.getElem?_set]
  simp [lt_of_getElem?_eq_some h]

/-- a per-index property survives `set i` if it holds for the new value and transfers for the others -/
theorem forall_set {α : Type} {P : Nat → α → Prop} {l : List α} {i : Nat} {b : α}
    (hnew : P i b) (hold : ∀ j a, j ≠ i → l[j]? = some a → P j a) :
    ∀ j a, (l.set i b)[j]? = some a → P j a := by
  intro j a h
  by_cases hji : j = i
  · subst hji
    rw [List.getElem?_set] at h
    simp only [if_true] at h
    split at h
    · cases h; exact hnew
    · cases h
  · rw [List.getElem?_set_ne (fun e => hji e.symm)] at h
    exact hold j a hji h

theorem sHeld_set {st : Option Nat} {l : List Pc} {i : Nat} {pci pci' : Pc}
    (hq : ∀ h, st = some h → ∃ pc, l[h]? = some pc ∧ holdsS pc = true)
    (hi : l[i]? = some pci) (hk : holdsS pci = true → holdsS pci' = true) :
    ∀ h, st = some h → ∃ pc, (l.set i pci')[h]? = some pc ∧ holdsS pc = true := by
  intro h hst
  obtain ⟨pc, hpc, hh⟩ := hq h hst
  by_cases hhi : h = i
  · subst hhi
    rw [hi] at hpc; cases hpc
    exact ⟨pci', getElem?_set_self_of hi, hk hh⟩
  · exact ⟨pc, by rw [List.getElem?_set_ne (fun e => hhi e.symm)]; exact hpc, hh⟩

/-- lock ownership after worker `i` moves from `pci` to `pci'` without touching a queue lock -/
theorem qHold_pc {a : Nat} {ql : List (Option Nat)} {l : List Pc} {i : Nat} {pci pci' : Pc}
    (hq : ∀ j h, ql[j]? = some (some h) → ∃ pc, l[h]? = some pc ∧ mayHold a h pc j)
    (hi : l[i]? = some pci)
    (hkeep : ∀ j, mayHold a i pci j → mayHold a i pci' j) :
    ∀ j h, ql[j]? = some (some h) → ∃ pc, (l.set i pci')[h]? = some pc ∧ mayHold a h pc j := by
  intro j h hj
  obtain ⟨pc, hpc, hm⟩ := hq j h hj
  by_cases hhi : h = i
  · subst hhi
    rw [hi] at hpc; cases hpc
    exact ⟨pci', getElem?_set_self_of hi, hkeep j hm⟩
  · exact ⟨pc, by rw [List.getElem?_set_ne (fun e => hhi e.symm)]; exact hpc, hm⟩

/-- lock ownership after worker `i` moves from `pci` to `pci'` and sets queue lock `t` to `v` -/
theorem qHold_set {a : Nat} {ql : List (Option Nat)} {l : List Pc} {i : Nat} {pci pci' : Pc} (t : Nat)
    (v : Option Nat)
    (hq : ∀ j h, ql[j]? = some (some h) → ∃ pc, l[h]? = some pc ∧ mayHold a h pc j)
    (hi : l[i]? = some pci)
    (hkeep : ∀ j, j ≠ t → mayHold a i pci j → mayHold a i pci' j)
    (hnew : ∀ h, v = some h → h = i ∧ mayHold a i pci' t) :
    ∀ j h, (ql.set t v)[j]? = some (some h) → ∃ pc, (l.set i pci')[h]? = some pc ∧ mayHold a h pc j := by
  intro j h hj
  by_cases hjt : j = t
  · subst hjt
    rw [List.getElem?_set] at hj
    simp only [if_true] at hj
    split at hj
    · cases hj
      obtain ⟨rfl, hm⟩ := hnew h rfl
      exact ⟨pci', getElem?_set_self_of hi, hm⟩
    · cases hj
  · rw [List.getElem?_set_ne (fun e => hjt e.symm)] at hj
    obtain ⟨pc, hpc, hm⟩ := hq j h hj
    by_cases hhi : h = i
    · subst hhi
      rw [hi] at hpc; cases hpc
      exact ⟨pci', getElem?_set_self_of hi, hkeep j hjt hm⟩
    · exact ⟨pc, by rw [List.getElem?_set_ne (fun e => hhi e.symm)]; exact hpc, hm⟩

/-! ### conservation lemmas -/

theorem filterMap_set_eq {α β : Type} (f : α → Option β) {l : List α} {i : Nat} {a b : α}
    (hi : l[i]? = some a) (hf : f a = f b) : (l.set i b).filterMap f = l.filterMap f := by
  induction l generalizing i with
  | nil => simp
  | cons x l ih =>
    cases i with
    | zero =>
      simp only [List.getElem?_cons_zero, Option.some.injEq] at hi
      subst hi
      simp [List.filterMap_cons, hf]
    | succ i =>
      simp only [List.getElem?_cons_succ] at hi
      simp [List.filterMap_cons, ih hi]

theorem filterMap_set_perm {α β : Type} (f : α → Option β) {l : List α} {i : Nat} {a b : α}
    (hi : l[i]? = some a) :
    List.Perm ((f a).toList ++ (l.set i b).filterMap f) ((f b).toList ++ l.filterMap f) := by
  induction l generalizing i with
  | nil => simp at hi
  | cons x l ih =>
    cases i with
    | zero =>
      simp only [List.getElem?_cons_zero, Option.some.injEq] at hi
      subst hi
      simp only [List.set_cons_zero, List.filterMap_cons]
      cases hx : f x <;> cases hb : f b <;> simp [List.Perm.swap]
    | succ i =>
      simp only [List.getElem?_cons_succ] at hi
      simp only [List.set_cons_succ, List.filterMap_cons]
      have := ih hi
      cases hx : f x with
      | none => simpa using this
      | some y =>
        simp only
        refine (List.perm_middle).trans ?_
        refine List.Perm.trans ?_ (List.perm_middle).symm
        exact List.Perm.cons y this

theorem cons_move {A H H' Q Q' X : List Nat} (h1 : H'.Perm (X ++ H)) (h2 : (X ++ Q').Perm Q) :
    (A ++ H' ++ Q').Perm (A ++ H ++ Q) := by
  rw [List.append_assoc, List.append_assoc]
  refine List.Perm.append_left A ?_
  refine (List.Perm.append_right Q' h1).trans ?_
  refine (List.Perm.append_right Q' (List.perm_append_comm (l₁ := X) (l₂ := H))).trans ?_
  rw [List.append_assoc]
  exact List.Perm.append_left H h2

theorem flatten_set_dropLast (qs : List (List Nat)) (i : Nat) (q : List Nat) (hi : qs[i]? = some q) :
    List.Perm (q.getLast?.toList ++ (qs.set i q.dropLast).flatten) qs.flatten := by
  induction qs generalizing i with
  | nil => simp at hi
  | cons x qs ih =>
    cases i with
    | zero =>
      simp only [List.getElem?_cons_zero, Option.some.injEq] at hi
      subst hi
      simp only [List.set_cons_zero, List.flatten_cons]
      rw [← List.append_assoc]
      refine List.Perm.append_right _ ?_
      rcases List.eq_nil_or_concat x with rfl | ⟨l, b, rfl⟩
      · simp
      · simp
        exact (List.perm_append_comm : ([b] ++ l).Perm (l ++ [b]))
    | succ i =>
      simp only [List.getElem?_cons_succ] at hi
      simp only [List.set_cons_succ, List.flatten_cons]
      refine List.Perm.trans ?_ (List.Perm.append_left x (ih i hi))
      rw [← List.append_assoc, ← List.append_assoc]
      exact List.Perm.append_right _ List.perm_append_comm

theorem empty_set_dropLast (qs : List (List Nat)) (i j : Nat) (h : qs[j]?.getD [] = []) :
    (qs.set i (qs[i]?.getD []).dropLast)[j]?.getD [] = [] := by
  rw [List.getElem?_set]
  split
  · rename_i hij
    subst hij
    split
    · rw [h]; rfl
    · rfl
  · exact h

theorem flatten_eq_nil_of_forall (qs : List (List Nat)) (h : ∀ j : Nat, qs[j]?.getD [] = []) : qs.flatten = [] := by
  rw [List.flatten_eq_nil_iff]
  intro l hl
  obtain ⟨j, hj, rfl⟩ := List.getElem_of_mem hl
  have := h j
  rw [List.getElem?_eq_getElem hj] at this
  exact this

/-- the trailing `emptyTail qs a` queues among the first `a` are empty -/
theorem takeWhile_getElem? {α : Type} (p : α → Bool) (r : List α) (m : Nat) (h : m < (r.takeWhile p).length) :
    ∃ x, r[m]? = some x ∧ p x = true := by
  induction r generalizing m with
  | nil => simp at h
  | cons y r ih =>
    rw [List.takeWhile_cons] at h
    split at h
    · rename_i hy
      cases m with
      | zero => exact ⟨y, rfl, hy⟩
      | succ m =>
        simp only [List.length_cons, Nat.add_lt_add_iff_right] at h
        simpa using ih m h
    · simp at h

theorem emptyTail_spec (qs : List (List Nat)) (a : Nat) (ha : a ≤ qs.length) (j : Nat)
    (h1 : a - emptyTail qs a ≤ j) (h2 : j < a) : qs[j]?.getD [] = [] := by
  unfold emptyTail at h1
  have hlen : (qs.take a).length = a := by rw [List.length_take]; omega
  have hle : ((qs.take a).reverse.takeWhile (·.isEmpty)).length ≤ a := by
    have := (List.takeWhile_sublist (l := (qs.take a).reverse) (fun (x : List Nat) => x.isEmpty)).length_le
    rw [List.length_reverse, hlen] at this
    exact this
  have hm : a - 1 - j < ((qs.take a).reverse.takeWhile (·.isEmpty)).length := by omega
  obtain ⟨x, hx, hp⟩ := takeWhile_getElem? _ _ _ hm
  rw [List.getElem?_reverse (by rw [hlen]; omega), hlen, List.getElem?_take] at hx
  have e : a - 1 - (a - 1 - j) = j := by omega
  rw [e] at hx
  simp only [h2, if_true] at hx
  rw [hx]
  simpa using hp

end TB.Exec
