/-
  Helper lemmas (RunD): the tree of every state reachable by the model is the replay of the logged operations (C11).
-/
import TB.Lemmas.RunDBase
namespace TB.RD
/-! ### replay -/

def applyOpD (fs : Fs) (o : Op) : Fs :=
  match o.kind with
  | .mkdirs => if o.ok then (fs.mkdirs o.path).1 else fs
  | .openc => if o.ok then (fs.openCreate o.path).1 else fs
  | .setlen n => if o.ok then (match fs.look o.path with | .file i => fs.setLen i n | _ => fs) else fs
  | .write off d => if o.ok then (match fs.look o.path with | .file i => fs.writeAt i off d | _ => fs) else fs
  | _ => fs

def replayD (fs : Fs) (ops : List Op) : Fs := ops.foldl applyOpD fs

theorem applyOpD_failed (fs : Fs) (k : OpKind) (p : Path) : applyOpD fs ⟨k, p, false⟩ = fs := by
  cases k <;> rfl

structure Reach (st st' : St) : Prop where
  faults : st'.faults = st.faults
  ext : ∃ new, st'.ops = st.ops ++ new ∧ st'.fs = replayD st.fs new

theorem Reach.refl (st : St) : Reach st st := ⟨rfl, [], by simp, rfl⟩

theorem Reach.trans {a b c : St} (h1 : Reach a b) (h2 : Reach b c) : Reach a c := by
  obtain ⟨f1, n1, o1, r1⟩ := h1
  obtain ⟨f2, n2, o2, r2⟩ := h2
  refine ⟨f2.trans f1, n1 ++ n2, ?_, ?_⟩
  · rw [o2, o1, List.append_assoc]
  · rw [r2, r1, replayD, replayD, replayD, List.foldl_append]

/-- the natural effect of the operation agrees with `applyOpD` on the current tree -/
def Good (fs : Fs) (k : OpKind) (p : Path) (n : Fs → Fs × Bool) : Prop :=
  applyOpD fs ⟨k, p, (n fs).2⟩ = (n fs).1

theorem Reach.of_op {st st1 : St} {ok : Bool} {k : OpKind} {p : Path} {n : Fs → Fs × Bool}
    (h : st.op k p n = (st1, ok)) (hg : Good st.fs k p n) : Reach st st1 := by
  cases hc : st.faults.contains st.ops.length
  · rw [St.op_nofault _ _ _ hc] at h
    cases h
    exact ⟨rfl, [_], rfl, by simpa [replayD, List.foldl] using hg.symm⟩
  · rw [St.op_fault _ _ _ hc] at h
    cases h
    exact ⟨rfl, [_], rfl, by simp [replayD, List.foldl, applyOpD_failed]⟩

theorem Good.mkdirs (fs : Fs) (p : Path) : Good fs .mkdirs p (fun fs => fs.mkdirs p) := by
  unfold Good applyOpD
  simp only
  cases h : (fs.mkdirs p).2
  · simp only [Bool.false_eq_true, if_false]
    unfold Fs.mkdirs at h ⊢
    split at h
    · cases h
    · simp
  · simp

theorem Good.openc (fs : Fs) (p : Path) :
    Good fs .openc p (fun fs => let r := fs.openCreate p; (r.1, r.2.isSome)) := by
  unfold Good applyOpD
  simp only
  cases h : (fs.openCreate p).2.isSome
  · simp only [Bool.false_eq_true, if_false]
    unfold Fs.openCreate at h ⊢
    split <;> (try split) <;> simp_all
  · simp

theorem Good.setlen {fs : Fs} {p : Path} {i : Nat} (n : Nat) (h : fs.look p = .file i) :
    Good fs (.setlen n) p (fun fs => (fs.setLen i n, true)) := by
  unfold Good applyOpD
  simp [h]

theorem Good.write {fs : Fs} {p : Path} {i : Nat} (off : Nat) (d : Bytes) (h : fs.look p = .file i) :
    Good fs (.write off d) p (fun fs => (fs.writeAt i off d, true)) := by
  unfold Good applyOpD
  simp [h]

theorem readBytes_reach (st : St) (p : Path) (len off : Nat) : Reach st (st.readBytes p len off).1 := by
  unfold St.readBytes
  split; rename_i st1 ok1 h1
  have r1 : Reach st st1 := Reach.of_op h1 rfl
  split; · exact r1
  split; rename_i st2 ok2 h2
  have r2 : Reach st st2 := r1.trans (Reach.of_op h2 rfl)
  split; · exact r2
  split; · exact r2
  split; rename_i st3 ok3 h3
  have r3 : Reach st st3 := r2.trans (Reach.of_op h3 rfl)
  split; · exact r3
  split <;> exact r3

theorem scanSingle_reach (H : Bytes → Bytes) (hash : Bytes) (seg : WSeg) (ps : List Path) :
    ∀ st, Reach st (scanSingle H hash seg st ps).1 := by
  induction ps with
  | nil => intro st; exact Reach.refl st
  | cons p ps ih =>
    intro st
    simp only [scanSingle]
    have r := readBytes_reach st p seg.len seg.off
    split
    · rename_i st1 h1; rw [h1] at r; exact r
    · rename_i st1 bytes h1; rw [h1] at r
      split
      · exact r
      · exact r.trans (ih st1)

theorem preloadSeg_reach (seg : WSeg) (ps : List Path) :
    ∀ st acc, Reach st (preloadSeg seg st ps acc).1 := by
  induction ps with
  | nil => intro st acc; exact Reach.refl st
  | cons p ps ih =>
    intro st acc
    simp only [preloadSeg]
    have r := readBytes_reach st p seg.len seg.off
    split
    · rename_i st1 h1; rw [h1] at r; exact r
    · rename_i st1 bytes h1; rw [h1] at r
      split
      · exact r.trans (ih st1 _)
      · exact r.trans (ih st1 _)

theorem preload_reach (segs : List WSeg) : ∀ st, Reach st (preload st segs).1 := by
  induction segs with
  | nil => intro st; exact Reach.refl st
  | cons seg rest ih =>
    intro st
    simp only [preload]
    split
    · have r := ih st
      split <;> (rename_i h1; rw [h1] at r; exact r)
    · split
      · have r := ih st
        split <;> (rename_i h1; rw [h1] at r; exact r)
      · rename_i paths _
        have r := preloadSeg_reach seg paths st []
        split
        · rename_i st1 r1 h1; rw [h1] at r
          have r' := ih st1
          split <;> (rename_i h2; rw [h2] at r'; exact r.trans r')
        · rename_i h1; rw [h1] at r; exact r
        · rename_i h1; rw [h1] at r; exact r

theorem writeSegs_reach (pairs : List (WSeg × Option Path)) :
    ∀ st buf start, Reach st (writeSegs st pairs buf start).1 := by
  induction pairs with
  | nil => intro st buf start; exact Reach.refl st
  | cons x rest ih =>
    obtain ⟨seg, src⟩ := x
    intro st buf start
    rw [writeSegs]; simp -iota only
    split; · exact ih _ _ _
    split; · exact ih _ _ _
    split; rename_i st1 ok1 h1
    have r1 : Reach st st1 := Reach.of_op h1 (Good.mkdirs _ _)
    split; · exact r1
    split; rename_i st2 ok2 h2
    have r2 : Reach st st2 := r1.trans (Reach.of_op h2 (Good.openc _ _))
    split; · exact r2
    split
    · rename_i i hl
      split; rename_i st3 ok3 h3
      have r3 : Reach st st3 := r2.trans (Reach.of_op h3 (Good.setlen _ hl))
      have hl3 : st3.fs.look seg.ent.fullTarget = .file i := by
        rcases St.op_fs h3 with ⟨e, _⟩ | ⟨e, _⟩
        · rw [e, hl]
        · rw [e]; exact hl
      split; · exact r3
      split; rename_i st4 ok4 h4
      have r4 : Reach st st4 := r3.trans (Reach.of_op h4 rfl)
      have hl4 : st4.fs.look seg.ent.fullTarget = .file i := by
        rw [St.op_fs_same h4 rfl, hl3]
      split; · exact r4
      split; · exact r4
      split; rename_i st5 ok5 h5
      have r5 : Reach st st5 := r4.trans (Reach.of_op h5 (Good.write _ _ hl4))
      split; · exact r5
      exact r5.trans (ih _ _ _)
    · exact r2

theorem solvePiece_reach (H : Bytes → Bytes) (st : St) (w : Work) : Reach st (solvePiece H st w).1 := by
  unfold solvePiece; simp -iota only
  split; · exact Reach.refl st
  split
  · rename_i seg _
    split
    · split <;> exact Reach.refl st
    · split
      · exact Reach.refl st
      · rename_i paths _
        have r := scanSingle_reach H w.hash seg paths st
        split <;> rename_i h1 <;> rw [h1] at r
        · exact r.trans (writeSegs_reach _ _ _ _)
        · exact r
        · exact r
        · exact r
  · have r := preload_reach w.segs st
    split <;> rename_i h1 <;> rw [h1] at r
    · split
      · exact r.trans (writeSegs_reach _ _ _ _)
      · exact r
    · exact r
    · exact r

theorem solveAll_reach (H : Bytes → Bytes) (ws : List Work) :
    ∀ st c acc, Reach st (solveAll H st ws c acc).1 := by
  induction ws with
  | nil => intro st c acc; exact Reach.refl st
  | cons w ws ih =>
    intro st c acc
    simp only [solveAll]
    have r := solvePiece_reach H st w
    split <;> rename_i h1 <;> rw [h1] at r
    · exact r
    · exact r.trans (ih _ _ _)

theorem validatePath_reach (st : St) (a : PathArg) : Reach st (validatePath st a).1 := by
  unfold validatePath
  split; · exact Reach.refl st
  split; rename_i st1 ok1 h1
  have r1 : Reach st st1 := Reach.of_op h1 rfl
  split; · exact r1
  split <;> exact r1

theorem validateAll_reach (as : List PathArg) : ∀ st, Reach st (validateAll st as).1 := by
  induction as with
  | nil => intro st; exact Reach.refl st
  | cons a as ih =>
    intro st
    simp only [validateAll]
    have r := validatePath_reach st a
    split <;> rename_i h1 <;> rw [h1] at r
    · exact r.trans (ih _)
    · exact r

theorem resizePass1_reach (es : List TEntry) : ∀ st, Reach st (resizePass1 st es).1 := by
  induction es with
  | nil => intro st; exact Reach.refl st
  | cons e es ih =>
    intro st
    rw [resizePass1]; simp -iota only [St.openr]
    split; · exact ih _
    split; rename_i st1 ok1 h1
    have r1 : Reach st st1 := Reach.of_op h1 rfl
    split
    · split
      · exact r1.trans (ih _)
      · exact r1
    · split
      · split
        · exact r1
        · exact r1.trans (ih _)
      · exact r1.trans (ih _)

theorem resizePass2_reach (es : List TEntry) : ∀ st, Reach st (resizePass2 st es).1 := by
  induction es with
  | nil => intro st; exact Reach.refl st
  | cons e es ih =>
    intro st
    rw [resizePass2]; simp -iota only
    split; · exact ih _
    split; rename_i st1 ok1 h1
    have r1 : Reach st st1 := Reach.of_op h1 rfl
    split
    · split
      · exact r1.trans (ih _)
      · exact r1
    · split
      · rename_i i hl
        split
        · split; rename_i st2 ok2 h2
          have hl1 : st1.fs.look e.fullTarget = .file i := by rw [St.op_fs_same h1 rfl, hl]
          have r2 : Reach st st2 := r1.trans (Reach.of_op h2 (Good.setlen _ hl1))
          split
          · exact r2.trans (ih _)
          · exact r2
        · exact r1.trans (ih _)
      · exact r1.trans (ih _)

theorem fixExportFileLengths_reach (st : St) (table : List TEntry) : Reach st (fixExportFileLengths st table).1 := by
  unfold fixExportFileLengths
  have r := resizePass1_reach table st
  split <;> rename_i h1 <;> rw [h1] at r
  · exact r
  · exact r.trans (resizePass2_reach _ _)

theorem addExportPaths_reach (es : List TEntry) : ∀ st c, Reach st (addExportPaths st c es).1 := by
  induction es with
  | nil => intro st c; exact Reach.refl st
  | cons e es ih =>
    intro st c
    rw [addExportPaths]; simp -iota only [St.openr]
    split; · exact ih _ _
    split; rename_i st1 ok1 h1
    have r1 : Reach st st1 := Reach.of_op h1 rfl
    split; · exact r1.trans (ih _ _)
    split
    · split <;> exact r1.trans (ih _ _)
    · exact r1.trans (ih _ _)

theorem Reach.replay_init {fs0 : Fs} {F : List Nat} {st : St} (h : Reach ⟨fs0, [], F⟩ st) :
    st.fs = replayD fs0 st.ops := by
  obtain ⟨_, new, ho, hf⟩ := h
  rw [ho, hf]; rfl

theorem run_replayD (H : Bytes → Bytes) (inp : RunIn) : (run H inp).fs = replayD inp.fs (run H inp).ops := by
  unfold run; simp -iota only
  split; · rfl
  have r1 := validateAll_reach (inp.scan ++ [inp.exportDir]) ⟨inp.fs, [], inp.faults⟩
  split <;> rename_i st1 h1 <;> rw [h1] at r1
  · exact r1.replay_init
  · split; rename_i st2 flow h2
    have r2 : Reach ⟨inp.fs, [], inp.faults⟩ st2 := by
      split at h2
      · have := fixExportFileLengths_reach st1 (buildTable inp.exportDir.path (dedupTorrents (sortTorrents inp.torrents)) 0)
        rw [h2] at this; exact r1.trans this
      · cases h2; exact r1
    split
    · exact r2.replay_init
    · split; rename_i st3 cache0 h3
      have r3 : Reach ⟨inp.fs, [], inp.faults⟩ st3 := by
        have := addExportPaths_reach (buildTable inp.exportDir.path (dedupTorrents (sortTorrents inp.torrents)) 0) st2 []
        rw [h3] at this; exact r2.trans this
      split; rename_i table okSearch h4
      split
      · exact r3.replay_init
      · rename_i work h5
        split; rename_i ordered okOrder h6
        split; rename_i st4 counters panicked h7
        have := solveAll_reach H ordered st3 ⟨0, 0, 0⟩ []
        rw [h7] at this
        exact (r3.trans this).replay_init

end TB.RD