/-
  TB.Lemmas.RunOps — the critical section of the writer at the granularity of single file operations.

  `RunX` treats a critical section (`Fs.crit`) as one atomic step. Here a worker is a small machine that performs
  ONE file operation per step (`Thr.step`), and a schedule interleaves the workers arbitrarily (`runSched`).
  The invariant `Inv` ties every reachable op-level state to the starting tree; two states in which every
  worker is `.done` have the same observable part (`view`).
-/
import TB.Lemmas.RunX
namespace TB

/-- where a worker is inside its critical section; the handle (inode) is fixed when the file is opened -/
inductive SecPc where
  | mk | opn | setLen (i : Nat) | write (i : Nat) | done | failed
deriving Repr, DecidableEq

structure Thr where
  sec : Sec
  pc : SecPc
deriving Repr, DecidableEq

/-- one file operation of one worker -/
def Thr.step (fs : Fs) (th : Thr) : Fs × Thr :=
  match th.pc with
  | .mk =>
    let r := fs.mkdirs th.sec.t.dropLast
    if r.2 then (r.1, { th with pc := .opn }) else (r.1, { th with pc := .failed })
  | .opn =>
    let r := fs.openCreate th.sec.t
    if r.2.isSome then
      (match r.1.look th.sec.t with
       | .file i => (r.1, { th with pc := .setLen i })
       | _ => (r.1, { th with pc := .failed }))
    else (r.1, { th with pc := .failed })
  | .setLen i => (fs.setLen i th.sec.L, { th with pc := .write i })
  | .write i => (fs.writeAt i th.sec.off th.sec.d, { th with pc := .done })
  | .done => (fs, th)
  | .failed => (fs, th)

/-- a schedule is a list of worker indices; an index out of range is a no-op -/
def runSched (fs : Fs) (ths : List Thr) : List Nat → Fs × List Thr
  | [] => (fs, ths)
  | k :: rest =>
    match ths[k]? with
    | some th => runSched (th.step fs).1 (ths.set k (th.step fs).2) rest
    | none => runSched fs ths rest

/-- the workers at the start -/
def initThrs (secs : List Sec) : List Thr := secs.map (fun s => ⟨s, .mk⟩)

end TB
namespace TB.RunOps
open TB TB.RunX

/-- ONE worker, four steps from `.mk`: exactly the atomic critical section -/
theorem one_thread (fs : Fs) (s : Sec) (r : Fs) :
    fs.crit s.t s.L s.off s.d = some r ↔ runSched fs [⟨s, .mk⟩] [0, 0, 0, 0] = (r, [⟨s, .done⟩]) := by
  simp only [runSched, List.getElem?_cons_zero, List.set_cons_zero, Thr.step, Fs.crit]
  cases h1 : (fs.mkdirs s.t.dropLast).2 with
  | false => simp
  | true =>
    simp only [Bool.not_true, Bool.false_eq_true, if_false, if_true]
    cases h2 : ((fs.mkdirs s.t.dropLast).1.openCreate s.t).2.isSome with
    | false => simp
    | true =>
      simp only [Bool.not_true, Bool.false_eq_true, if_false, if_true]
      cases h3 : ((fs.mkdirs s.t.dropLast).1.openCreate s.t).1.look s.t <;> simp

/-! ### what sequential success says about the sections -/

theorem pw_sym {α : Type} {R : α → α → Prop} (hs : ∀ a b, R a b → R b a) {l : List α} (h : l.Pairwise R) :
    ∀ a ∈ l, ∀ b ∈ l, a ≠ b → R a b := by
  induction h with
  | nil => intro a ha; cases ha
  | cons hx _ ih =>
    intro a ha b hb hne
    rcases List.mem_cons.1 ha with ea | ha <;> rcases List.mem_cons.1 hb with eb | hb
    · exact absurd (ea.trans eb.symm) hne
    · rw [ea]; exact hx b hb
    · rw [eb]; exact hs _ _ (hx a ha)
    · exact ih a ha b hb hne

theorem vrun_ok {l : List Sec} : ∀ {v v' : View}, VInv v → vrun v l = some v' →
    (∀ s ∈ l, vok v s = true) ∧ l.Pairwise (fun a b => a.t ∉ mk b.t ∧ b.t ∉ mk a.t) := by
  induction l with
  | nil => intro v v' _ _; exact ⟨fun _ h => (nomatch h), List.Pairwise.nil⟩
  | cons s l ih =>
    intro v v' hv h
    simp only [vrun, vcrit_eq] at h
    by_cases hs : vok v s = true
    · rw [if_pos hs, Option.bind_some] at h
      obtain ⟨h1, h2⟩ := ih (vinv_step hv s) h
      have key : ∀ b ∈ l, vok v b = true ∧ s.t ∉ mk b.t ∧ b.t ∉ mk s.t := by
        intro b hb
        have := h1 b hb
        rw [vok_step hv s b] at this
        simpa [Bool.and_eq_true, and_assoc] using this
      refine ⟨?_, List.pairwise_cons.2 ⟨fun b hb => (key b hb).2, h2⟩⟩
      intro x hx
      rcases List.mem_cons.1 hx with e | hx
      · rw [e]; exact hs
      · exact (key x hx).1
    · rw [if_neg hs] at h; cases h

/-- the facts about the starting tree and the sections that the op-level argument uses -/
structure Hyp (fs0 : Fs) (secs : List Sec) : Prop where
  wf0 : FsWF fs0
  distinct : secs.Pairwise (fun a b => a.t ≠ b.t)
  ok : ∀ s ∈ secs, CritOk fs0 s.t
  nomk : ∀ a ∈ secs, ∀ b ∈ secs, a.t ∉ mk b.t
  noalias : ∀ a ∈ secs, ∀ b ∈ secs, a.t ≠ b.t → ∀ i j, fs0.inoOf a.t = some i → fs0.inoOf b.t = some j → i ≠ j

theorem hyp_of_seq {fs : Fs} {secs : List Sec} {r : Fs} (hwf : FsWF fs)
    (hd : secs.Pairwise (fun a b => a.t ≠ b.t)) (hc : secs.Pairwise (SecComp fs))
    (hr : fs.crits secs = some r) : Hyp fs secs := by
  have hv : vrun (view fs) secs = some (view r) := by
    rw [← (crits_view hwf secs).1, hr]; rfl
  obtain ⟨h1, h2⟩ := vrun_ok (vinv_view fs) hv
  have hok : ∀ s ∈ secs, CritOk fs s.t := fun s hs => (vok_view fs s).1 (h1 s hs)
  refine ⟨hwf, hd, hok, ?_, ?_⟩
  · intro a ha b hb
    by_cases e : a = b
    · subst e
      have h3 := (hok a ha).2
      intro hm
      have : (mk a.t).contains a.t = true := by simpa using hm
      rw [this, Bool.or_true] at h3
      cases h3
    · exact (pw_sym (fun _ _ h => ⟨h.2, h.1⟩) h2 a ha b hb e).1
  · intro a ha b hb hne
    exact (pw_sym (R := fun a b => a ≠ b → SecComp fs a b)
      (fun x y h hxy => ⟨(h hxy.symm).rb, (h hxy.symm).ra,
        fun e => ⟨((h hxy.symm).same e.symm).1.symm, ((h hxy.symm).same e.symm).2.symm⟩,
        fun e i j hi hj => ((h hxy.symm).diff (Ne.symm e) j i hj hi).symm⟩)
      (List.Pairwise.imp (S := fun a b => a ≠ b → SecComp fs a b) (fun h _ => h) hc) a ha b hb (fun e => hne (e ▸ rfl)) (fun e => hne (e ▸ rfl))).diff hne

/-! ### the invariant of the op-level machine -/

/-- the bytes behind the target at the start (`[]` when the target is new) -/
def c0 (fs0 : Fs) (t : Path) : Bytes := ((fs0.inoOf t).map fs0.content).getD []

/-- the worker has opened its file -/
def opened : SecPc → Bool
  | .setLen _ | .write _ | .done => true
  | _ => false

/-- the handle the worker holds is the inode `i` -/
def handleOk (pc : SecPc) (i : Nat) : Prop :=
  match pc with
  | .setLen j | .write j => j = i
  | _ => True

/-- what the worker has done so far to the bytes of its file -/
def expd (th : Thr) (c : Bytes) : Bytes :=
  match th.pc with
  | .write _ => sl th.sec.L c
  | .done => upd th.sec.L th.sec.off th.sec.d c
  | _ => c

structure Inv (fs0 : Fs) (secs : List Sec) (fs : Fs) (ths : List Thr) : Prop where
  secs : ths.map Thr.sec = secs
  wf : FsWF fs
  next : fs0.next ≤ fs.next
  nofail : ∀ th ∈ ths, th.pc ≠ .failed
  dir : ∀ p, fs.isDir p = true ↔ (fs0.isDir p = true ∨ ∃ th ∈ ths, th.pc ≠ .mk ∧ p ∈ mk th.sec.t)
  keep : ∀ p, (∀ th ∈ ths, th.sec.t = p → opened th.pc = false) → fs.inoOf p = fs0.inoOf p
  opnd : ∀ th ∈ ths, opened th.pc = true → ∃ i, fs.inoOf th.sec.t = some i ∧ handleOk th.pc i ∧
    (fs0.inoOf th.sec.t = some i ∨ (fs0.inoOf th.sec.t = none ∧ fs0.next ≤ i)) ∧
    fs.content i = expd th (c0 fs0 th.sec.t)
  other : ∀ j, j < fs0.next → (∀ th ∈ ths, opened th.pc = true → fs.inoOf th.sec.t ≠ some j) →
    fs.content j = fs0.content j
  fresh : ∀ p q i, fs.inoOf p = some i → fs.inoOf q = some i → fs0.next ≤ i → p = q

theorem inv_init {fs0 : Fs} {secs : List Sec} (H : Hyp fs0 secs) : Inv fs0 secs fs0 (initThrs secs) := by
  have hpc : ∀ th ∈ initThrs secs, th.pc = .mk := by
    intro th hth
    obtain ⟨s, _, rfl⟩ := List.mem_map.1 hth
    rfl
  refine ⟨?_, H.wf0, Nat.le_refl _, ?_, ?_, fun _ _ => rfl, ?_, fun _ _ _ => rfl, ?_⟩
  · simp [initThrs, Function.comp_def]
  · intro th hth h; rw [hpc th hth] at h; cases h
  · intro p
    constructor
    · exact Or.inl
    · rintro (h | ⟨th, hth, h, _⟩)
      · exact h
      · exact absurd (hpc th hth) h
  · intro th hth h; rw [hpc th hth] at h; cases h
  · intro p q i hp _ hi
    have := RunF.inoOf_lt H.wf0 hp
    omega

/-- two workers with the same target are the same worker -/
theorem thr_unique {secs : List Sec} (hd : secs.Pairwise (fun a b => a.t ≠ b.t)) :
    ∀ {ths : List Thr}, ths.map Thr.sec = secs → ∀ x ∈ ths, ∀ y ∈ ths, x.sec.t = y.sec.t → x = y := by
  induction hd with
  | nil =>
    intro ths h x hx
    have : ths = [] := by simpa using h
    subst this; cases hx
  | cons hx _ ih =>
    intro ths h x hxm y hym e
    cases ths with
    | nil => cases hxm
    | cons a l =>
      simp only [List.map_cons, List.cons.injEq] at h
      obtain ⟨ha, hl⟩ := h
      rcases List.mem_cons.1 hxm with e1 | hxm <;> rcases List.mem_cons.1 hym with e2 | hym
      · rw [e1, e2]
      · exfalso
        apply hx y.sec (by rw [← hl]; exact List.mem_map_of_mem hym)
        rw [← ha, ← e1]; exact e
      · exfalso
        apply hx x.sec (by rw [← hl]; exact List.mem_map_of_mem hxm)
        rw [← ha, ← e2]; exact e.symm
      · exact ih hl x hxm y hym e

/-- membership after one worker was replaced -/
theorem mem_set {secs : List Sec} (hd : secs.Pairwise (fun a b => a.t ≠ b.t)) {ths : List Thr}
    (hs : ths.map Thr.sec = secs) {k : Nat} {th th' : Thr} (hk : ths[k]? = some th) (hsec : th'.sec = th.sec) :
    (ths.set k th').map Thr.sec = secs ∧
    ∀ x, x ∈ ths.set k th' ↔ x = th' ∨ (x ∈ ths ∧ x.sec.t ≠ th.sec.t) := by
  have hklt : k < ths.length := by
    rcases Nat.lt_or_ge k ths.length with h | h
    · exact h
    · rw [List.getElem?_eq_none h] at hk; cases hk
  have hthm : th ∈ ths := List.mem_of_getElem? hk
  constructor
  · rw [List.map_set, hsec, ← hs]
    apply List.ext_getElem?
    intro n
    rw [List.getElem?_set]
    split
    · rename_i e; subst e
      have : ths[k] = th := by rw [List.getElem?_eq_getElem hklt] at hk; exact Option.some.inj hk
      simp [hklt, this]
    · rfl
  · intro x
    constructor
    · intro hx
      rcases List.mem_or_eq_of_mem_set hx with h | h
      · by_cases e : x.sec.t = th.sec.t
        · have := thr_unique hd hs x h th hthm e
          subst this
          -- x = th is in the set only at another position: impossible unless th' = th
          obtain ⟨n, hn⟩ := List.getElem?_of_mem hx
          rw [List.getElem?_set] at hn
          split at hn
          · simp at hn; exact Or.inl hn.symm
          · rename_i hne
            exfalso
            -- positions n and k both hold x in ths
            have h1 : (ths.map Thr.sec)[n]? = some x.sec := by simp [hn]
            have h2 : (ths.map Thr.sec)[k]? = some x.sec := by simp [hk]
            rw [hs] at h1 h2
            have hn' : n < secs.length := by
              rcases Nat.lt_or_ge n secs.length with h | h
              · exact h
              · rw [List.getElem?_eq_none h] at h1; cases h1
            have hk' : k < secs.length := by rw [← hs]; simpa using hklt
            rw [List.getElem?_eq_getElem hn'] at h1
            rw [List.getElem?_eq_getElem hk'] at h2
            have h1 := Option.some.inj h1
            have h2 := Option.some.inj h2
            rcases Nat.lt_or_gt_of_ne hne with hlt | hlt
            · have := List.pairwise_iff_getElem.1 hd k n hk' hn' hlt
              rw [h1, h2] at this; exact this rfl
            · have := List.pairwise_iff_getElem.1 hd n k hn' hk' hlt
              rw [h1, h2] at this; exact this rfl
        · exact Or.inr ⟨h, e⟩
      · exact Or.inl h
    · rintro (h | ⟨h, e⟩)
      · rw [h]; exact List.mem_set hklt _ 
      · obtain ⟨n, hn⟩ := List.getElem?_of_mem h
        have hne : k ≠ n := by
          intro e'; subst e'; rw [hk] at hn; cases hn; exact e rfl
        apply List.mem_of_getElem? (i := n)
        rw [List.getElem?_set_ne hne]; exact hn

/-- the names walked through for any worker's target are still free -/
theorem Inv.free {fs0 fs : Fs} {secs : List Sec} {ths : List Thr} (H : Hyp fs0 secs) (I : Inv fs0 secs fs ths)
    {th : Thr} (hth : th ∈ ths) : ∀ q ∈ RunX.mk th.sec.t, fs.inoOf q = none := by
  intro q hq
  have hs : th.sec ∈ secs := by rw [← I.secs]; exact List.mem_map_of_mem hth
  rw [I.keep q]
  · exact (H.ok _ hs).1 q hq
  · intro x hx e
    exfalso
    have hxs : x.sec ∈ secs := by rw [← I.secs]; exact List.mem_map_of_mem hx
    exact H.nomk _ hxs _ hs (e ▸ hq)

/-- no worker's target is a directory -/
theorem Inv.notDir {fs0 fs : Fs} {secs : List Sec} {ths : List Thr} (H : Hyp fs0 secs) (I : Inv fs0 secs fs ths)
    {th : Thr} (hth : th ∈ ths) : fs.isDir th.sec.t = false := by
  have hs : th.sec ∈ secs := by rw [← I.secs]; exact List.mem_map_of_mem hth
  cases h : fs.isDir th.sec.t with
  | false => rfl
  | true =>
    exfalso
    rcases (I.dir _).1 h with h0 | ⟨x, hx, _, hm⟩
    · have := (H.ok _ hs).2
      rw [h0] at this; cases this
    · have hxs : x.sec ∈ secs := by rw [← I.secs]; exact List.mem_map_of_mem hx
      exact H.nomk _ hs _ hxs hm

/-- opened workers hold different inodes -/
theorem Inv.inj {fs0 fs : Fs} {secs : List Sec} {ths : List Thr} (H : Hyp fs0 secs) (I : Inv fs0 secs fs ths)
    {x y : Thr} (hx : x ∈ ths) (hy : y ∈ ths) (ox : opened x.pc = true) (oy : opened y.pc = true) {i : Nat}
    (hi : fs.inoOf x.sec.t = some i) (hj : fs.inoOf y.sec.t = some i) : x = y := by
  apply thr_unique H.distinct I.secs x hx y hy
  obtain ⟨i1, a1, _, a3, _⟩ := I.opnd x hx ox
  obtain ⟨i2, b1, _, b3, _⟩ := I.opnd y hy oy
  rw [hi] at a1; cases a1
  rw [hj] at b1; cases b1
  have hxs : x.sec ∈ secs := by rw [← I.secs]; exact List.mem_map_of_mem hx
  have hys : y.sec ∈ secs := by rw [← I.secs]; exact List.mem_map_of_mem hy
  rcases a3 with a3 | ⟨a3, a4⟩ <;> rcases b3 with b3 | ⟨b3, b4⟩
  · apply Classical.byContradiction
    intro hne
    exact H.noalias _ hxs _ hys hne i i a3 b3 rfl
  · have := RunF.inoOf_lt H.wf0 a3; omega
  · have := RunF.inoOf_lt H.wf0 b3; omega
  · exact I.fresh _ _ i hi hj a4

/-- the situation of one step: worker `th` of `ths` is replaced by `th'` (same section), giving `ths'` -/
structure Repl (secs : List Sec) (ths : List Thr) (th th' : Thr) (ths' : List Thr) : Prop where
  hth : th ∈ ths
  hsec : th'.sec = th.sec
  hsecs : ths'.map Thr.sec = secs
  hmem : ∀ x, x ∈ ths' ↔ x = th' ∨ (x ∈ ths ∧ x.sec.t ≠ th.sec.t)

theorem Repl.old {fs0 fs : Fs} {secs : List Sec} {ths ths' : List Thr} {th th' : Thr} (H : Hyp fs0 secs)
    (I : Inv fs0 secs fs ths) (R : Repl secs ths th th' ths') : ∀ x ∈ ths, x = th ∨ x ∈ ths' := by
  intro x hx
  by_cases e : x.sec.t = th.sec.t
  · exact Or.inl (thr_unique H.distinct I.secs x hx th R.hth e)
  · exact Or.inr ((R.hmem x).2 (Or.inr ⟨hx, e⟩))

theorem Repl.new {secs : List Sec} {ths ths' : List Thr} {th th' : Thr}
    (R : Repl secs ths th th' ths') : ∀ x ∈ ths', x = th' ∨ x ∈ ths := by
  intro x hx
  rcases (R.hmem x).1 hx with h | h
  · exact Or.inl h
  · exact Or.inr h.1

theorem Repl.mem' {secs : List Sec} {ths ths' : List Thr} {th th' : Thr}
    (R : Repl secs ths th th' ths') : th' ∈ ths' := (R.hmem th').2 (Or.inl rfl)

/-- `create_dir_all` of a worker -/
theorem step_mk {fs0 fs : Fs} {secs : List Sec} {ths ths' : List Thr} {th th' : Thr} (H : Hyp fs0 secs)
    (I : Inv fs0 secs fs ths) (R : Repl secs ths th th' ths') (hpc : th.pc = .mk) (hpc' : th'.pc = .opn) :
    (fs.mkdirs th.sec.t.dropLast).2 = true ∧ Inv fs0 secs (fs.mkdirs th.sec.t.dropLast).1 ths' := by
  have hm : (fs.mkdirs th.sec.t.dropLast).2 = true := (mkdirs_ok_iff I.wf _).2 (I.free H R.hth)
  have hwf1 : FsWF (fs.mkdirs th.sec.t.dropLast).1 := (RunF.loc_mkdirs (fun _ => True) fs _).wf I.wf
  obtain ⟨e1, e2, e3, e4⟩ := mkdirs_exact _ hm
  refine ⟨hm, ?_⟩
  generalize (fs.mkdirs th.sec.t.dropLast).1 = fs1 at *
  have hino : ∀ p, fs1.inoOf p = fs.inoOf p := RunF.inoOf_congr e1
  have hcon : ∀ j, fs1.content j = fs.content j := RunF.content_congr e2
  have hnop : opened th.pc = false := by rw [hpc]; rfl
  have hnop' : opened th'.pc = false := by rw [hpc']; rfl
  refine ⟨R.hsecs, hwf1, by rw [e3]; exact I.next, ?_, ?_, ?_, ?_, ?_, ?_⟩
  · intro x hx
    rcases R.new x hx with rfl | hx
    · rw [hpc']; intro h; cases h
    · exact I.nofail x hx
  · intro p
    rw [e4, Bool.or_eq_true, I.dir]
    constructor
    · rintro ((h | ⟨x, hx, h1, h2⟩) | h)
      · exact Or.inl h
      · rcases R.old H I x hx with rfl | hx'
        · exact absurd hpc h1
        · exact Or.inr ⟨x, hx', h1, h2⟩
      · refine Or.inr ⟨th', R.mem', ?_, ?_⟩
        · rw [hpc']; intro h; cases h
        · rw [R.hsec]
          simpa [RunX.mk] using h
    · rintro (h | ⟨x, hx, h1, h2⟩)
      · exact Or.inl (Or.inl h)
      · rcases R.new x hx with rfl | hx'
        · right
          rw [R.hsec] at h2
          simpa [RunX.mk] using h2
        · exact Or.inl (Or.inr ⟨x, hx', h1, h2⟩)
  · intro p hp
    rw [hino]
    apply I.keep
    intro x hx e
    rcases R.old H I x hx with rfl | hx'
    · exact hnop
    · exact hp x hx' e
  · intro x hx ox
    rcases R.new x hx with rfl | hx'
    · rw [hnop'] at ox; cases ox
    · obtain ⟨i, a1, a2, a3, a4⟩ := I.opnd x hx' ox
      exact ⟨i, by rw [hino]; exact a1, a2, a3, by rw [hcon]; exact a4⟩
  · intro j hj hp
    rw [hcon]
    apply I.other j hj
    intro x hx ox
    rcases R.old H I x hx with rfl | hx'
    · rw [hnop] at ox; cases ox
    · rw [← hino]; exact hp x hx' ox
  · intro p q i
    rw [hino, hino]
    exact I.fresh p q i

/-- `set_len` or the positional write of a worker: the bytes behind its handle `i` become `bs` -/
theorem step_data {fs0 fs : Fs} {secs : List Sec} {ths ths' : List Thr} {th th' : Thr} (H : Hyp fs0 secs)
    (I : Inv fs0 secs fs ths) (R : Repl secs ths th th' ths') {i : Nat} {bs : Bytes}
    (ho : opened th.pc = true) (ho' : opened th'.pc = true) (hnd : th.pc ≠ .done)
    (hh : handleOk th.pc i) (hh' : handleOk th'.pc i)
    (hexp : ∀ c, fs.content i = expd th c → bs = expd th' c) :
    Inv fs0 secs (fs.setData i bs) ths' := by
  have hino : ∀ p, (fs.setData i bs).inoOf p = fs.inoOf p := fun _ => rfl
  have hdir : ∀ p, (fs.setData i bs).isDir p = fs.isDir p := fun _ => rfl
  obtain ⟨i0, t1, t2, t3, t4⟩ := I.opnd th R.hth ho
  have hi0 : i0 = i := by
    cases hp : th.pc <;> rw [hp] at ho hh t2 <;> simp only [opened, handleOk] at ho hh t2 <;> try (cases ho)
    · omega
    · omega
    · exact absurd hp hnd
  subst hi0
  have hmk : th.pc ≠ .mk := by intro h; rw [h] at ho; cases ho
  have hmk' : th'.pc ≠ .mk := by intro h; rw [h] at ho'; cases ho'
  refine ⟨R.hsecs, wf_setData I.wf _ _, I.next, ?_, ?_, ?_, ?_, ?_, ?_⟩
  · intro x hx
    rcases R.new x hx with rfl | hx
    · intro h; rw [h] at ho'; cases ho'
    · exact I.nofail x hx
  · intro p
    rw [hdir, I.dir]
    constructor
    · rintro (h | ⟨x, hx, h1, h2⟩)
      · exact Or.inl h
      · rcases R.old H I x hx with rfl | hx'
        · exact Or.inr ⟨th', R.mem', hmk', by rw [R.hsec]; exact h2⟩
        · exact Or.inr ⟨x, hx', h1, h2⟩
    · rintro (h | ⟨x, hx, h1, h2⟩)
      · exact Or.inl h
      · rcases R.new x hx with rfl | hx'
        · exact Or.inr ⟨th, R.hth, hmk, by rw [← R.hsec]; exact h2⟩
        · exact Or.inr ⟨x, hx', h1, h2⟩
  · intro p hp
    rw [hino]
    apply I.keep
    intro x hx e
    rcases R.old H I x hx with rfl | hx'
    · have := hp th' R.mem' (by rw [R.hsec]; exact e)
      rw [ho'] at this; cases this
    · exact hp x hx' e
  · intro x hx ox
    rcases (R.hmem x).1 hx with rfl | ⟨hx', hne⟩
    · refine ⟨i0, by rw [R.hsec]; exact t1, hh', by rw [R.hsec]; exact t3, ?_⟩
      rw [content_setData, if_pos rfl, R.hsec]
      exact hexp _ t4
    · obtain ⟨j, a1, a2, a3, a4⟩ := I.opnd x hx' ox
      have hji : j ≠ i0 := by
        intro e; subst e
        have := I.inj H hx' R.hth ox ho a1 t1
        subst this; exact hne rfl
      exact ⟨j, a1, a2, a3, by rw [content_setData_ne _ _ _ _ hji]; exact a4⟩
  · intro j hj hp
    have hji : j ≠ i0 := by
      intro e; subst e
      exact hp th' R.mem' ho' (by rw [R.hsec]; exact t1)
    rw [content_setData_ne _ _ _ _ hji]
    apply I.other j hj
    intro x hx ox
    rcases R.old H I x hx with rfl | hx'
    · rw [t1]; intro e; exact hji (Option.some.inj e).symm
    · exact hp x hx' ox
  · exact I.fresh

/-- what a worker about to open sees at its target -/
theorem look_target {fs0 fs : Fs} {secs : List Sec} {ths : List Thr} {th : Thr} (H : Hyp fs0 secs)
    (I : Inv fs0 secs fs ths) (hth : th ∈ ths) (hpc : th.pc = .opn) :
    fs.inoOf th.sec.t = fs0.inoOf th.sec.t ∧
    (∀ i, fs0.inoOf th.sec.t = some i → fs.look th.sec.t = .file i) ∧
    (fs0.inoOf th.sec.t = none → fs.look th.sec.t = .notFound) := by
  have hk : fs.inoOf th.sec.t = fs0.inoOf th.sec.t := by
    apply I.keep
    intro x hx e
    have := thr_unique H.distinct I.secs x hx th hth e
    subst this; rw [hpc]; rfl
  refine ⟨hk, ?_⟩
  have hl := look_of_prefixes_free (fun q hq => I.free H hth q (mem_mk_of_properPrefix hq))
  rw [I.notDir H hth, hk] at hl
  constructor
  · intro i hi; rw [hi] at hl; simpa using hl
  · intro hi; rw [hi] at hl; simpa using hl

/-- the open of a worker whose target exists -/
theorem step_opn_old {fs0 fs : Fs} {secs : List Sec} {ths ths' : List Thr} {th th' : Thr} (H : Hyp fs0 secs)
    (I : Inv fs0 secs fs ths) (R : Repl secs ths th th' ths') (hpc : th.pc = .opn) {i : Nat}
    (hi : fs0.inoOf th.sec.t = some i) (hpc' : th'.pc = .setLen i) : Inv fs0 secs fs ths' := by
  obtain ⟨hk, _, _⟩ := look_target H I R.hth hpc
  have ho : opened th.pc = false := by rw [hpc]; rfl
  have ho' : opened th'.pc = true := by rw [hpc']; rfl
  have hmk : th.pc ≠ .mk := by rw [hpc]; intro h; cases h
  have hmk' : th'.pc ≠ .mk := by rw [hpc']; intro h; cases h
  have hs : th.sec ∈ secs := by rw [← I.secs]; exact List.mem_map_of_mem R.hth
  refine ⟨R.hsecs, I.wf, I.next, ?_, ?_, ?_, ?_, ?_, I.fresh⟩
  · intro x hx
    rcases R.new x hx with rfl | hx
    · intro h; rw [h] at ho'; cases ho'
    · exact I.nofail x hx
  · intro p
    rw [I.dir]
    constructor
    · rintro (h | ⟨x, hx, h1, h2⟩)
      · exact Or.inl h
      · rcases R.old H I x hx with rfl | hx'
        · exact Or.inr ⟨th', R.mem', hmk', by rw [R.hsec]; exact h2⟩
        · exact Or.inr ⟨x, hx', h1, h2⟩
    · rintro (h | ⟨x, hx, h1, h2⟩)
      · exact Or.inl h
      · rcases R.new x hx with rfl | hx'
        · exact Or.inr ⟨th, R.hth, hmk, by rw [← R.hsec]; exact h2⟩
        · exact Or.inr ⟨x, hx', h1, h2⟩
  · intro p hp
    apply I.keep
    intro x hx e
    rcases R.old H I x hx with rfl | hx'
    · exact ho
    · exact hp x hx' e
  · intro x hx ox
    rcases (R.hmem x).1 hx with rfl | ⟨hx', hne⟩
    · refine ⟨i, by rw [R.hsec, hk]; exact hi, by rw [hpc']; rfl, Or.inl (by rw [R.hsec]; exact hi), ?_⟩
      have e : expd x (c0 fs0 x.sec.t) = fs0.content i := by
        simp only [expd, hpc', c0, R.hsec, hi, Option.map_some, Option.getD_some]
      rw [e]
      apply I.other i (RunF.inoOf_lt H.wf0 hi)
      intro y hy oy
      obtain ⟨j, a1, _, a3, _⟩ := I.opnd y hy oy
      rw [a1]
      intro e; cases e
      have hys : y.sec ∈ secs := by rw [← I.secs]; exact List.mem_map_of_mem hy
      rcases a3 with a3 | ⟨_, a4⟩
      · have hne : y.sec.t ≠ th.sec.t := by
          intro e
          have := thr_unique H.distinct I.secs y hy th R.hth e
          subst this; rw [ho] at oy; cases oy
        exact H.noalias _ hys _ hs hne _ _ a3 hi rfl
      · have := RunF.inoOf_lt H.wf0 hi; omega
    · exact I.opnd x hx' ox
  · intro j hj hp
    apply I.other j hj
    intro x hx ox
    rcases R.old H I x hx with rfl | hx'
    · rw [ho] at ox; cases ox
    · exact hp x hx' ox

/-- the open of a worker whose target is new -/
theorem step_opn_new {fs0 fs : Fs} {secs : List Sec} {ths ths' : List Thr} {th th' : Thr} (H : Hyp fs0 secs)
    (I : Inv fs0 secs fs ths) (R : Repl secs ths th th' ths') (hpc : th.pc = .opn)
    (hi : fs0.inoOf th.sec.t = none) (hpc' : th'.pc = .setLen fs.next) :
    fs.isDir th.sec.t.dropLast = true ∧ (RunF.addFile fs th.sec.t).look th.sec.t = .file fs.next ∧
    Inv fs0 secs (RunF.addFile fs th.sec.t) ths' := by
  obtain ⟨hk, _, hl⟩ := look_target H I R.hth hpc
  rw [hi] at hk
  have hl := hl hi
  have ho : opened th.pc = false := by rw [hpc]; rfl
  have ho' : opened th'.pc = true := by rw [hpc']; rfl
  have hmk : th.pc ≠ .mk := by rw [hpc]; intro h; cases h
  have hmk' : th'.pc ≠ .mk := by rw [hpc']; intro h; cases h
  have hs : th.sec ∈ secs := by rw [← I.secs]; exact List.mem_map_of_mem R.hth
  have hpar : fs.isDir th.sec.t.dropLast = true :=
    (I.dir _).2 (Or.inr ⟨th, R.hth, hmk, by simp [RunX.mk]⟩)
  have hpre : ∀ q ∈ Fs.properPrefixes th.sec.t, fs.isDir q = true := fun q hq =>
    (I.dir _).2 (Or.inr ⟨th, R.hth, hmk, mem_mk_of_properPrefix hq⟩)
  have hwf1 : FsWF (RunF.addFile fs th.sec.t) := (RunF.loc_addFile (T := fun _ => True) trivial hl hpre).wf I.wf
  have hl2 : (RunF.addFile fs th.sec.t).look th.sec.t = .file fs.next := by
    apply RunF.look_file_of
    · rw [List.any_eq_false]
      intro q hq
      rw [RunF.inoOf_addFile, if_neg (fun e => RunF.properPrefix_ne hq e.symm),
        I.free H R.hth q (mem_mk_of_properPrefix hq)]
      simp
    · rw [RunF.isDir_addFile]; exact I.notDir H R.hth
    · rw [RunF.inoOf_addFile, if_pos rfl]
  refine ⟨hpar, hl2, R.hsecs, hwf1, Nat.le_succ_of_le I.next, ?_, ?_, ?_, ?_, ?_, ?_⟩
  · intro x hx
    rcases R.new x hx with rfl | hx
    · intro h; rw [h] at ho'; cases ho'
    · exact I.nofail x hx
  · intro p
    rw [RunF.isDir_addFile, I.dir]
    constructor
    · rintro (h | ⟨x, hx, h1, h2⟩)
      · exact Or.inl h
      · rcases R.old H I x hx with rfl | hx'
        · exact Or.inr ⟨th', R.mem', hmk', by rw [R.hsec]; exact h2⟩
        · exact Or.inr ⟨x, hx', h1, h2⟩
    · rintro (h | ⟨x, hx, h1, h2⟩)
      · exact Or.inl h
      · rcases R.new x hx with rfl | hx'
        · exact Or.inr ⟨th, R.hth, hmk, by rw [← R.hsec]; exact h2⟩
        · exact Or.inr ⟨x, hx', h1, h2⟩
  · intro p hp
    have hpt : ¬ th.sec.t = p := by
      intro e
      have := hp th' R.mem' (by rw [R.hsec]; exact e)
      rw [ho'] at this; cases this
    rw [RunF.inoOf_addFile, if_neg hpt]
    apply I.keep
    intro x hx e
    rcases R.old H I x hx with rfl | hx'
    · exact ho
    · exact hp x hx' e
  · intro x hx ox
    rcases (R.hmem x).1 hx with rfl | ⟨hx', hne⟩
    · refine ⟨fs.next, by rw [R.hsec, RunF.inoOf_addFile, if_pos rfl], by rw [hpc']; rfl,
        Or.inr ⟨by rw [R.hsec]; exact hi, I.next⟩, ?_⟩
      rw [RunJ.content_addFile_new]
      simp only [expd, hpc', c0, R.hsec, hi, Option.map_none, Option.getD_none]
    · obtain ⟨j, a1, a2, a3, a4⟩ := I.opnd x hx' ox
      have hj := RunF.inoOf_lt I.wf a1
      refine ⟨j, by rw [RunF.inoOf_addFile, if_neg (fun e => hne e.symm)]; exact a1, a2, a3, ?_⟩
      rw [RunF.content_addFile _ _ _ (by omega)]; exact a4
  · intro j hj hp
    have := I.next
    rw [RunF.content_addFile _ _ _ (by omega)]
    apply I.other j hj
    intro x hx ox
    by_cases e : x.sec.t = th.sec.t
    · have := thr_unique H.distinct I.secs x hx th R.hth e
      subst this; rw [ho] at ox; cases ox
    · have := hp x ((R.hmem x).2 (Or.inr ⟨hx, e⟩)) ox
      rw [RunF.inoOf_addFile, if_neg (fun e' => e e'.symm)] at this
      exact this
  · intro p q i hp hq hi'
    rw [RunF.inoOf_addFile] at hp hq
    split at hp <;> split at hq
    · rename_i e1 e2; exact e1.symm.trans e2
    · cases hp
      have := RunF.inoOf_lt I.wf hq; omega
    · cases hq
      have := RunF.inoOf_lt I.wf hp; omega
    · exact I.fresh p q i hp hq hi'

theorem set_self {ths : List Thr} {k : Nat} {th : Thr} (hk : ths[k]? = some th) : ths.set k th = ths := by
  apply List.ext_getElem?
  intro n
  rw [List.getElem?_set]
  split
  · rename_i e; subst e
    split
    · exact hk.symm
    · rename_i h
      rw [List.getElem?_eq_none (by omega)]
  · rfl

/-- ONE STEP of any worker keeps the invariant -/
theorem inv_step {fs0 fs : Fs} {secs : List Sec} {ths : List Thr} (H : Hyp fs0 secs) (I : Inv fs0 secs fs ths)
    {k : Nat} {th : Thr} (hk : ths[k]? = some th) :
    Inv fs0 secs (th.step fs).1 (ths.set k (th.step fs).2) := by
  have hth : th ∈ ths := List.mem_of_getElem? hk
  have mkR : ∀ th' : Thr, th'.sec = th.sec → Repl secs ths th th' (ths.set k th') := fun th' h =>
    ⟨hth, h, (mem_set H.distinct I.secs hk h).1, (mem_set H.distinct I.secs hk h).2⟩
  cases hp : th.pc with
  | mk =>
    obtain ⟨hm, I'⟩ := step_mk H I (mkR ⟨th.sec, .opn⟩ rfl) hp rfl
    simp only [Thr.step, hp, hm, if_true]
    exact I'
  | opn =>
    obtain ⟨hk', hl1, hl2⟩ := look_target H I hth hp
    cases hi : fs0.inoOf th.sec.t with
    | some i =>
      have hl := hl1 i hi
      have e : fs.openCreate th.sec.t = (fs, some i) := by
        unfold Fs.openCreate; rw [hl]
      simp only [Thr.step, hp, e, Option.isSome_some, if_true, hl]
      exact step_opn_old H I (mkR ⟨th.sec, .setLen i⟩ rfl) hp hi rfl
    | none =>
      have hl := hl2 hi
      obtain ⟨hpar, hl', I'⟩ := step_opn_new H I (mkR ⟨th.sec, .setLen fs.next⟩ rfl) hp hi rfl
      have e : fs.openCreate th.sec.t = (RunF.addFile fs th.sec.t, some fs.next) := by
        unfold Fs.openCreate; rw [hl]; simp only [hpar, if_true]; rfl
      simp only [Thr.step, hp, e, Option.isSome_some, if_true, hl']
      exact I'
  | setLen i =>
    simp only [Thr.step, hp, setLen_eq]
    apply step_data H I (mkR ⟨th.sec, .write i⟩ rfl) (i := i) (by rw [hp]; rfl) rfl (by rw [hp]; intro h; cases h)
      (by rw [hp]; exact rfl) rfl
    intro c hc
    simp only [expd, hp] at hc ⊢
    rw [hc]
  | write i =>
    simp only [Thr.step, hp, writeAt_eq]
    apply step_data H I (mkR ⟨th.sec, .done⟩ rfl) (i := i) (by rw [hp]; rfl) rfl (by rw [hp]; intro h; cases h)
      (by rw [hp]; exact rfl) trivial
    intro c hc
    simp only [expd, hp] at hc ⊢
    rw [hc]; rfl
  | done =>
    simp only [Thr.step, hp]
    rw [set_self hk]; exact I
  | failed =>
    simp only [Thr.step, hp]
    rw [set_self hk]; exact I

/-- every schedule keeps the invariant -/
theorem inv_run {fs0 : Fs} {secs : List Sec} (H : Hyp fs0 secs) (sched : List Nat) :
    ∀ {fs : Fs} {ths : List Thr}, Inv fs0 secs fs ths →
      Inv fs0 secs (runSched fs ths sched).1 (runSched fs ths sched).2 := by
  induction sched with
  | nil => intro fs ths I; exact I
  | cons k rest ih =>
    intro fs ths I
    simp only [runSched]
    cases hk : ths[k]? with
    | none => exact ih I
    | some th => exact ih (inv_step H I hk)

/-- the bindings of a state in which every worker is `.done` -/
theorem ino_char {fs0 fs : Fs} {secs : List Sec} {ths : List Thr}
    (I : Inv fs0 secs fs ths) (hd : ∀ th ∈ ths, th.pc = .done) (p : Path) :
    (∀ j, fs0.inoOf p = some j → fs.inoOf p = some j) ∧
    (fs0.inoOf p = none → (fs.inoOf p = none ∧ ¬ ∃ th ∈ ths, th.sec.t = p) ∨
      (∃ i, fs.inoOf p = some i ∧ fs0.next ≤ i ∧ ∃ th ∈ ths, th.sec.t = p)) := by
  by_cases ht : ∃ th ∈ ths, th.sec.t = p
  · obtain ⟨th, hth, rfl⟩ := ht
    obtain ⟨i, a1, _, a3, _⟩ := I.opnd th hth (by rw [hd th hth]; rfl)
    constructor
    · intro j hj
      rcases a3 with a3 | ⟨a3, _⟩
      · rw [a3] at hj; rw [a1, hj]
      · rw [a3] at hj; cases hj
    · intro h0
      rcases a3 with a3 | ⟨_, a4⟩
      · rw [a3] at h0; cases h0
      · exact Or.inr ⟨i, a1, a4, th, hth, rfl⟩
  · have hk : fs.inoOf p = fs0.inoOf p := by
      apply I.keep
      intro x hx e
      exact absurd ⟨x, hx, e⟩ ht
    constructor
    · intro j hj; rw [hk]; exact hj
    · intro h0; exact Or.inl ⟨by rw [hk]; exact h0, ht⟩

theorem A_char {fs0 fs : Fs} {secs : List Sec} {ths : List Thr} (H : Hyp fs0 secs)
    (I : Inv fs0 secs fs ths) (hd : ∀ th ∈ ths, th.pc = .done) (p q : Path) :
    (view fs).A p q = true ↔ ((∃ j, fs0.inoOf p = some j ∧ fs0.inoOf q = some j) ∨
      (fs0.inoOf p = none ∧ p = q ∧ ∃ th ∈ ths, th.sec.t = p)) := by
  show ((fs.inoOf p).isSome && fs.inoOf p == fs.inoOf q) = true ↔ _
  obtain ⟨p1, p2⟩ := ino_char I hd p
  obtain ⟨q1, q2⟩ := ino_char I hd q
  have lt0 : ∀ r j, fs0.inoOf r = some j → j < fs0.next := fun r j h => RunF.inoOf_lt H.wf0 h
  rw [Bool.and_eq_true, beq_iff_eq]
  constructor
  · rintro ⟨hs, he⟩
    obtain ⟨i, hi⟩ := Option.isSome_iff_exists.1 hs
    rw [hi] at he
    cases hp0 : fs0.inoOf p with
    | some j =>
      left
      have := p1 j hp0
      rw [hi] at this; cases this
      cases hq0 : fs0.inoOf q with
      | some j' =>
        have := q1 j' hq0
        rw [← he] at this; cases this
        exact ⟨i, rfl, rfl⟩
      | none =>
        exfalso
        rcases q2 hq0 with ⟨h, _⟩ | ⟨i', h, hle, _⟩
        · rw [h] at he; cases he
        · rw [h] at he; cases he
          have := lt0 p i hp0; omega
    | none =>
      right
      rcases p2 hp0 with ⟨h, _⟩ | ⟨i', h, hle, ht⟩
      · rw [h] at hi; cases hi
      · rw [hi] at h; cases h
        exact ⟨rfl, I.fresh p q i hi he.symm hle, ht⟩
  · rintro (⟨j, hp0, hq0⟩ | ⟨hp0, rfl, ht⟩)
    · rw [p1 j hp0, q1 j hq0]; exact ⟨rfl, rfl⟩
    · rcases p2 hp0 with ⟨_, h⟩ | ⟨i', h, _, _⟩
      · exact absurd ht h
      · rw [h]; exact ⟨rfl, rfl⟩

/-- two reachable states in which every worker is `.done` have the same observable part -/
theorem view_eq_of_done {fs0 : Fs} {secs : List Sec} (H : Hyp fs0 secs) {fs1 fs2 : Fs} {ths1 ths2 : List Thr}
    (I1 : Inv fs0 secs fs1 ths1) (I2 : Inv fs0 secs fs2 ths2)
    (d1 : ∀ th ∈ ths1, th.pc = .done) (d2 : ∀ th ∈ ths2, th.pc = .done) : view fs1 = view fs2 := by
  have hths : ths1 = ths2 := by
    apply List.ext_getElem?
    intro n
    have e1 : (ths1.map Thr.sec)[n]? = (ths2.map Thr.sec)[n]? := by rw [I1.secs, I2.secs]
    rw [List.getElem?_map, List.getElem?_map] at e1
    cases h1 : ths1[n]? with
    | none => rw [h1] at e1; cases h2 : ths2[n]? with
      | none => rfl
      | some y => rw [h2] at e1; cases e1
    | some x =>
      rw [h1] at e1
      cases h2 : ths2[n]? with
      | none => rw [h2] at e1; cases e1
      | some y =>
        rw [h2] at e1
        have hx := d1 x (List.mem_of_getElem? h1)
        have hy := d2 y (List.mem_of_getElem? h2)
        simp only [Option.map_some, Option.some.injEq] at e1
        cases x; cases y; simp_all
  subst hths
  have lt0 : ∀ r j, fs0.inoOf r = some j → j < fs0.next := fun r j h => RunF.inoOf_lt H.wf0 h
  have hop : ∀ th ∈ ths1, opened th.pc = true := fun th hth => by rw [d1 th hth]; rfl
  -- the content of an inode that was bound at the start
  have hold : ∀ r j, fs0.inoOf r = some j → fs1.content j = fs2.content j := by
    intro r j hr
    have hj := lt0 r j hr
    by_cases ht : ∃ th ∈ ths1, fs0.inoOf th.sec.t = some j
    · obtain ⟨th, hth, h0⟩ := ht
      obtain ⟨i1, _, _, a3, a4⟩ := I1.opnd th hth (hop th hth)
      obtain ⟨i2, _, _, b3, b4⟩ := I2.opnd th hth (hop th hth)
      rcases a3 with a3 | ⟨a3, _⟩
      · rcases b3 with b3 | ⟨b3, _⟩
        · rw [h0] at a3 b3; cases a3; cases b3
          rw [a4, b4]
        · rw [h0] at b3; cases b3
      · rw [h0] at a3; cases a3
    · have key : ∀ {fs : Fs}, Inv fs0 secs fs ths1 → fs.content j = fs0.content j := by
        intro fs I
        apply I.other j hj
        intro th hth _ e
        obtain ⟨i, a1, _, a3, _⟩ := I.opnd th hth (hop th hth)
        rw [a1] at e; cases e
        rcases a3 with a3 | ⟨_, a4⟩
        · exact ht ⟨th, hth, a3⟩
        · omega
      rw [key I1, key I2]
  apply View.ext'
  · intro p
    show fs1.isDir p = fs2.isDir p
    rw [Bool.eq_iff_iff, I1.dir, I2.dir]
  · intro p
    show (fs1.inoOf p).map fs1.content = (fs2.inoOf p).map fs2.content
    by_cases ht : ∃ th ∈ ths1, th.sec.t = p
    · obtain ⟨th, hth, rfl⟩ := ht
      obtain ⟨i1, a1, _, _, a4⟩ := I1.opnd th hth (hop th hth)
      obtain ⟨i2, b1, _, _, b4⟩ := I2.opnd th hth (hop th hth)
      rw [a1, b1, Option.map_some, Option.map_some, a4, b4]
    · have k1 : fs1.inoOf p = fs0.inoOf p := I1.keep p (fun x hx e => absurd ⟨x, hx, e⟩ ht)
      have k2 : fs2.inoOf p = fs0.inoOf p := I2.keep p (fun x hx e => absurd ⟨x, hx, e⟩ ht)
      rw [k1, k2]
      cases h0 : fs0.inoOf p with
      | none => rfl
      | some j => rw [Option.map_some, Option.map_some, hold p j h0]
  · intro p q
    rw [Bool.eq_iff_iff, A_char H I1 d1, A_char H I2 d2]

/-! ### the sequential execution is one of the schedules -/

theorem runSched_append (a b : List Nat) : ∀ (fs : Fs) (ths : List Thr),
    runSched fs ths (a ++ b) = runSched (runSched fs ths a).1 (runSched fs ths a).2 b := by
  induction a with
  | nil => intro fs ths; rfl
  | cons k a ih =>
    intro fs ths
    simp only [List.cons_append, runSched]
    cases ths[k]? with
    | none => exact ih _ _
    | some th => exact ih _ _

theorem runSched_at (fs : Fs) (pre post : List Thr) (th : Thr) (rest : List Nat) :
    runSched fs (pre ++ th :: post) (pre.length :: rest)
      = runSched (th.step fs).1 (pre ++ (th.step fs).2 :: post) rest := by
  simp only [runSched]
  have e : (pre ++ th :: post)[pre.length]? = some th := by simp
  rw [e]
  simp

/-- the four steps of one worker, alone, are the critical section -/
theorem step4 {fs r : Fs} {s : Sec} (h : fs.crit s.t s.L s.off s.d = some r) :
    let s1 := Thr.step fs ⟨s, .mk⟩
    let s2 := Thr.step s1.1 s1.2
    let s3 := Thr.step s2.1 s2.2
    let s4 := Thr.step s3.1 s3.2
    s4 = (r, ⟨s, .done⟩) := by
  have := (one_thread fs s r).1 h
  have e := runSched_at fs [] [] ⟨s, .mk⟩
  simp only [List.nil_append, List.length_nil] at e
  have e' : ∀ (fs : Fs) (th : Thr) (rest : List Nat),
      runSched fs [th] (0 :: rest) = runSched (th.step fs).1 [(th.step fs).2] rest := fun fs th rest =>
    runSched_at fs [] [] th rest
  rw [e', e', e', e'] at this
  simp only [runSched, Prod.mk.injEq, List.cons.injEq, and_true] at this
  intro s1 s2 s3 s4
  exact Prod.ext this.1 this.2

theorem run4 {fs r : Fs} {s : Sec} (h : fs.crit s.t s.L s.off s.d = some r) (pre post : List Thr) :
    runSched fs (pre ++ ⟨s, .mk⟩ :: post) (List.replicate 4 pre.length) = (r, pre ++ ⟨s, .done⟩ :: post) := by
  have h4 := step4 h
  simp only at h4
  simp only [List.replicate, runSched_at]
  rw [h4]
  rfl

/-- the schedule that runs the workers one after the other -/
def seqSched : Nat → Nat → List Nat
  | _, 0 => []
  | n, m + 1 => List.replicate 4 n ++ seqSched (n + 1) m

def doneThrs (secs : List Sec) : List Thr := secs.map (fun s => ⟨s, .done⟩)

theorem run_seq (secs : List Sec) : ∀ (fs r : Fs) (pre : List Thr), fs.crits secs = some r →
    runSched fs (pre ++ initThrs secs) (seqSched pre.length secs.length) = (r, pre ++ doneThrs secs) := by
  induction secs with
  | nil =>
    intro fs r pre h
    simp only [Fs.crits, Option.some.injEq] at h
    subst h; rfl
  | cons s l ih =>
    intro fs r pre h
    simp only [Fs.crits] at h
    cases h1 : fs.crit s.t s.L s.off s.d with
    | none => rw [h1] at h; cases h
    | some f1 =>
      rw [h1, Option.bind_some] at h
      simp only [List.length_cons, seqSched, initThrs, List.map_cons, doneThrs]
      rw [runSched_append, run4 h1]
      have := ih f1 r (pre ++ [⟨s, .done⟩]) h
      simp only [List.length_append, List.length_singleton, List.append_assoc, List.singleton_append,
        initThrs, doneThrs] at this
      exact this

/-! ### progress -/

def rank : SecPc → Nat
  | .mk => 0 | .opn => 1 | .setLen _ => 2 | .write _ => 3 | .done => 4 | .failed => 4

theorem rank_step (fs : Fs) (th : Thr) :
    (th.step fs).2.pc = .failed ∨ min 4 (rank th.pc + 1) ≤ rank (th.step fs).2.pc := by
  unfold Thr.step
  cases hp : th.pc with
  | mk => simp only; split <;> simp [rank]
  | opn =>
    simp only
    split
    · split <;> simp [rank]
    · simp
  | setLen i => simp [rank]
  | write i => simp [rank]
  | done => simp [rank, hp]
  | failed => simp [hp]

theorem run_progress {fs0 : Fs} {secs : List Sec} (H : Hyp fs0 secs) (sched : List Nat) :
    ∀ {fs : Fs} {ths : List Thr}, Inv fs0 secs fs ths → ∀ k th, ths[k]? = some th →
      ∃ th', (runSched fs ths sched).2[k]? = some th' ∧ min 4 (rank th.pc + sched.count k) ≤ rank th'.pc := by
  induction sched with
  | nil => intro fs ths _ k th hk; exact ⟨th, hk, by simp only [List.count_nil, Nat.add_zero]; exact Nat.min_le_right _ _⟩
  | cons j rest ih =>
    intro fs ths I k th hk
    simp only [runSched]
    cases hj : ths[j]? with
    | none =>
      have hne : j ≠ k := by intro e; subst e; rw [hk] at hj; cases hj
      obtain ⟨th', h1, h2⟩ := ih I k th hk
      refine ⟨th', h1, ?_⟩
      rw [List.count_cons_of_ne hne]; exact h2
    | some thj =>
      have I' := inv_step H I hj
      by_cases e : j = k
      · subst e
        rw [hk] at hj; cases hj
        have hlt : j < ths.length := by
          rcases Nat.lt_or_ge j ths.length with h | h
          · exact h
          · rw [List.getElem?_eq_none h] at hk; cases hk
        have hk' : (ths.set j (th.step fs).2)[j]? = some (th.step fs).2 := by
          rw [List.getElem?_set]; simp [hlt]
        obtain ⟨th', h1, h2⟩ := ih I' j _ hk'
        refine ⟨th', h1, ?_⟩
        have hnf := I'.nofail _ (List.mem_of_getElem? hk')
        rcases rank_step fs th with h | h
        · exact absurd h hnf
        · rw [List.count_cons_self]; omega
      · have hk' : (ths.set j (thj.step fs).2)[k]? = some th := by
          rw [List.getElem?_set_ne e]; exact hk
        obtain ⟨th', h1, h2⟩ := ih I' k th hk'
        refine ⟨th', h1, ?_⟩
        rw [List.count_cons_of_ne e]; exact h2

end TB.RunOps
