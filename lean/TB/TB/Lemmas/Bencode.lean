/-
  Helper lemmas for C08 (TB/Props/C08.lean). Split for build time:
    TB.Lemmas.BencodeBase     — digits; `decodeInt` / `decodeStr` sound, complete, panic-free
    TB.Lemmas.BencodeSound    — soundness of `decodeAny` and the list/dict loops (fuel induction); no panics
    TB.Lemmas.BencodeComplete — completeness of the same on encodings of canonical values (fuel `2·|encode v|`)
-/
import TB.Model.Bencode
import TB.Spec.BencodeSpec
import TB.Lemmas.BencodeBase
import TB.Lemmas.BencodeSound
import TB.Lemmas.BencodeComplete
