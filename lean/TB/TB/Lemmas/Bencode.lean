/-
  Helper lemmas for C08 (TB/Props/C08.lean).
-/
import TB.Model.Bencode
import TB.Spec.BencodeSpec
namespace TB

end TB
