/-
  Helper lemmas for C05: the safety invariant holds initially and is preserved by every step
  (one lemma per program counter).
-/
import TB.Lemmas.ExecBase
namespace TB.Exec

variable {bal : Bal} {qs0 : List (List Nat)} {s s' : ExSt} {i : Nat}

theorem inv_init (qs : List (List Nat)) : Inv qs (init qs) := by
  refine ⟨?_, ?_, ?_, ?_, ?_, ?_, ?_, ?_⟩
  · simp [init]
  · simp [init]
  · simp [init]
  · have : inHand (init qs) = [] := by
      rw [inHand_eq]
      simp only [init]
      rw [List.filterMap_eq_nil_iff]
      intro a ha
      rw [List.eq_of_mem_replicate ha]; rfl
    rw [this]; simp [init]
  · intro h hh; simp [init] at hh
  · intro i pc hpc
    simp only [init] at hpc ⊢
    rw [List.getElem?_replicate] at hpc
    split at hpc
    · cases hpc
      exact WInv.triv rfl rfl
    · cases hpc
  · intro j h hj
    simp only [init] at hj
    rw [List.getElem?_replicate] at hj
    split at hj <;> cases hj
  · intro j hj
    simp only [init] at hj ⊢
    rw [List.getElem?_eq_none hj]; rfl

theorem inv_top (hinv : Inv qs0 s) (hpc : s.pcs[i]? = some .top) (hs : step bal s i = some s') :
    Inv qs0 s' := by
  simp only [step, hpc] at hs
  have hw := hinv.wrk i _ hpc
  have hil : i < s.pcs.length := lt_of_getElem?_eq_some hpc
  split at hs
  · rename_i hq
    cases hs
    have hqi : s.queues[i]? = some (s.queues[i]?.getD []) := by
      rw [List.getElem?_eq_getElem (by rw [hinv.lenQ]; exact hil)]; rfl
    refine ⟨?_, ?_, ?_, ?_, ?_, ?_, ?_, ?_⟩
    · simpa [setPc, setQLock] using hinv.lenQ
    · simpa [setPc, setQLock] using hinv.lenL
    · simpa [setPc, setQLock] using hinv.actLe
    · rw [inHand_eq]
      simp only [setPc, setQLock]
      have h1 := filterMap_set_perm hand (b := Pc.popped (s.queues[i]?.getD []).getLast?) hpc
      have h2 := flatten_set_dropLast s.queues i _ hqi
      have h3 := hinv.cons
      rw [inHand_eq] at h3
      refine List.Perm.trans ?_ h3
      have e : hand (Pc.popped (s.queues[i]?.getD []).getLast?) = (s.queues[i]?.getD []).getLast? := by
        cases (s.queues[i]?.getD []).getLast? <;> rfl
      rw [e] at h1
      simp only [hand, Option.toList_none, List.nil_append] at h1
      exact cons_move h1 h2
    · exact sHeld_set hinv.sHeld hpc (fun h => by cases h)
    · refine forall_set ?_ ?_
      · exact WInv.triv rfl rfl
      · intro j pc _ hj
        exact (hinv.wrk j pc hj).mono_q (fun j' => empty_set_dropLast s.queues i j')
    · refine qHold_set i (some i) hinv.qHold hpc ?_ ?_
      · intro j _ hm; exact hm.elim
      · intro h hh; cases hh; exact ⟨rfl, rfl⟩
    · intro j hj
      exact empty_set_dropLast s.queues i j (hinv.tail j hj)
  · cases hs
    refine ⟨?_, ?_, ?_, ?_, ?_, ?_, ?_, ?_⟩
    · simpa [setPc] using hinv.lenQ
    · simpa [setPc] using hinv.lenL
    · simpa [setPc] using hinv.actLe
    · rw [inHand_eq]
      simp only [setPc]
      rw [filterMap_set_eq hand (b := Pc.wantState) hpc rfl, ← inHand_eq]
      exact hinv.cons
    · exact sHeld_set hinv.sHeld hpc (fun h => by cases h)
    · refine forall_set ?_ ?_
      · exact WInv.triv rfl rfl
      · intro j pc _ hj
        exact hinv.wrk j pc hj
    · exact qHold_pc hinv.qHold hpc (fun j hm => hm.elim)
    · exact hinv.tail

theorem inv_popped {item : Option Nat} (hinv : Inv qs0 s) (hpc : s.pcs[i]? = some (.popped item))
    (hs : step bal s i = some s') : Inv qs0 s' := by
  simp only [step, hpc] at hs
  cases hs
  refine ⟨?_, ?_, ?_, ?_, ?_, ?_, ?_, ?_⟩
  · simpa [setPc, setQLock] using hinv.lenQ
  · simpa [setPc, setQLock] using hinv.lenL
  · simpa [setPc, setQLock] using hinv.actLe
  · rw [inHand_eq]
    simp only [setPc, setQLock]
    have h3 := hinv.cons
    rw [inHand_eq] at h3
    cases item with
    | none => rw [filterMap_set_eq hand (b := Pc.wantState) hpc rfl]; exact h3
    | some x => rw [filterMap_set_eq hand (b := Pc.solving x) hpc rfl]; exact h3
  · exact sHeld_set hinv.sHeld hpc (fun h => by cases h)
  · refine forall_set ?_ ?_
    · cases item <;> exact WInv.triv rfl rfl
    · intro j pc _ hj
      exact hinv.wrk j pc hj
  · refine qHold_set i none hinv.qHold hpc ?_ ?_
    · intro j hj hm; exact absurd hm hj
    · intro h hh; cases hh
  · exact hinv.tail

theorem inv_solving {x : Nat} (hinv : Inv qs0 s) (hpc : s.pcs[i]? = some (.solving x))
    (hs : step bal s i = some s') : Inv qs0 s' := by
  simp only [step, hpc] at hs
  cases hs
  refine ⟨?_, ?_, ?_, ?_, ?_, ?_, ?_, ?_⟩
  · simpa [setPc] using hinv.lenQ
  · simpa [setPc] using hinv.lenL
  · simpa [setPc] using hinv.actLe
  · rw [inHand_eq]
    simp only [setPc]
    have h1 := filterMap_set_perm hand (b := Pc.top) hpc
    have h3 := hinv.cons
    rw [inHand_eq] at h3
    refine List.Perm.trans ?_ h3
    simp only [hand, Option.toList_none, Option.toList_some, List.nil_append] at h1
    simp only [List.append_assoc]
    refine List.Perm.append_left _ ?_
    rw [← List.append_assoc]
    exact List.Perm.append_right _ h1
  · exact sHeld_set hinv.sHeld hpc (fun h => by cases h)
  · refine forall_set ?_ ?_
    · exact WInv.triv rfl rfl
    · intro j pc _ hj
      exact hinv.wrk j pc hj
  · exact qHold_pc hinv.qHold hpc (fun j hm => hm.elim)
  · exact hinv.tail

theorem inv_wantState (hinv : Inv qs0 s) (hpc : s.pcs[i]? = some .wantState)
    (hs : step bal s i = some s') : Inv qs0 s' := by
  simp only [step, hpc] at hs
  split at hs
  · rename_i hn
    have hst : s.stateLock = none := Option.isNone_iff_eq_none.1 hn
    cases hs
    refine ⟨?_, ?_, ?_, ?_, ?_, ?_, ?_, ?_⟩
    · simpa [setPc] using hinv.lenQ
    · simpa [setPc] using hinv.lenL
    · simpa [setPc] using hinv.actLe
    · rw [inHand_eq]
      simp only [setPc]
      rw [filterMap_set_eq hand (b := Pc.haveState) hpc rfl, ← inHand_eq]
      exact hinv.cons
    · intro h hh
      cases hh
      exact ⟨.haveState, getElem?_set_self_of hpc, rfl⟩
    · refine forall_set ?_ ?_
      · exact ⟨fun _ => rfl, fun h => (by cases h), fun h => (by cases h), fun d h => (by cases h)⟩
      · intro j pc _ hj
        exact (hinv.wrk j pc hj).of_not_holdsS (hinv.none_not_holdsS hst hj) (Nat.le_refl _)
    · exact qHold_pc hinv.qHold hpc (fun j hm => hm.elim)
    · exact hinv.tail
  · cases hs

theorem inv_haveState (hinv : Inv qs0 s) (hpc : s.pcs[i]? = some .haveState)
    (hs : step bal s i = some s') : Inv qs0 s' := by
  simp only [step, hpc] at hs
  have hw := hinv.wrk i _ hpc
  have hst : s.stateLock = some i := hw.hs rfl
  cases hs
  refine ⟨?_, ?_, ?_, ?_, ?_, ?_, ?_, ?_⟩
  · simpa [setPc] using hinv.lenQ
  · simpa [setPc] using hinv.lenL
  · simpa [setPc] using hinv.actLe
  · rw [inHand_eq]
    simp only [setPc]
    rw [filterMap_set_eq hand (b := if i ≥ s.active then Pc.exiting else Pc.wantLocal) hpc
      (by split <;> rfl), ← inHand_eq]
    exact hinv.cons
  · exact sHeld_set hinv.sHeld hpc (fun _ => by split <;> rfl)
  · refine forall_set ?_ ?_
    · split
      · rename_i hge
        exact ⟨fun _ => hst, fun h => (by cases h), fun _ => hge, fun d h => (by cases h)⟩
      · rename_i hge
        exact ⟨fun _ => hst, fun _ => Nat.lt_of_not_le hge, fun h => (by cases h), fun d h => (by cases h)⟩
    · intro j pc hji hj
      exact (hinv.wrk j pc hj).of_not_holdsS (hinv.other_not_holdsS hst hji hj) (Nat.le_refl _)
  · exact qHold_pc hinv.qHold hpc (fun j hm => hm.elim)
  · exact hinv.tail

theorem inv_exiting (hinv : Inv qs0 s) (hpc : s.pcs[i]? = some .exiting)
    (hs : step bal s i = some s') : Inv qs0 s' := by
  simp only [step, hpc] at hs
  have hw := hinv.wrk i _ hpc
  have hst : s.stateLock = some i := hw.hs rfl
  cases hs
  refine ⟨?_, ?_, ?_, ?_, ?_, ?_, ?_, ?_⟩
  · simpa [setPc] using hinv.lenQ
  · simpa [setPc] using hinv.lenL
  · simpa [setPc] using hinv.actLe
  · rw [inHand_eq]
    simp only [setPc]
    rw [filterMap_set_eq hand (b := Pc.done) hpc rfl, ← inHand_eq]
    exact hinv.cons
  · intro h hh; cases hh
  · refine forall_set ?_ ?_
    · exact ⟨fun h => (by cases h), fun h => (by cases h), fun _ => hw.ex rfl, fun d h => (by cases h)⟩
    · intro j pc hji hj
      exact (hinv.wrk j pc hj).of_not_holdsS (hinv.other_not_holdsS hst hji hj) (Nat.le_refl _)
  · exact qHold_pc hinv.qHold hpc (fun j hm => hm.elim)
  · exact hinv.tail

theorem inv_wantLocal (hinv : Inv qs0 s) (hpc : s.pcs[i]? = some .wantLocal)
    (hs : step bal s i = some s') : Inv qs0 s' := by
  simp only [step, hpc] at hs
  have hw := hinv.wrk i _ hpc
  have hst : s.stateLock = some i := hw.hs rfl
  split at hs
  · cases hs
    refine ⟨?_, ?_, ?_, ?_, ?_, ?_, ?_, ?_⟩
    · simpa [setPc, setQLock] using hinv.lenQ
    · simpa [setPc, setQLock] using hinv.lenL
    · simpa [setPc, setQLock] using hinv.actLe
    · rw [inHand_eq]
      simp only [setPc, setQLock]
      rw [filterMap_set_eq hand (b := Pc.haveLocal) hpc rfl, ← inHand_eq]
      exact hinv.cons
    · exact sHeld_set hinv.sHeld hpc (fun _ => rfl)
    · refine forall_set ?_ ?_
      · exact ⟨fun _ => hst, fun _ => hw.na rfl, fun h => (by cases h), fun d h => (by cases h)⟩
      · intro j pc hji hj
        exact (hinv.wrk j pc hj).of_not_holdsS (hinv.other_not_holdsS hst hji hj) (Nat.le_refl _)
    · refine qHold_set i (some i) hinv.qHold hpc ?_ ?_
      · intro j _ hm; exact hm.elim
      · intro h hh; cases hh; exact ⟨rfl, rfl⟩
    · exact hinv.tail
  · cases hs

theorem inv_haveLocal (hinv : Inv qs0 s) (hpc : s.pcs[i]? = some .haveLocal)
    (hs : step bal s i = some s') : Inv qs0 s' := by
  simp only [step, hpc] at hs
  have hw := hinv.wrk i _ hpc
  have hst : s.stateLock = some i := hw.hs rfl
  cases hs
  refine ⟨?_, ?_, ?_, ?_, ?_, ?_, ?_, ?_⟩
  · simpa [setPc] using hinv.lenQ
  · simpa [setPc] using hinv.lenL
  · simpa [setPc] using hinv.actLe
  · rw [inHand_eq]
    simp only [setPc]
    rw [filterMap_set_eq hand
      (b := if (s.queues[i]?.getD []).length > 0 then Pc.cont1 else Pc.collect 0) hpc
      (by split <;> rfl), ← inHand_eq]
    exact hinv.cons
  · exact sHeld_set hinv.sHeld hpc (fun _ => by split <;> rfl)
  · refine forall_set ?_ ?_
    · split
      · exact ⟨fun _ => hst, fun h => (by cases h), fun h => (by cases h), fun d h => (by cases h)⟩
      · exact ⟨fun _ => hst, fun _ => hw.na rfl, fun h => (by cases h), fun d h => (by cases h)⟩
    · intro j pc hji hj
      exact (hinv.wrk j pc hj).of_not_holdsS (hinv.other_not_holdsS hst hji hj) (Nat.le_refl _)
  · refine qHold_pc hinv.qHold hpc (fun j hm => ?_)
    split
    · exact hm
    · exact Or.inl hm
  · exact hinv.tail

theorem inv_cont1 (hinv : Inv qs0 s) (hpc : s.pcs[i]? = some .cont1)
    (hs : step bal s i = some s') : Inv qs0 s' := by
  simp only [step, hpc] at hs
  have hw := hinv.wrk i _ hpc
  have hst : s.stateLock = some i := hw.hs rfl
  cases hs
  refine ⟨?_, ?_, ?_, ?_, ?_, ?_, ?_, ?_⟩
  · simpa [setPc, setQLock] using hinv.lenQ
  · simpa [setPc, setQLock] using hinv.lenL
  · simpa [setPc, setQLock] using hinv.actLe
  · rw [inHand_eq]
    simp only [setPc, setQLock]
    rw [filterMap_set_eq hand (b := Pc.cont2) hpc rfl, ← inHand_eq]
    exact hinv.cons
  · exact sHeld_set hinv.sHeld hpc (fun _ => rfl)
  · refine forall_set ?_ ?_
    · exact ⟨fun _ => hst, fun h => (by cases h), fun h => (by cases h), fun d h => (by cases h)⟩
    · intro j pc hji hj
      exact (hinv.wrk j pc hj).of_not_holdsS (hinv.other_not_holdsS hst hji hj) (Nat.le_refl _)
  · refine qHold_set i none hinv.qHold hpc ?_ ?_
    · intro j hj hm; exact absurd hm hj
    · intro h hh; cases hh
  · exact hinv.tail

/-- the three steps that drop `S` and go back to `top` -/
theorem inv_dropS {pci : Pc} (hinv : Inv qs0 s) (hpc : s.pcs[i]? = some pci)
    (hh : holdsS pci = true) (hhand : hand pci = none) (hm : ∀ j, ¬ mayHold s.active i pci j) :
    Inv qs0 (setPc { s with stateLock := none } i .top) := by
  have hw := hinv.wrk i _ hpc
  have hst : s.stateLock = some i := hw.hs hh
  refine ⟨?_, ?_, ?_, ?_, ?_, ?_, ?_, ?_⟩
  · simpa [setPc] using hinv.lenQ
  · simpa [setPc] using hinv.lenL
  · simpa [setPc] using hinv.actLe
  · rw [inHand_eq]
    simp only [setPc]
    rw [filterMap_set_eq hand (b := Pc.top) hpc (by rw [hhand]; rfl), ← inHand_eq]
    exact hinv.cons
  · intro h hh; cases hh
  · refine forall_set ?_ ?_
    · exact WInv.triv rfl rfl
    · intro j pc hji hj
      exact (hinv.wrk j pc hj).of_not_holdsS (hinv.other_not_holdsS hst hji hj) (Nat.le_refl _)
  · exact qHold_pc hinv.qHold hpc (fun j hm' => (hm j hm').elim)
  · exact hinv.tail

theorem inv_cont2 (hinv : Inv qs0 s) (hpc : s.pcs[i]? = some .cont2)
    (hs : step bal s i = some s') : Inv qs0 s' := by
  simp only [step, hpc] at hs
  cases hs
  exact inv_dropS hinv hpc rfl rfl (fun j h => h)

theorem inv_unlockState (hinv : Inv qs0 s) (hpc : s.pcs[i]? = some .unlockState)
    (hs : step bal s i = some s') : Inv qs0 s' := by
  simp only [step, hpc] at hs
  cases hs
  exact inv_dropS hinv hpc rfl rfl (fun j h => h)

theorem mem_others_lt {i a j : Nat} (h : j ∈ others i a) : j < a := by
  simp only [others, List.mem_filter, List.mem_range] at h
  exact h.1

theorem inv_collect {k : Nat} (hinv : Inv qs0 s) (hpc : s.pcs[i]? = some (.collect k))
    (hs : step bal s i = some s') : Inv qs0 s' := by
  simp only [step, hpc] at hs
  have hw := hinv.wrk i _ hpc
  have hst : s.stateLock = some i := hw.hs rfl
  split at hs
  · cases hs
    refine ⟨?_, ?_, ?_, ?_, ?_, ?_, ?_, ?_⟩
    · simpa [setPc] using hinv.lenQ
    · simpa [setPc] using hinv.lenL
    · simpa [setPc] using hinv.actLe
    · rw [inHand_eq]
      simp only [setPc]
      rw [filterMap_set_eq hand (b := Pc.bal) hpc rfl, ← inHand_eq]
      exact hinv.cons
    · exact sHeld_set hinv.sHeld hpc (fun _ => rfl)
    · refine forall_set ?_ ?_
      · exact ⟨fun _ => hst, fun _ => hw.na rfl, fun h => (by cases h), fun d h => (by cases h)⟩
      · intro j pc hji hj
        exact (hinv.wrk j pc hj).of_not_holdsS (hinv.other_not_holdsS hst hji hj) (Nat.le_refl _)
    · refine qHold_pc hinv.qHold hpc (fun j hm => ?_)
      rcases hm with rfl | hm
      · exact hw.na rfl
      · exact mem_others_lt (List.mem_of_mem_take hm)
    · exact hinv.tail
  · rename_i t ht
    split at hs
    · cases hs
      refine ⟨?_, ?_, ?_, ?_, ?_, ?_, ?_, ?_⟩
      · simpa [setPc, setQLock] using hinv.lenQ
      · simpa [setPc, setQLock] using hinv.lenL
      · simpa [setPc, setQLock] using hinv.actLe
      · rw [inHand_eq]
        simp only [setPc, setQLock]
        rw [filterMap_set_eq hand (b := Pc.collect (k + 1)) hpc rfl, ← inHand_eq]
        exact hinv.cons
      · exact sHeld_set hinv.sHeld hpc (fun _ => rfl)
      · refine forall_set ?_ ?_
        · exact ⟨fun _ => hst, fun _ => hw.na rfl, fun h => (by cases h), fun d h => (by cases h)⟩
        · intro j pc hji hj
          exact (hinv.wrk j pc hj).of_not_holdsS (hinv.other_not_holdsS hst hji hj) (Nat.le_refl _)
      · refine qHold_set t (some i) hinv.qHold hpc ?_ ?_
        · intro j _ hm
          rcases hm with h | h
          · exact Or.inl h
          · refine Or.inr ?_
            rw [List.take_add_one]
            exact List.mem_append_left _ h
        · intro h hh
          cases hh
          refine ⟨rfl, Or.inr ?_⟩
          show t ∈ List.take (k + 1) (others i s.active)
          rw [List.take_add_one, ht]
          simp
      · exact hinv.tail
    · cases hs

theorem getElem?_of_drop_eq {α : Type} {l l' : List α} {a j : Nat} (h : l'.drop a = l.drop a) (hj : a ≤ j) :
    l'[j]? = l[j]? := by
  have := congrArg (fun m => m[j - a]?) h
  simp only [List.getElem?_drop] at this
  rwa [Nat.add_sub_cancel' hj] at this

theorem inv_bal (hb : BalSpec bal) (hinv : Inv qs0 s) (hpc : s.pcs[i]? = some .bal)
    (hs : step bal s i = some s') : Inv qs0 s' := by
  simp only [step, hpc] at hs
  have hw := hinv.wrk i _ hpc
  have hst : s.stateLock = some i := hw.hs rfl
  have hia : i < s.active := hw.na rfl
  have hal : s.active ≤ s.queues.length := by rw [hinv.lenQ]; exact hinv.actLe
  obtain ⟨hlen, hdrop, hperm, _⟩ := hb s.active s.queues (by omega) hal
  have hal' : s.active ≤ (bal s.active s.queues).length := by rw [hlen]; exact hal
  cases hs
  refine ⟨?_, ?_, ?_, ?_, ?_, ?_, ?_, ?_⟩
  · simpa [setPc, hlen] using hinv.lenQ
  · simpa [setPc] using hinv.lenL
  · simpa [setPc] using hinv.actLe
  · rw [inHand_eq]
    simp only [setPc]
    rw [filterMap_set_eq hand (b := Pc.release 0 (emptyTail (bal s.active s.queues) s.active)) hpc rfl,
      ← inHand_eq]
    refine List.Perm.trans (List.Perm.append_left _ ?_) hinv.cons
    have hsplit : ∀ l : List (List Nat), l.flatten = (l.take s.active).flatten ++ (l.drop s.active).flatten := by
      intro l; rw [← List.flatten_append, List.take_append_drop]
    rw [hsplit (bal s.active s.queues), hsplit s.queues, hdrop]
    exact List.Perm.append_right _ hperm
  · exact sHeld_set hinv.sHeld hpc (fun _ => rfl)
  · refine forall_set ?_ ?_
    · refine ⟨fun _ => hst, fun _ => hia, fun h => (by cases h), fun d hd j hj => ?_⟩
      cases hd
      by_cases hja : j < s.active
      · exact emptyTail_spec _ _ hal' j hj hja
      · have hja' : s.active ≤ j := Nat.le_of_not_lt hja
        show (bal s.active s.queues)[j]?.getD [] = []
        rw [getElem?_of_drop_eq hdrop hja']
        exact hinv.tail j hja'
    · intro j pc hji hj
      exact (hinv.wrk j pc hj).of_not_holdsS (hinv.other_not_holdsS hst hji hj) (Nat.le_refl _)
  · exact qHold_pc hinv.qHold hpc (fun j hm => ⟨Nat.zero_le _, hm⟩)
  · intro j hj
    show (bal s.active s.queues)[j]?.getD [] = []
    rw [getElem?_of_drop_eq hdrop hj]
    exact hinv.tail j hj

theorem inv_release {k d : Nat} (hinv : Inv qs0 s) (hpc : s.pcs[i]? = some (.release k d))
    (hs : step bal s i = some s') : Inv qs0 s' := by
  simp only [step, hpc] at hs
  have hw := hinv.wrk i _ hpc
  have hst : s.stateLock = some i := hw.hs rfl
  split at hs
  · cases hs
    refine ⟨?_, ?_, ?_, ?_, ?_, ?_, ?_, ?_⟩
    · simpa [setPc, setQLock] using hinv.lenQ
    · simpa [setPc, setQLock] using hinv.lenL
    · simpa [setPc, setQLock] using hinv.actLe
    · rw [inHand_eq]
      simp only [setPc, setQLock]
      rw [filterMap_set_eq hand (b := Pc.release (k + 1) d) hpc rfl, ← inHand_eq]
      exact hinv.cons
    · exact sHeld_set hinv.sHeld hpc (fun _ => rfl)
    · refine forall_set ?_ ?_
      · exact ⟨fun _ => hst, fun _ => hw.na rfl, fun h => (by cases h), fun d' hd => hw.pd d' hd⟩
      · intro j pc hji hj
        exact (hinv.wrk j pc hj).of_not_holdsS (hinv.other_not_holdsS hst hji hj) (Nat.le_refl _)
    · refine qHold_set k none hinv.qHold hpc ?_ ?_
      · intro j hj hm
        have h1 : k ≤ j := hm.1
        exact ⟨by omega, hm.2⟩
      · intro h hh; cases hh
    · exact hinv.tail
  · rename_i hk
    cases hs
    refine ⟨?_, ?_, ?_, ?_, ?_, ?_, ?_, ?_⟩
    · simpa [setPc] using hinv.lenQ
    · simpa [setPc] using hinv.lenL
    · simpa [setPc] using hinv.actLe
    · rw [inHand_eq]
      simp only [setPc]
      rw [filterMap_set_eq hand (b := Pc.dec d) hpc rfl, ← inHand_eq]
      exact hinv.cons
    · exact sHeld_set hinv.sHeld hpc (fun _ => rfl)
    · refine forall_set ?_ ?_
      · exact ⟨fun _ => hst, fun h => (by cases h), fun h => (by cases h), fun d' hd => hw.pd d' hd⟩
      · intro j pc hji hj
        exact (hinv.wrk j pc hj).of_not_holdsS (hinv.other_not_holdsS hst hji hj) (Nat.le_refl _)
    · exact qHold_pc hinv.qHold hpc (fun j hm => absurd (Nat.lt_of_le_of_lt hm.1 hm.2) hk)
    · exact hinv.tail

theorem inv_dec {d : Nat} (hinv : Inv qs0 s) (hpc : s.pcs[i]? = some (.dec d))
    (hs : step bal s i = some s') : Inv qs0 s' := by
  simp only [step, hpc] at hs
  have hw := hinv.wrk i _ hpc
  have hst : s.stateLock = some i := hw.hs rfl
  cases hs
  refine ⟨?_, ?_, ?_, ?_, ?_, ?_, ?_, ?_⟩
  · simpa [setPc] using hinv.lenQ
  · simpa [setPc] using hinv.lenL
  · have := hinv.actLe
    simp only [setPc, List.length_set]
    omega
  · rw [inHand_eq]
    simp only [setPc]
    rw [filterMap_set_eq hand (b := Pc.unlockState) hpc rfl, ← inHand_eq]
    exact hinv.cons
  · exact sHeld_set hinv.sHeld hpc (fun _ => rfl)
  · refine forall_set ?_ ?_
    · exact ⟨fun _ => hst, fun h => (by cases h), fun h => (by cases h), fun d h => (by cases h)⟩
    · intro j pc hji hj
      exact (hinv.wrk j pc hj).of_not_holdsS (hinv.other_not_holdsS hst hji hj) (Nat.sub_le _ _)
  · intro j h hj
    obtain ⟨pc, hpc', hm⟩ := hinv.qHold j h hj
    by_cases hhi : h = i
    · subst hhi
      rw [hpc] at hpc'; cases hpc'
      exact hm.elim
    · refine ⟨pc, ?_, mayHold_of_not_holdsS (hinv.other_not_holdsS hst hhi hpc') hm⟩
      show (s.pcs.set i Pc.unlockState)[h]? = some pc
      rw [List.getElem?_set_ne (fun e => hhi e.symm)]; exact hpc'
  · intro j hj
    exact hw.pd d rfl j hj

/-- every step preserves the invariant -/
theorem inv_step (hb : BalSpec bal) (hinv : Inv qs0 s) (hs : step bal s i = some s') : Inv qs0 s' := by
  cases hpc : s.pcs[i]? with
  | none => simp [step, hpc] at hs
  | some pc =>
    cases pc with
    | top => exact inv_top hinv hpc hs
    | popped item => exact inv_popped hinv hpc hs
    | solving x => exact inv_solving hinv hpc hs
    | wantState => exact inv_wantState hinv hpc hs
    | haveState => exact inv_haveState hinv hpc hs
    | exiting => exact inv_exiting hinv hpc hs
    | wantLocal => exact inv_wantLocal hinv hpc hs
    | haveLocal => exact inv_haveLocal hinv hpc hs
    | cont1 => exact inv_cont1 hinv hpc hs
    | cont2 => exact inv_cont2 hinv hpc hs
    | collect k => exact inv_collect hinv hpc hs
    | bal => exact inv_bal hb hinv hpc hs
    | release k d => exact inv_release hinv hpc hs
    | dec d => exact inv_dec hinv hpc hs
    | unlockState => exact inv_unlockState hinv hpc hs
    | done => simp [step, hpc] at hs

theorem inv_reach (hb : BalSpec bal) {qs : List (List Nat)} (h : Reach bal (init qs) s) : Inv qs s := by
  induction h with
  | refl => exact inv_init qs
  | step i _ hs ih => exact inv_step hb ih hs

end TB.Exec
