/-
  Helper lemmas (RunZ): evaluating pieces in a different order (TB.Props.OrderIndep).

  Route. As in RunX, two orders are compared on the observable part of the tree (`RunX.View`), where observational
  equivalence is equality.

    * Z-a  the matchers of `solvePiece` (`single::scan`, `preload` + `scan_internal`) as PURE functions `pScan`,
           `pLoad`, `pMatch` of "the bytes behind every name" (`View.F`); `pMatch_congr`: they only look at the ranges
           of the candidates (`ReadAgree`).
    * Z-b  the bridge: without fault points, on a well-formed tree whose candidates are regular files, `solvePiece`
           is `pMatch` followed by the writer (`solvePiece_pure`), and on views it is `vstepP` (`solvePiece_view`).
    * Z-c  the invariant `Good` of a view (aliases, well-formedness, candidates are files, own-image candidates have
           their declared length) is kept by the critical sections of the work items; the sections of one piece do not
           change what another piece reads (`vrun_frame`).
    * Z-d  two pieces commute on views (`two_comm`), any permutation (`vsolveAll_perm`).
    * Z-e  back to states: `evalAll`, `evalAll_view`, `solveAll_eq_evalAll`.
-/
import TB.Lemmas.RunX
import TB.Lemmas.RunQ
namespace TB.RunZ
open TB TB.RunX

/-! ### Z-a: the matchers as pure functions of the bytes behind the names -/

/-- the bytes a read of `len` bytes at offset `off` through the name `p` returns, when `F` gives the bytes behind
    every bound name (an unbound name reads as nothing; the matchers are only applied to bound names) -/
def rdF (F : Path → Option Bytes) (p : Path) (off len : Nat) : Bytes := (((F p).getD []).drop off).take len

/-- `single::scan`, pure -/
def pScan (H : Bytes → Bytes) (hash : Bytes) (seg : WSeg) (F : Path → Option Bytes) : List Path → Option (Path × Bytes)
  | [] => none
  | p :: ps =>
    if H (rdF F p seg.off seg.len) == hash then some (p, rdF F p seg.off seg.len) else pScan H hash seg F ps

/-- `preload` for one segment, pure -/
def pLoadSeg (seg : WSeg) (F : Path → Option Bytes) :
    List Path → List (Option Path × Bytes) → List (Option Path × Bytes)
  | [], acc => acc
  | p :: ps, acc =>
    if acc.any (fun r => r.2 == rdF F p seg.off seg.len) then pLoadSeg seg F ps acc
    else pLoadSeg seg F ps (acc ++ [(some p, rdF F p seg.off seg.len)])

/-- `preload`, pure -/
def pLoad (F : Path → Option Bytes) : List WSeg → List (List (Option Path × Bytes))
  | [] => []
  | seg :: rest =>
    if seg.ent.isPad then [(none, List.replicate seg.len 0)] :: pLoad F rest
    else match seg.ent.searches with
      | none => [(none, [])] :: pLoad F rest
      | some paths => pLoadSeg seg F paths [] :: pLoad F rest

/-- what the matcher of `solvePiece` decides: a panic, not found, or a hit — the argument list and the buffer
    handed to `FileWriter::write` -/
inductive MRes where
  | panic
  | notFound
  | hit (pairs : List (WSeg × Option Path)) (buf : Bytes)

/-- the matcher of `solve_internal`, pure -/
def pMatch (H : Bytes → Bytes) (F : Path → Option Bytes) (w : Work) : MRes :=
  if w.segs.any (fun s => !s.ent.isPad && s.ent.searches.isNone && s.len != 0) then .notFound else
  match w.segs with
  | [seg] =>
    if seg.ent.isPad then
      if H (List.replicate seg.len 0) == w.hash then .hit [] [] else .notFound
    else
      match seg.ent.searches with
      | none => .panic
      | some paths =>
        match pScan H w.hash seg F paths with
        | some (src, bytes) => .hit [(seg, some src)] bytes
        | none => .notFound
  | segs =>
    match searchProduct H w.hash (pLoad F segs) [] with
    | some chosen => .hit (List.zip segs (chosen.map (·.1))) (chosen.flatMap (·.2))
    | none => .notFound

/-- two assignments of bytes to names give the same reads of the candidates of the piece `w`, at the ranges `w`
    reads them -/
def ReadAgree (F F' : Path → Option Bytes) (w : Work) : Prop :=
  ∀ s ∈ w.segs, s.ent.isPad = false → ∀ paths, s.ent.searches = some paths → ∀ p ∈ paths,
    rdF F p s.off s.len = rdF F' p s.off s.len

theorem ReadAgree.refl (F : Path → Option Bytes) (w : Work) : ReadAgree F F w := fun _ _ _ _ _ _ _ => rfl

theorem ReadAgree.trans {F F' F'' : Path → Option Bytes} {w : Work} (h1 : ReadAgree F F' w) (h2 : ReadAgree F' F'' w) :
    ReadAgree F F'' w := fun s hs hp paths hps p hpm => (h1 s hs hp paths hps p hpm).trans (h2 s hs hp paths hps p hpm)

theorem pScan_congr (H : Bytes → Bytes) (hash : Bytes) (seg : WSeg) (F F' : Path → Option Bytes) (paths : List Path)
    (h : ∀ p ∈ paths, rdF F p seg.off seg.len = rdF F' p seg.off seg.len) :
    pScan H hash seg F paths = pScan H hash seg F' paths := by
  induction paths with
  | nil => rfl
  | cons p ps ih =>
    simp only [pScan, h p List.mem_cons_self]
    rw [ih (fun q hq => h q (List.mem_cons_of_mem _ hq))]

theorem pLoadSeg_congr (seg : WSeg) (F F' : Path → Option Bytes) (paths : List Path)
    (h : ∀ p ∈ paths, rdF F p seg.off seg.len = rdF F' p seg.off seg.len) (acc : List (Option Path × Bytes)) :
    pLoadSeg seg F paths acc = pLoadSeg seg F' paths acc := by
  induction paths generalizing acc with
  | nil => rfl
  | cons p ps ih =>
    simp only [pLoadSeg, h p List.mem_cons_self]
    rw [ih (fun q hq => h q (List.mem_cons_of_mem _ hq)), ih (fun q hq => h q (List.mem_cons_of_mem _ hq))]

theorem pLoad_congr (F F' : Path → Option Bytes) (segs : List WSeg)
    (h : ∀ s ∈ segs, s.ent.isPad = false → ∀ paths, s.ent.searches = some paths → ∀ p ∈ paths,
      rdF F p s.off s.len = rdF F' p s.off s.len) :
    pLoad F segs = pLoad F' segs := by
  induction segs with
  | nil => rfl
  | cons seg rest ih =>
    have ih' := ih (fun s hs => h s (List.mem_cons_of_mem _ hs))
    simp only [pLoad]
    split
    · rw [ih']
    · rename_i hp
      split
      · rw [ih']
      · rename_i paths hs
        rw [ih', pLoadSeg_congr seg F F' paths (h seg List.mem_cons_self (by simpa using hp) paths hs)]

/-- Z1, the core: the matcher only looks at the ranges of the candidates -/
theorem pMatch_congr (H : Bytes → Bytes) {F F' : Path → Option Bytes} {w : Work} (h : ReadAgree F F' w) :
    pMatch H F w = pMatch H F' w := by
  unfold pMatch
  split
  · rfl
  split
  · rename_i seg hw
    split
    · rfl
    · rename_i hp
      split
      · rfl
      · rename_i paths hs
        rw [pScan_congr H w.hash seg F F' paths (h seg (by rw [hw]; simp) (by simpa using hp) paths hs)]
  · rw [pLoad_congr F F' w.segs h]

/-! ### Z-b: the bridge from `solvePiece` to the pure matcher -/

theorem F_of_look {fs : Fs} {p : Path} {i : Nat} (h : fs.look p = .file i) : (view fs).F p = some (fs.content i) := by
  show (fs.inoOf p).map fs.content = _
  rw [RunF.look_file_inoOf h]
  rfl

theorem rdF_of_look {fs : Fs} {p : Path} {i : Nat} (h : fs.look p = .file i) (off len : Nat) :
    rdF (view fs).F p off len = fs.readAt i off len := by
  unfold rdF Fs.readAt
  rw [F_of_look h]
  rfl

theorem scanSingle_pure (H : Bytes → Bytes) (hash : Bytes) (seg : WSeg) (paths : List Path) :
    ∀ st, RC.NFF st → (∀ p ∈ paths, ∃ i, st.fs.look p = .file i) →
      ∃ st1, RC.ROExt st st1 ∧ scanSingle H hash seg st paths = (st1, .ok (pScan H hash seg (view st.fs).F paths)) := by
  induction paths with
  | nil => intro st _ _; exact ⟨st, RC.ROExt.refl _, rfl⟩
  | cons p ps ih =>
    intro st hn hr
    obtain ⟨i, hi⟩ := hr p List.mem_cons_self
    have hext := RC.readBytes_ext st p seg.len seg.off
    unfold scanSingle pScan
    rw [RC.readBytes_nff hn hi, rdF_of_look hi]
    simp only []
    split
    · exact ⟨_, hext, rfl⟩
    · obtain ⟨st1, e1, h1⟩ := ih _ (hext.nff hn) (fun q hq => by rw [hext.fs]; exact hr q (List.mem_cons_of_mem _ hq))
      rw [hext.fs] at h1
      exact ⟨st1, hext.trans e1, h1⟩

theorem preloadSeg_pure (seg : WSeg) (paths : List Path) :
    ∀ st acc, RC.NFF st → (∀ p ∈ paths, ∃ i, st.fs.look p = .file i) →
      ∃ st1, RC.ROExt st st1 ∧ preloadSeg seg st paths acc = (st1, .ok (pLoadSeg seg (view st.fs).F paths acc)) := by
  induction paths with
  | nil => intro st acc _ _; exact ⟨st, RC.ROExt.refl _, rfl⟩
  | cons p ps ih =>
    intro st acc hn hr
    obtain ⟨i, hi⟩ := hr p List.mem_cons_self
    have hext := RC.readBytes_ext st p seg.len seg.off
    unfold preloadSeg pLoadSeg
    rw [RC.readBytes_nff hn hi, rdF_of_look hi]
    simp only []
    have hr' : ∀ q ∈ ps, ∃ i, (st.readBytes p seg.len seg.off).1.fs.look q = .file i :=
      fun q hq => by rw [hext.fs]; exact hr q (List.mem_cons_of_mem _ hq)
    split
    · obtain ⟨st1, e1, h1⟩ := ih _ acc (hext.nff hn) hr'
      rw [hext.fs] at h1
      exact ⟨st1, hext.trans e1, h1⟩
    · obtain ⟨st1, e1, h1⟩ := ih _ (acc ++ [(some p, st.fs.readAt i seg.off seg.len)]) (hext.nff hn) hr'
      rw [hext.fs] at h1
      exact ⟨st1, hext.trans e1, h1⟩

theorem preload_pure (segs : List WSeg) :
    ∀ st, RC.NFF st →
      (∀ s ∈ segs, ∀ paths, s.ent.searches = some paths → ∀ p ∈ paths, ∃ i, st.fs.look p = .file i) →
      ∃ st1, RC.ROExt st st1 ∧ preload st segs = (st1, .ok (pLoad (view st.fs).F segs)) := by
  induction segs with
  | nil => intro st _ _; exact ⟨st, RC.ROExt.refl _, rfl⟩
  | cons seg rest ih =>
    intro st hn hr
    have hr' : ∀ s ∈ rest, ∀ paths, s.ent.searches = some paths → ∀ p ∈ paths, ∃ i, st.fs.look p = .file i :=
      fun s hs => hr s (List.mem_cons_of_mem _ hs)
    unfold preload pLoad
    split
    · obtain ⟨st1, e1, h1⟩ := ih st hn hr'
      rw [h1]
      exact ⟨st1, e1, rfl⟩
    · split
      · rename_i hs
        obtain ⟨st1, e1, h1⟩ := ih st hn hr'
        rw [h1]
        exact ⟨st1, e1, by simp only [hs]⟩
      · rename_i paths hs
        obtain ⟨st1, e1, h1⟩ := preloadSeg_pure seg paths st [] hn (hr seg List.mem_cons_self paths hs)
        rw [h1]
        simp only []
        obtain ⟨st2, e2, h2⟩ := ih st1 (e1.nff hn) (fun s hs paths hps p hp => by rw [e1.fs]; exact hr' s hs paths hps p hp)
        rw [h2, e1.fs]
        exact ⟨st2, e1.trans e2, by simp only [hs]⟩

/-- what `solvePiece` does after the matcher has decided, from the state `st1` the reads left -/
def afterMatch (st1 : St) : MRes → St × Solved
  | .panic => (st1, .panic)
  | .notFound => (st1, .notFound)
  | .hit pairs buf => writeSegs st1 pairs buf 0

/-- without fault points, with candidates that are regular files, `solvePiece` is the pure matcher applied to the bytes
    behind the names, followed — on a hit — by the writer; the reads leave the tree as it is -/
theorem solvePiece_pure (H : Bytes → Bytes) (st : St) (w : Work) (hf : st.faults = [])
    (hfiles : ∀ s ∈ w.segs, ∀ paths, s.ent.searches = some paths → ∀ p ∈ paths, ∃ i, st.fs.look p = .file i) :
    ∃ st1, st1.fs = st.fs ∧ st1.faults = [] ∧
      solvePiece H st w = afterMatch st1 (pMatch H (view st.fs).F w) := by
  have hn := RunQ.nff_of_nil hf
  unfold solvePiece pMatch
  simp -iota only
  split
  · exact ⟨st, rfl, hf, rfl⟩
  have multi : ∀ segs, segs = w.segs →
      ∃ st1, st1.fs = st.fs ∧ st1.faults = [] ∧
        (match preload st segs with
          | (st1, .ok loaded) =>
            match searchProduct H w.hash loaded [] with
            | some chosen => writeSegs st1 (List.zip segs (chosen.map (·.1))) (chosen.flatMap (·.2)) 0
            | none => (st1, .notFound)
          | (st1, .err) => (st1, .fault)
          | (st1, .panic) => (st1, .panic)) =
        afterMatch st1 (match searchProduct H w.hash (pLoad (view st.fs).F segs) [] with
          | some chosen => .hit (List.zip segs (chosen.map (·.1))) (chosen.flatMap (·.2))
          | none => .notFound) := by
    intro segs hs
    obtain ⟨st1, e1, h1⟩ := preload_pure segs st hn (by rw [hs]; exact hfiles)
    rw [h1]
    refine ⟨st1, e1.fs, e1.faults.trans hf, ?_⟩
    simp only []
    cases searchProduct H w.hash (pLoad (view st.fs).F segs) [] <;> rfl
  rcases hw : w.segs with _ | ⟨seg, _ | ⟨seg2, rest⟩⟩
  · exact multi [] hw.symm
  · simp only []
    split
    · split
      · exact ⟨st, rfl, hf, rfl⟩
      · exact ⟨st, rfl, hf, rfl⟩
    · split
      · rename_i hs
        refine ⟨st, rfl, hf, ?_⟩
        simp only [hs]
        rfl
      · rename_i paths hs
        obtain ⟨st1, e1, h1⟩ := scanSingle_pure H w.hash seg paths st hn
          (hfiles seg (by rw [hw]; exact List.mem_cons_self) paths hs)
        rw [h1]
        refine ⟨st1, e1.fs, e1.faults.trans hf, ?_⟩
        simp only [hs]
        cases pScan H w.hash seg (view st.fs).F paths with
        | none => rfl
        | some x => rfl
  · exact multi _ hw.symm

theorem pMatch_pairs_mem {H : Bytes → Bytes} {F : Path → Option Bytes} {w : Work} {pairs : List (WSeg × Option Path)}
    {buf : Bytes} (h : pMatch H F w = .hit pairs buf) : ∀ x ∈ pairs, x.1 ∈ w.segs := by
  unfold pMatch at h
  split at h
  · cases h
  split at h
  · rename_i seg hw
    split at h
    · split at h
      · cases h; intro x hx; cases hx
      · cases h
    · split at h
      · cases h
      · split at h
        · cases h
          intro x hx
          simp only [List.mem_singleton] at hx
          subst hx
          rw [hw]; exact List.mem_cons_self
        · cases h
  · split at h
    · cases h
      intro x hx
      exact (List.of_mem_zip hx).1
    · cases h

/-! ### Z-c: the invariant of a view, and what the sections of one piece do to the reads of another -/

/-- `a` is a critical section of a non-padding segment of `w` -/
def IsSecOf (w : Work) (a : Sec) : Prop :=
  ∃ s ∈ w.segs, s.ent.isPad = false ∧ a.t = s.ent.fullTarget ∧ a.L = s.ent.fileLength ∧ a.off = s.off ∧
    a.d.length ≤ s.len

/-- the facts about the table and the work list that do not depend on the tree:
    `ent` the entries of the segments are table entries; `range` `SegsInRange`; `same` `hsame`;
    `cross` the static half of `NoCross`: a candidate is the segment's own image or no image of a non-padding entry -/
structure Stat (table : List TEntry) (work : List Work) : Prop where
  ent : ∀ w ∈ work, ∀ s ∈ w.segs, s.ent ∈ table
  range : ∀ w ∈ work, SegsInRange w
  same : ∀ e ∈ table, ∀ f ∈ table, e.isPad = false → f.isPad = false → e.fullTarget = f.fullTarget →
    e.fileLength = f.fileLength
  cross : ∀ w ∈ work, ∀ s ∈ w.segs, s.ent.isPad = false → ∀ paths, s.ent.searches = some paths → ∀ p ∈ paths,
    p = s.ent.fullTarget ∨ ∀ e ∈ table, e.isPad = false → p ≠ e.fullTarget

/-- the invariant of the observable part of the tree along an evaluation:
    `inv` the alias relation is a partial equivalence on bound names; `alias` an export image shares its file with no
    other name (`NoAlias`); `wf` a bound name is no directory and its proper prefixes are directories (`FsWF`);
    `files` every candidate is bound (with `wf`: is a regular file); `ownLen` a segment's own image, when it is among
    the segment's candidates, has the declared length -/
structure Good (table : List TEntry) (work : List Work) (v : View) : Prop where
  inv : VInv v
  alias : ∀ e ∈ table, e.isPad = false → ∀ q, v.A e.fullTarget q = true → q = e.fullTarget
  wf : ∀ p, (v.F p).isSome = true → v.D p = false ∧ ∀ q ∈ Fs.properPrefixes p, v.D q = true
  files : ∀ w ∈ work, ∀ s ∈ w.segs, ∀ paths, s.ent.searches = some paths → ∀ p ∈ paths, (v.F p).isSome = true
  ownLen : ∀ w ∈ work, ∀ s ∈ w.segs, s.ent.isPad = false → ∀ paths, s.ent.searches = some paths →
    s.ent.fullTarget ∈ paths → ∀ c, v.F s.ent.fullTarget = some c → c.length = s.ent.fileLength

/-- ranges of the two pieces inside one export image are disjoint (the cross-item clause of `RangesDisjoint`) -/
def PC (w1 w2 : Work) : Prop :=
  ∀ s ∈ w1.segs, ∀ t ∈ w2.segs, s.ent.isPad = false → t.ent.isPad = false → s.ent.fullTarget = t.ent.fullTarget →
    s.off + s.len ≤ t.off ∨ t.off + t.len ≤ s.off

theorem PC.symm {w1 w2 : Work} (h : PC w1 w2) : PC w2 w1 :=
  fun s hs t ht sp tp e => (h t ht s hs tp sp e.symm).symm

theorem upd_length (L off : Nat) (d c : Bytes) (h : off + d.length ≤ L) : (upd L off d c).length = L := by
  unfold upd
  rw [wr_length, sl_length]
  omega

/-- a read of a range disjoint from the write of a section, of a file that has the declared length already, does not
    see the section -/
theorem rd_upd (L off : Nat) (d c : Bytes) (o n : Nat) (hc : c.length = L) (hr : off + d.length ≤ L)
    (hd : off + d.length ≤ o ∨ o + n ≤ off) :
    ((upd L off d c).drop o).take n = (c.drop o).take n := by
  unfold upd
  rw [sl_of_length L c hc]
  apply List.ext_getElem?
  intro k
  simp only [List.getElem?_take, List.getElem?_drop, wr_get]
  split
  · rename_i hk
    split
    · rename_i h1
      exact some_getD (by omega)
    · split
      · omega
      · rfl
  · rfl

theorem good_vstep {table : List TEntry} {work : List Work} (S : Stat table work) {v : View} (G : Good table work v)
    {w : Work} (hw : w ∈ work) {a : Sec} (ha : IsSecOf w a) (hok : vok v a = true) :
    Good table work (vstep v a) := by
  obtain ⟨s, hs, sp, at_, aL, ao, ad⟩ := ha
  have hse := S.ent w hw s hs
  unfold vok at hok
  simp only [Bool.and_eq_true, List.all_eq_true, Bool.not_eq_true', Option.isNone_iff_eq_none] at hok
  obtain ⟨hfree, hnd⟩ := hok
  have hnd1 : v.D a.t = false := by
    cases h : v.D a.t with
    | false => rfl
    | true => rw [h] at hnd; simp at hnd
  have hnd2 : (mk a.t).contains a.t = false := by
    cases h : (mk a.t).contains a.t with
    | false => rfl
    | true => rw [h] at hnd; simp at hnd
  have hAt : ∀ p, v.A p a.t = true → p = a.t := by
    intro p hp
    have := G.alias s.ent hse sp p (by rw [← at_]; exact G.inv.sym _ _ hp)
    rw [this, at_]
  refine ⟨vinv_step G.inv a, ?_, ?_, ?_, ?_⟩
  · intro e he hp q hq
    simp only [vstep, Bool.or_eq_true, Bool.and_eq_true, beq_iff_eq] at hq
    rcases hq with hq | ⟨h1, h2⟩
    · exact G.alias e he hp q hq
    · rw [h2, h1]
  · intro p hp
    by_cases hpt : p = a.t
    · subst hpt
      refine ⟨?_, fun q hq => ?_⟩
      · simp only [vstep, hnd1, hnd2, Bool.or_self]
      · simp only [vstep, Bool.or_eq_true]
        right
        exact List.contains_iff_mem.2 (mem_mk_of_properPrefix hq)
    · have hpa : ¬ v.A p a.t = true := fun h => hpt (hAt p h)
      have hp' : (v.F p).isSome = true := by
        simp only [vstep] at hp
        rw [if_neg (fun h => h.elim hpt hpa)] at hp
        exact hp
      obtain ⟨h1, h2⟩ := G.wf p hp'
      refine ⟨?_, fun q hq => ?_⟩
      · simp only [vstep, h1, Bool.false_or]
        cases hc : (mk a.t).contains p with
        | false => rfl
        | true =>
          have := hfree p (List.contains_iff_mem.1 hc)
          rw [this] at hp'
          cases hp'
      · simp only [vstep, h2 q hq, Bool.true_or]
  · intro w' hw' s' hs' paths hps p hp
    have := G.files w' hw' s' hs' paths hps p hp
    simp only [vstep]
    split
    · rfl
    · exact this
  · intro w' hw' s' hs' sp' paths hps hown c hc
    simp only [vstep] at hc
    split at hc
    · rename_i hcond
      have hpt : s'.ent.fullTarget = a.t := by
        rcases hcond with h | h
        · exact h
        · exact hAt _ h
      cases hc
      have hr := S.range w hw s hs
      rw [upd_length _ _ _ _ (by omega), aL]
      exact S.same _ hse _ (S.ent w' hw' s' hs') sp sp' (by rw [← at_, hpt])
    · exact G.ownLen w' hw' s' hs' sp' paths hps hown c hc

/-- a critical section of the piece `w1` leaves the reads of another piece `w2` as they were: a candidate of `w2` that
    is no export image shares no file with the written image; the own image of a segment of `w2`, when it is the
    written image, has the declared length already (so `set_len` does nothing) and is written outside that
    segment's range -/
theorem frame_vstep {table : List TEntry} {work : List Work} (S : Stat table work) {v : View} (G : Good table work v)
    {w1 w2 : Work} (hw1 : w1 ∈ work) (hw2 : w2 ∈ work) (hpc : PC w1 w2) {a : Sec} (ha : IsSecOf w1 a) :
    ReadAgree v.F (vstep v a).F w2 := by
  obtain ⟨s, hs, sp, at_, aL, ao, ad⟩ := ha
  have hse := S.ent w1 hw1 s hs
  have hAt : ∀ p, v.A p a.t = true → p = a.t := by
    intro p hp
    have := G.alias s.ent hse sp p (by rw [← at_]; exact G.inv.sym _ _ hp)
    rw [this, at_]
  intro s2 hs2 sp2 paths hps p hp
  unfold rdF
  simp only [vstep]
  split
  · rename_i hcond
    have hpt : p = a.t := by
      rcases hcond with h | h
      · exact h
      · exact hAt _ h
    rcases S.cross w2 hw2 s2 hs2 sp2 paths hps p hp with hown | hfor
    · -- the own image of `s2`
      have hsome := G.files w2 hw2 s2 hs2 paths hps p hp
      obtain ⟨c, hc⟩ := Option.isSome_iff_exists.1 hsome
      have hlen := G.ownLen w2 hw2 s2 hs2 sp2 paths hps (by rw [← hown]; exact hp) c (by rw [← hown]; exact hc)
      have hr := S.range w1 hw1 s hs
      have hsame := S.same _ hse _ (S.ent w2 hw2 s2 hs2) sp sp2 (by rw [← at_, ← hpt, hown])
      have hd := hpc s hs s2 hs2 sp sp2 (by rw [← at_, ← hpt, hown])
      rw [← hpt, hc]
      simp only [Option.getD_some]
      exact (rd_upd a.L a.off a.d c s2.off s2.len (by rw [hlen, aL, hsame]) (by omega) (by omega)).symm
    · exact absurd (hpt.trans at_) (hfor s.ent hse sp)
  · rfl

theorem vcrit_some {v v' : View} {a : Sec} (h : vcrit v a = some v') : vok v a = true ∧ v' = vstep v a := by
  rw [vcrit_eq] at h
  split at h
  · rename_i hok
    cases h
    exact ⟨hok, rfl⟩
  · cases h

theorem vrun_good {table : List TEntry} {work : List Work} (S : Stat table work) (l : List Sec) :
    ∀ (v v' : View), Good table work v → (∀ a ∈ l, ∃ w ∈ work, IsSecOf w a) → vrun v l = some v' →
      Good table work v' := by
  induction l with
  | nil => intro v v' G _ h; cases h; exact G
  | cons a l ih =>
    intro v v' G hl h
    simp only [vrun] at h
    cases h1 : vcrit v a with
    | none => rw [h1] at h; cases h
    | some v1 =>
      rw [h1] at h
      obtain ⟨hok, rfl⟩ := vcrit_some h1
      obtain ⟨w, hw, ha⟩ := hl a List.mem_cons_self
      exact ih _ _ (good_vstep S G hw ha hok) (fun b hb => hl b (List.mem_cons_of_mem _ hb)) h

/-- the critical sections of `w1` leave the reads of `w2` as they were -/
theorem vrun_frame {table : List TEntry} {work : List Work} (S : Stat table work) {w1 w2 : Work}
    (hw1 : w1 ∈ work) (hw2 : w2 ∈ work) (hpc : PC w1 w2) (l : List Sec) :
    ∀ (v v' : View), Good table work v → (∀ a ∈ l, IsSecOf w1 a) → vrun v l = some v' → ReadAgree v.F v'.F w2 := by
  induction l with
  | nil => intro v v' _ _ h; cases h; exact ReadAgree.refl _ _
  | cons a l ih =>
    intro v v' G hl h
    simp only [vrun] at h
    cases h1 : vcrit v a with
    | none => rw [h1] at h; cases h
    | some v1 =>
      rw [h1] at h
      obtain ⟨hok, rfl⟩ := vcrit_some h1
      have ha := hl a List.mem_cons_self
      exact (frame_vstep S G hw1 hw2 hpc ha).trans
        (ih _ _ (good_vstep S G hw1 ha hok) (fun b hb => hl b (List.mem_cons_of_mem _ hb)) h)

/-- sections of two pieces with disjoint ranges may be exchanged on a good view -/
theorem comp_of_good {table : List TEntry} {work : List Work} (S : Stat table work) {v : View} (G : Good table work v)
    {w1 w2 : Work} (hw1 : w1 ∈ work) (hw2 : w2 ∈ work) (hpc : PC w1 w2) {a b : Sec} (ha : IsSecOf w1 a)
    (hb : IsSecOf w2 b) : Comp v a b := by
  obtain ⟨s, hs, sp, at_, aL, ao, ad⟩ := ha
  obtain ⟨t, ht, tp, bt, bL, bo, bd⟩ := hb
  have hse := S.ent w1 hw1 s hs
  have hte := S.ent w2 hw2 t ht
  have r1 := S.range w1 hw1 s hs
  have r2 := S.range w2 hw2 t ht
  refine ⟨by omega, by omega, fun e => ?_, fun e => ⟨?_, ?_⟩⟩
  · have e' : s.ent.fullTarget = t.ent.fullTarget := by rw [← at_, ← bt]; exact e
    have := S.same _ hse _ hte sp tp e'
    have := hpc s hs t ht sp tp e'
    exact ⟨by omega, by omega⟩
  · cases h : v.A a.t b.t with
    | false => rfl
    | true =>
      have := G.alias _ hse sp b.t (by rw [← at_]; exact h)
      exact absurd (this.trans at_.symm).symm e
  · cases h : v.A b.t a.t with
    | false => rfl
    | true =>
      have := G.alias _ hte tp a.t (by rw [← bt]; exact h)
      exact absurd (this.trans bt.symm) e

/-! ### Z-d: one piece, two pieces, any permutation — on views -/

open Classical in
/-- the critical sections a piece runs and its answer, as a function of the bytes behind the names; `none` when the
    matched buffer does not reach the end of a written segment (the writer then reports an I/O error) -/
noncomputable def secsP (H : Bytes → Bytes) (F : Path → Option Bytes) (w : Work) : Option (List Sec × Solved) :=
  match pMatch H F w with
  | .panic => some ([], .panic)
  | .notFound => some ([], .notFound)
  | .hit pairs buf => if bufOk pairs buf 0 then some (secsOf pairs buf 0, .found) else none

theorem secsP_congr (H : Bytes → Bytes) {F F' : Path → Option Bytes} {w : Work} (h : ReadAgree F F' w) :
    secsP H F w = secsP H F' w := by
  unfold secsP
  rw [pMatch_congr H h]

theorem secsP_secs {H : Bytes → Bytes} {F : Path → Option Bytes} {w : Work} {l : List Sec} {r : Solved}
    (h : secsP H F w = some (l, r)) : ∀ a ∈ l, IsSecOf w a := by
  unfold secsP at h
  split at h
  · cases h; intro a ha; cases ha
  · cases h; intro a ha; cases ha
  · rename_i pairs buf hm
    split at h
    · cases h
      intro a ha
      obtain ⟨x, hx, xp, xt, xL, xo, xd⟩ := mem_secsOf _ _ _ _ ha
      exact ⟨x.1, pMatch_pairs_mem hm x hx, xp, xt, xL, xo, xd⟩
    · cases h

/-- the evaluation of one piece on the observable part of the tree; `none` = the writer reports an I/O error -/
noncomputable def vstepP (H : Bytes → Bytes) (v : View) (w : Work) : Option (View × Solved) :=
  (secsP H v.F w).bind (fun lr => (vrun v lr.1).map (fun v' => (v', lr.2)))

theorem vstepP_good {table : List TEntry} {work : List Work} (S : Stat table work) {H : Bytes → Bytes} {v v' : View}
    (G : Good table work v) {w : Work} (hw : w ∈ work) {r : Solved} (h : vstepP H v w = some (v', r)) :
    Good table work v' := by
  unfold vstepP at h
  cases h1 : secsP H v.F w with
  | none => rw [h1] at h; cases h
  | some lr =>
    rw [h1] at h
    simp only [Option.bind_some] at h
    cases h2 : vrun v lr.1 with
    | none => rw [h2] at h; cases h
    | some v1 =>
      rw [h2] at h
      cases h
      exact vrun_good S _ _ _ G (fun a ha => ⟨w, hw, secsP_secs (l := lr.1) (r := lr.2) h1 a ha⟩) h2

/-- the evaluation of `w1` leaves the reads of `w2` as they were -/
theorem vstepP_frame {table : List TEntry} {work : List Work} (S : Stat table work) {H : Bytes → Bytes} {v v' : View}
    (G : Good table work v) {w1 w2 : Work} (hw1 : w1 ∈ work) (hw2 : w2 ∈ work) (hpc : PC w1 w2) {r : Solved}
    (h : vstepP H v w1 = some (v', r)) : ReadAgree v.F v'.F w2 := by
  unfold vstepP at h
  cases h1 : secsP H v.F w1 with
  | none => rw [h1] at h; cases h
  | some lr =>
    rw [h1] at h
    simp only [Option.bind_some] at h
    cases h2 : vrun v lr.1 with
    | none => rw [h2] at h; cases h
    | some v1 =>
      rw [h2] at h
      cases h
      exact vrun_frame S hw1 hw2 hpc _ _ _ G (secsP_secs (l := lr.1) (r := lr.2) h1) h2

/-- two pieces one after the other -/
noncomputable def two (H : Bytes → Bytes) (v : View) (x y : Work) : Option (View × Solved × Solved) :=
  (vstepP H v x).bind (fun a => (vstepP H a.1 y).map (fun b => (b.1, a.2, b.2)))

theorem two_eq {table : List TEntry} {work : List Work} (S : Stat table work) (H : Bytes → Bytes) {v : View}
    (G : Good table work v) {x y : Work} (hx : x ∈ work) (hy : y ∈ work) (hpc : PC x y) :
    two H v x y = (secsP H v.F x).bind (fun a => (secsP H v.F y).bind (fun b =>
      (vrun v (a.1 ++ b.1)).map (fun v' => (v', a.2, b.2)))) := by
  unfold two vstepP
  cases h1 : secsP H v.F x with
  | none => rfl
  | some a =>
    simp only [Option.bind_some]
    cases h2 : vrun v a.1 with
    | none =>
      simp only [Option.map_none, Option.bind_none, vrun_append, h2]
      cases secsP H v.F y <;> rfl
    | some v1 =>
      have hfr := vrun_frame S hx hy hpc a.1 v v1 G (secsP_secs (l := a.1) (r := a.2) h1) h2
      simp only [Option.map_some, Option.bind_some, ← secsP_congr H hfr, vrun_append, h2]
      cases secsP H v.F y with
      | none => rfl
      | some b =>
        simp only [Option.bind_some]
        cases vrun v1 b.1 <;> rfl

/-- Z2 on views: two pieces with disjoint ranges commute, with EQUALITY of the resulting views, of the answers, and of
    whether there is a result at all -/
theorem two_comm {table : List TEntry} {work : List Work} (S : Stat table work) (H : Bytes → Bytes) {v : View}
    (G : Good table work v) {x y : Work} (hx : x ∈ work) (hy : y ∈ work) (hpc : PC x y) :
    two H v x y = (two H v y x).map (fun t => (t.1, t.2.2, t.2.1)) := by
  rw [two_eq S H G hx hy hpc, two_eq S H G hy hx hpc.symm]
  cases h1 : secsP H v.F x with
  | none => cases secsP H v.F y <;> rfl
  | some a =>
    cases h2 : secsP H v.F y with
    | none => rfl
    | some b =>
      simp only [Option.bind_some]
      have hsw := vrun_block_swap G.inv a.1 b.1 [] (fun s hs t ht =>
        comp_of_good S G hx hy hpc (secsP_secs (l := a.1) (r := a.2) h1 s hs) (secsP_secs (l := b.1) (r := b.2) h2 t ht))
      simp only [List.append_nil] at hsw
      rw [hsw]
      cases vrun v (b.1 ++ a.1) <;> rfl

/-- a list of pieces one after the other, on views: the final view and the answers; `none` as soon as one writer
    reports an I/O error -/
noncomputable def vsolveAll (H : Bytes → Bytes) : View → List Work → Option (View × List (Work × Solved))
  | v, [] => some (v, [])
  | v, w :: ws => (vstepP H v w).bind (fun a => (vsolveAll H a.1 ws).map (fun x => (x.1, (w, a.2) :: x.2)))

/-- both fail, or both give the same view and the same answers up to their order -/
def ORel (a b : Option (View × List (Work × Solved))) : Prop :=
  match a, b with
  | none, none => True
  | some x, some y => x.1 = y.1 ∧ x.2.Perm y.2
  | _, _ => False

theorem ORel.refl (a : Option (View × List (Work × Solved))) : ORel a a := by
  cases a with
  | none => trivial
  | some x => exact ⟨rfl, List.Perm.refl _⟩

theorem ORel.trans {a b c : Option (View × List (Work × Solved))} (h1 : ORel a b) (h2 : ORel b c) : ORel a c := by
  cases a <;> cases b <;> cases c <;> simp only [ORel] at h1 h2 ⊢
  exact ⟨h1.1.trans h2.1, h1.2.trans h2.2⟩

theorem ORel.map_cons {a b : Option (View × List (Work × Solved))} (h : ORel a b) (e : Work × Solved) :
    ORel (a.map (fun x => (x.1, e :: x.2))) (b.map (fun x => (x.1, e :: x.2))) := by
  cases a <;> cases b <;> simp only [ORel, Option.map_none, Option.map_some] at h ⊢
  exact ⟨h.1, h.2.cons e⟩

theorem vsolveAll_two (H : Bytes → Bytes) (v : View) (x y : Work) (l : List Work) :
    vsolveAll H v (x :: y :: l) = (two H v x y).bind (fun t =>
      (vsolveAll H t.1 l).map (fun z => (z.1, (x, t.2.1) :: (y, t.2.2) :: z.2))) := by
  simp only [vsolveAll, two]
  cases vstepP H v x with
  | none => rfl
  | some a =>
    simp only [Option.bind_some]
    cases vstepP H a.1 y with
    | none => rfl
    | some b =>
      simp only [Option.bind_some, Option.map_some]
      cases vsolveAll H b.1 l <;> rfl

/-- Z3 on views: the pieces of a list, pairwise with disjoint ranges, may be evaluated in any order -/
theorem vsolveAll_perm {table : List TEntry} {work : List Work} (S : Stat table work) (H : Bytes → Bytes)
    {ws ws' : List Work} (hp : List.Perm ws ws') :
    ∀ v, Good table work v → ws.Pairwise PC → (∀ w ∈ ws, w ∈ work) → ORel (vsolveAll H v ws) (vsolveAll H v ws') := by
  induction hp with
  | nil => intro v _ _ _; exact ORel.refl _
  | cons x _ ih =>
    intro v G hpw hmem
    simp only [vsolveAll]
    cases h1 : vstepP H v x with
    | none => trivial
    | some a =>
      simp only [Option.bind_some]
      exact (ih a.1 (vstepP_good S G (hmem x List.mem_cons_self) (r := a.2) h1) (List.pairwise_cons.1 hpw).2
        (fun w hw => hmem w (List.mem_cons_of_mem _ hw))).map_cons _
  | swap x y l =>
    intro v G hpw hmem
    rw [vsolveAll_two, vsolveAll_two]
    have hy : y ∈ work := hmem y List.mem_cons_self
    have hx : x ∈ work := hmem x (List.mem_cons_of_mem _ List.mem_cons_self)
    have hpc : PC y x := (List.pairwise_cons.1 hpw).1 x List.mem_cons_self
    rw [two_comm S H G hy hx hpc]
    cases two H v x y with
    | none => trivial
    | some t =>
      simp only [Option.map_some, Option.bind_some]
      cases vsolveAll H t.1 l with
      | none => trivial
      | some z => exact ⟨rfl, List.Perm.swap _ _ _⟩
  | trans h1 _ ih1 ih2 =>
    intro v G hpw hmem
    exact (ih1 v G hpw hmem).trans
      (ih2 v G (h1.pairwise hpw (fun h => h.symm)) (fun w hw => hmem w (h1.symm.subset hw)))

/-! ### Z-e: back to states -/

theorem writeSegs_found_or_fault (st : St) (pairs : List (WSeg × Option Path)) (buf : Bytes) (start : Nat) :
    (writeSegs st pairs buf start).2 = .found ∨ (writeSegs st pairs buf start).2 = .fault := by
  induction pairs generalizing st start with
  | nil => simp [writeSegs]
  | cons x rest ih =>
    obtain ⟨seg, src⟩ := x
    unfold writeSegs
    simp only
    split
    · exact ih _ _
    split
    · exact ih _ _
    split
    · simp
    split
    · simp
    split
    · split
      · simp
      split
      · simp
      split
      · simp
      split
      · simp
      · exact ih _ _
    · simp

/-- candidates of `w` are regular files in `fs` -/
def FilesOk (fs : Fs) (w : Work) : Prop :=
  ∀ s ∈ w.segs, ∀ paths, s.ent.searches = some paths → ∀ p ∈ paths, ∃ i, fs.look p = .file i

/-- THE BRIDGE. Without fault points, on a well-formed tree where the candidates of `w` are regular files: the
    evaluation of `w` leaves no fault points and a well-formed tree; if its answer is not `fault`, it is the step
    `vstepP` on the observable part of the tree; and if `vstepP` has a result, the answer is not `fault`. -/
theorem solvePiece_view (H : Bytes → Bytes) (st : St) (w : Work) (hf : st.faults = []) (hwf : FsWF st.fs)
    (hfiles : FilesOk st.fs w) :
    (solvePiece H st w).1.faults = [] ∧ FsWF (solvePiece H st w).1.fs ∧
    ((solvePiece H st w).2 ≠ .fault →
      vstepP H (view st.fs) w = some (view (solvePiece H st w).1.fs, (solvePiece H st w).2)) ∧
    (vstepP H (view st.fs) w ≠ none → (solvePiece H st w).2 ≠ .fault) := by
  refine ⟨(RD.solvePiece_reach H st w).faults.trans hf, C04a_wf_preserved H st w hwf, ?_⟩
  obtain ⟨st1, e1, f1, hs⟩ := solvePiece_pure H st w hf hfiles
  rw [hs]
  unfold vstepP secsP
  cases hm : pMatch H (view st.fs).F w with
  | panic =>
    simp only [afterMatch, Option.bind_some, vrun, Option.map_some, e1]
    exact ⟨fun _ => trivial, fun _ h => by cases h⟩
  | notFound =>
    simp only [afterMatch, Option.bind_some, vrun, Option.map_some, e1]
    exact ⟨fun _ => trivial, fun _ h => by cases h⟩
  | hit pairs buf =>
    simp only [afterMatch]
    have hwf1 : FsWF st1.fs := by rw [e1]; exact hwf
    constructor
    · intro hne
      have hfound : (writeSegs st1 pairs buf 0).2 = .found := by
        rcases writeSegs_found_or_fault st1 pairs buf 0 with h | h
        · exact h
        · exact absurd h hne
      obtain ⟨c, _, hb⟩ := writeSegs_crits pairs st1 _ buf 0 f1 (Prod.ext rfl hfound)
      have hv := (crits_view hwf1 (secsOf pairs buf 0)).1
      rw [c, e1] at hv
      rw [if_pos hb]
      simp only [Option.bind_some, ← hv, Option.map_some, hfound]
    · intro hsome
      by_cases hb : bufOk pairs buf 0
      · rw [if_pos hb] at hsome
        simp only [Option.bind_some] at hsome
        have hv := (crits_view hwf1 (secsOf pairs buf 0)).1
        rw [e1] at hv
        cases hc : st1.fs.crits (secsOf pairs buf 0) with
        | none =>
          rw [e1] at hc
          rw [hc] at hv
          rw [← hv] at hsome
          exact absurd rfl hsome
        | some fs' =>
          rw [writeSegs_found_of_crits pairs st1 fs' buf 0 f1 hc hb]
          intro h; cases h
      · rw [if_neg hb] at hsome
        exact absurd rfl hsome

/-- a segment's own export image, when it is among the segment's candidates, has the declared length in `fs` -/
def OwnLen (fs : Fs) (w : Work) : Prop :=
  ∀ s ∈ w.segs, s.ent.isPad = false → ∀ paths, s.ent.searches = some paths → s.ent.fullTarget ∈ paths →
    ∀ i, fs.inoOf s.ent.fullTarget = some i → (fs.content i).length = s.ent.fileLength

theorem good_of_fs {table : List TEntry} {work : List Work} {fs : Fs} (hwf : FsWF fs) (hna : NoAlias fs table)
    (hfiles : ∀ w ∈ work, FilesOk fs w) (hown : ∀ w ∈ work, OwnLen fs w) : Good table work (view fs) := by
  refine ⟨vinv_view fs, ?_, ?_, ?_, ?_⟩
  · intro e he hp q hq
    have hq' : ((fs.inoOf e.fullTarget).isSome && fs.inoOf e.fullTarget == fs.inoOf q) = true := hq
    simp only [Bool.and_eq_true, beq_iff_eq] at hq'
    obtain ⟨i, hi⟩ := Option.isSome_iff_exists.1 hq'.1
    exact hna e he hp q i hi (by rw [← hq'.2, hi])
  · intro p hp
    have hp' : ((fs.inoOf p).map fs.content).isSome = true := hp
    rw [Option.isSome_map] at hp'
    obtain ⟨i, hi⟩ := Option.isSome_iff_exists.1 hp'
    have hm := RunF.inoOf_mem hi
    exact ⟨hwf.2.2.1 p i hm, hwf.2.2.2 p i hm⟩
  · intro w hw s hs paths hps p hp
    obtain ⟨i, hi⟩ := hfiles w hw s hs paths hps p hp
    rw [F_of_look hi]
    rfl
  · intro w hw s hs sp paths hps hmem c hc
    have hc' : (fs.inoOf s.ent.fullTarget).map fs.content = some c := hc
    rw [Option.map_eq_some_iff] at hc'
    obtain ⟨i, hi, rfl⟩ := hc'
    exact hown w hw s hs sp paths hps hmem i hi

theorem filesOk_of_good {table : List TEntry} {work : List Work} {fs : Fs} (G : Good table work (view fs))
    {w : Work} (hw : w ∈ work) : FilesOk fs w := by
  intro s hs paths hps p hp
  have hsome := G.files w hw s hs paths hps p hp
  have hp' : ((fs.inoOf p).map fs.content).isSome = true := hsome
  rw [Option.isSome_map] at hp'
  obtain ⟨i, hi⟩ := Option.isSome_iff_exists.1 hp'
  obtain ⟨hd, hpre⟩ := G.wf p hsome
  refine ⟨i, RunF.look_file_of ?_ hd hi⟩
  rw [List.any_eq_false]
  intro q hq hqs
  have hqd : (view fs).D q = true := hpre q hq
  have hqF : ((view fs).F q).isSome = true := by
    show ((fs.inoOf q).map fs.content).isSome = true
    rw [Option.isSome_map]; exact hqs
  rw [(G.wf q hqF).1] at hqd
  cases hqd

/-- evaluate the pieces one after the other, recording every answer (no stop at a panic) -/
def evalAll (H : Bytes → Bytes) : St → List Work → St × List (Work × Solved)
  | st, [] => (st, [])
  | st, w :: ws =>
    ((evalAll H (solvePiece H st w).1 ws).1, (w, (solvePiece H st w).2) :: (evalAll H (solvePiece H st w).1 ws).2)

/-- the bridge for lists -/
theorem evalAll_view {table : List TEntry} {work : List Work} (S : Stat table work) (H : Bytes → Bytes)
    (ws : List Work) : ∀ (st : St), st.faults = [] → FsWF st.fs → Good table work (view st.fs) →
      (∀ w ∈ ws, w ∈ work) →
      (vsolveAll H (view st.fs) ws ≠ none → ∀ x ∈ (evalAll H st ws).2, x.2 ≠ .fault) ∧
      ((∀ x ∈ (evalAll H st ws).2, x.2 ≠ .fault) →
        vsolveAll H (view st.fs) ws = some (view (evalAll H st ws).1.fs, (evalAll H st ws).2)) := by
  induction ws with
  | nil => intro st _ _ _ _; exact ⟨fun _ x hx => (by cases hx), fun _ => rfl⟩
  | cons w ws ih =>
    intro st hf hwf G hmem
    have hw := hmem w List.mem_cons_self
    obtain ⟨f1, wf1, ha, hb⟩ := solvePiece_view H st w hf hwf (filesOk_of_good G hw)
    have step : (solvePiece H st w).2 ≠ .fault →
        Good table work (view (solvePiece H st w).1.fs) := fun hne => vstepP_good S G hw (ha hne)
    constructor
    · intro hsome x hx
      simp only [vsolveAll] at hsome
      have h1 : vstepP H (view st.fs) w ≠ none := by
        intro h; rw [h] at hsome; exact hsome rfl
      have hne := hb h1
      rw [ha hne] at hsome
      simp only [Option.bind_some] at hsome
      have h2 : vsolveAll H (view (solvePiece H st w).1.fs) ws ≠ none := by
        intro h; rw [h] at hsome; exact hsome rfl
      simp only [evalAll] at hx
      rcases List.mem_cons.1 hx with rfl | hx
      · exact hne
      · exact (ih _ f1 wf1 (step hne) (fun v hv => hmem v (List.mem_cons_of_mem _ hv))).1 h2 x hx
    · intro hall
      simp only [evalAll] at hall
      have hne := hall _ List.mem_cons_self
      have h2 := (ih _ f1 wf1 (step hne) (fun v hv => hmem v (List.mem_cons_of_mem _ hv))).2
        (fun x hx => hall x (List.mem_cons_of_mem _ hx))
      simp only [vsolveAll, evalAll, ha hne, Option.bind_some, h2, Option.map_some]

/-- ANY ORDER, on states: if evaluating `ws` from `st` meets no I/O error, evaluating any permutation `ws'` meets
    none, gives the same answers up to their order, and an observationally equivalent tree -/
theorem evalAll_perm {table : List TEntry} {work : List Work} (S : Stat table work) (H : Bytes → Bytes) (st : St)
    (hf : st.faults = []) (hwf : FsWF st.fs) (G : Good table work (view st.fs)) {ws ws' : List Work}
    (hp : List.Perm ws ws') (hpw : ws.Pairwise PC) (hmem : ∀ w ∈ ws, w ∈ work)
    (hok : ∀ x ∈ (evalAll H st ws).2, x.2 ≠ .fault) :
    (∀ x ∈ (evalAll H st ws').2, x.2 ≠ .fault) ∧ (evalAll H st ws).2.Perm (evalAll H st ws').2 ∧
    ObsEq (evalAll H st ws).1.fs (evalAll H st ws').1.fs := by
  have hmem' : ∀ w ∈ ws', w ∈ work := fun w hw => hmem w (hp.symm.subset hw)
  have h1 := (evalAll_view S H ws st hf hwf G hmem).2 hok
  have hrel := vsolveAll_perm S H hp (view st.fs) G hpw hmem
  rw [h1] at hrel
  cases h2 : vsolveAll H (view st.fs) ws' with
  | none => rw [h2] at hrel; exact hrel.elim
  | some y =>
    have hok' := (evalAll_view S H ws' st hf hwf G hmem').1 (by rw [h2]; intro h; cases h)
    have h3 := (evalAll_view S H ws' st hf hwf G hmem').2 hok'
    rw [h3] at hrel
    exact ⟨hok', hrel.2, (obsEq_iff_view _ _).2 hrel.1⟩

/-- TWO PIECES, on states -/
theorem two_pieces {table : List TEntry} {work : List Work} (S : Stat table work) (H : Bytes → Bytes) (st : St)
    (hf : st.faults = []) (hwf : FsWF st.fs) (G : Good table work (view st.fs)) {w1 w2 : Work}
    (hw1 : w1 ∈ work) (hw2 : w2 ∈ work) (hpc : PC w1 w2)
    (h1 : (solvePiece H st w1).2 ≠ .fault) (h12 : (solvePiece H (solvePiece H st w1).1 w2).2 ≠ .fault) :
    (solvePiece H st w2).2 = (solvePiece H (solvePiece H st w1).1 w2).2 ∧
    (solvePiece H (solvePiece H st w2).1 w1).2 = (solvePiece H st w1).2 ∧
    ObsEq (solvePiece H (solvePiece H st w1).1 w2).1.fs (solvePiece H (solvePiece H st w2).1 w1).1.fs := by
  obtain ⟨f1, wf1, a1, _⟩ := solvePiece_view H st w1 hf hwf (filesOk_of_good G hw1)
  have G1 := vstepP_good S G hw1 (a1 h1)
  obtain ⟨_, _, a12, _⟩ := solvePiece_view H _ w2 f1 wf1 (filesOk_of_good G1 hw2)
  obtain ⟨f2, wf2, a2, b2⟩ := solvePiece_view H st w2 hf hwf (filesOk_of_good G hw2)
  have ht : two H (view st.fs) w1 w2
      = some (view (solvePiece H (solvePiece H st w1).1 w2).1.fs, (solvePiece H st w1).2,
          (solvePiece H (solvePiece H st w1).1 w2).2) := by
    unfold two
    rw [a1 h1]
    simp only [Option.bind_some, a12 h12, Option.map_some]
  have hc := two_comm S H G hw2 hw1 hpc.symm
  rw [ht] at hc
  simp only [Option.map_some] at hc
  unfold two at hc
  have n2 : vstepP H (view st.fs) w2 ≠ none := by
    intro h; rw [h] at hc; cases hc
  have h2 := b2 n2
  have G2 := vstepP_good S G hw2 (a2 h2)
  obtain ⟨_, _, a21, b21⟩ := solvePiece_view H _ w1 f2 wf2 (filesOk_of_good G2 hw1)
  rw [a2 h2] at hc
  simp only [Option.bind_some] at hc
  have n21 : vstepP H (view (solvePiece H st w2).1.fs) w1 ≠ none := by
    intro h; rw [h] at hc; cases hc
  rw [a21 (b21 n21)] at hc
  simp only [Option.map_some, Option.some.injEq, Prod.mk.injEq] at hc
  exact ⟨hc.2.1, hc.2.2, (obsEq_iff_view _ _).2 hc.1.symm⟩

/-! ### `solveAll` and `evalAll`, the counters -/

/-- the running counters -/
def countersOf (c : Counters) : List Solved → List Counters
  | [] => []
  | r :: rs => c.bump r :: countersOf (c.bump r) rs

theorem solveAll_eq_evalAll (H : Bytes → Bytes) (ws : List Work) : ∀ (st : St) (c : Counters) (acc : List Counters),
    (∀ x ∈ (evalAll H st ws).2, x.2 ≠ .panic) →
    solveAll H st ws c acc = ((evalAll H st ws).1, acc ++ countersOf c ((evalAll H st ws).2.map (·.2)), false) := by
  induction ws with
  | nil => intro st c acc _; simp [solveAll, evalAll, countersOf]
  | cons w ws ih =>
    intro st c acc h
    simp only [evalAll] at h
    rw [RB.solveAll_cons, if_neg (h _ List.mem_cons_self), ih _ _ _ (fun x hx => h x (List.mem_cons_of_mem _ hx))]
    simp [evalAll, countersOf]

theorem bump_comm (c : Counters) (a b : Solved) : (c.bump a).bump b = (c.bump b).bump a := by
  cases a <;> cases b <;> rfl

theorem countersOf_getLast? (l : List Solved) : ∀ c, (countersOf c l).getLast? =
    if l.isEmpty then none else some (l.foldl Counters.bump c) := by
  induction l with
  | nil => intro c; rfl
  | cons r rs ih =>
    intro c
    cases rs with
    | nil => rfl
    | cons r2 rs2 =>
      have := ih (c.bump r)
      simp only [countersOf, List.isEmpty_cons, Bool.false_eq_true, if_false, List.foldl_cons] at this ⊢
      rw [List.getLast?_cons_cons]
      exact this

theorem foldl_bump_perm {l l' : List Solved} (h : l.Perm l') (c : Counters) :
    l.foldl Counters.bump c = l'.foldl Counters.bump c := by
  induction h generalizing c with
  | nil => rfl
  | cons x _ ih => exact ih _
  | swap x y l => simp only [List.foldl_cons]; rw [bump_comm]
  | trans _ _ ih1 ih2 => exact (ih1 c).trans (ih2 c)

/-- if `solveAll` does not report a panic, no piece panicked -/
theorem solveAll_flag (H : Bytes → Bytes) (ws : List Work) : ∀ (st : St) (c : Counters) (acc : List Counters),
    (solveAll H st ws c acc).2.2 = false → ∀ x ∈ (evalAll H st ws).2, x.2 ≠ .panic := by
  induction ws with
  | nil => intro st c acc _ x hx; cases hx
  | cons w ws ih =>
    intro st c acc h x hx
    rw [RB.solveAll_cons] at h
    split at h
    · cases h
    · rename_i hp
      simp only [evalAll] at hx
      rcases List.mem_cons.1 hx with rfl | hx
      · exact hp
      · exact ih _ _ _ h x hx

/-- if no running counter counts an I/O error, no answer was `fault` -/
theorem countersOf_fault (l : List Solved) : ∀ c, (∀ k ∈ countersOf c l, k.fault = 0) → ∀ r ∈ l, r ≠ .fault := by
  induction l with
  | nil => intro c _ r hr; cases hr
  | cons a l ih =>
    intro c h r hr
    simp only [countersOf] at h
    rcases List.mem_cons.1 hr with rfl | hr
    · intro e
      have := h _ List.mem_cons_self
      rw [e] at this
      simp [Counters.bump] at this
    · exact ih _ (fun k hk => h k (List.mem_cons_of_mem _ hk)) r hr

/-! ### a run does not depend on the observed order before the pieces are evaluated -/

/-- the table and the work list of a run do not depend on the observed evaluation order; with an empty work list
    neither do the tree, the counters and the result -/
theorem run_order (H : Bytes → Bytes) (inp : RunIn) (o : List (List (Nat × Nat × Nat) × Bytes)) :
    (run H { inp with order := o }).table = (run H inp).table ∧
    (run H { inp with order := o }).work = (run H inp).work ∧
    ((run H inp).work = [] →
      (run H { inp with order := o }).fs = (run H inp).fs ∧
      (run H { inp with order := o }).counters = (run H inp).counters ∧
      (run H { inp with order := o }).result = (run H inp).result) := by
  by_cases hne : inp.torrents = []
  · unfold run
    simp [hne]
  have hemp : inp.torrents.isEmpty = false := by cases ht : inp.torrents <;> simp_all
  rcases hv : validateAll ⟨inp.fs, [], inp.faults⟩ (inp.scan ++ [inp.exportDir]) with ⟨st1, ok⟩
  cases ok
  · unfold run
    simp only [hemp, Bool.false_eq_true, if_false, hv, and_self, implies_true]
  rcases hfl : (if inp.resize then
      fixExportFileLengths st1 (buildTable inp.exportDir.path (dedupTorrents (sortTorrents inp.torrents)) 0)
      else (st1, Flow.continue)) with ⟨st2, flow⟩
  cases flow
  rotate_left
  · unfold run
    simp only [hemp, Bool.false_eq_true, if_false, hv, hfl, and_self, implies_true]
  rcases hadd : addExportPaths st2 [] (buildTable inp.exportDir.path (dedupTorrents (sortTorrents inp.torrents)) 0)
    with ⟨st3, cache0⟩
  rcases hpop : populateSearches
      (inp.scan.foldl (fun c d => addByDirectory st3.fs c d.path
        (uniqueLengths (buildTable inp.exportDir.path (dedupTorrents (sortTorrents inp.torrents)) 0))) cache0)
      inp.searchObs (buildTable inp.exportDir.path (dedupTorrents (sortTorrents inp.torrents)) 0) with ⟨table, okS⟩
  cases hwk : convertPiecesToWork table (dedupTorrents (sortTorrents inp.torrents)) with
  | none =>
    unfold run
    simp only [hemp, Bool.false_eq_true, if_false, hv, hfl, hadd, hpop, hwk, and_self, implies_true]
  | some work =>
    unfold run
    simp only [hemp, Bool.false_eq_true, if_false, hv, hfl, hadd, hpop, hwk]
    refine ⟨trivial, trivial, ?_⟩
    intro hw
    subst hw
    cases o <;> cases inp.order <;> simp [reorder, defaultOrder, solveAll]

/-! ### the index registers a name under its actual length -/

/-- every name in the cache is registered under the length of its file -/
def CL (fs : Fs) (c : Cache) : Prop := ∀ len m, (len, m) ∈ c → ∀ x ∈ m, (fs.content x.2).length = len

theorem cacheGet_mem_key {c : Cache} {len : Nat} {m : List (Path × Nat)} (h : cacheGet c len = some m) :
    (len, m) ∈ c := by
  unfold cacheGet at h
  rw [Option.map_eq_some_iff] at h
  obtain ⟨e, he, rfl⟩ := h
  have hk : e.1 = len := by simpa using List.find?_some he
  rw [← hk]
  exact List.mem_of_find?_eq_some he

theorem CL.nil (fs : Fs) : CL fs [] := by
  intro len m h; cases h

theorem CL.insert {fs : Fs} {c : Cache} (h : CL fs c) (len : Nat) (p : Path) {i : Nat}
    (hp : (fs.content i).length = len) : CL fs (cacheInsert c len p i) := by
  unfold cacheInsert
  cases hg : cacheGet c len with
  | none =>
    simp only
    intro l m hm x hx
    rcases List.mem_cons.1 hm with hm | hm
    · obtain ⟨rfl, rfl⟩ := Prod.mk.inj hm
      rw [List.mem_singleton] at hx
      subst hx
      exact hp
    · exact h l m hm x hx
  | some m0 =>
    simp only
    intro l m hm x hx
    rcases List.mem_cons.1 hm with hm | hm
    · obtain ⟨rfl, rfl⟩ := Prod.mk.inj hm
      rcases List.mem_cons.1 hx with rfl | hx
      · exact hp
      · exact h _ _ (cacheGet_mem_key hg) x (List.mem_filter.1 hx).1
    · exact h l m (List.mem_filter.1 hm).1 x hx

theorem addExportPaths_cl (fs : Fs) (st : St) (c : Cache) (table : List TEntry)
    (hfs : st.fs = fs) (hc : CL fs c) : CL fs (addExportPaths st c table).2 := by
  induction table generalizing st c with
  | nil => exact hc
  | cons e es ih =>
    rw [RunG.addExportPaths_cons]
    have hfs1 : (st.openr e.fullTarget).1.fs = fs := (RunI.openr_roext st e.fullTarget).fs.trans hfs
    split
    · exact ih st c hfs hc
    · split
      · exact ih _ c hfs1 hc
      · split
        · rename_i i hi
          split
          · rename_i hlen
            exact ih _ _ hfs1 (hc.insert e.fileLength e.fullTarget (by rw [← hfs1]; simpa using hlen))
          · exact ih _ c hfs1 hc
        · exact ih _ c hfs1 hc

theorem addByDirectory_cl {fs : Fs} {c : Cache} (hc : CL fs c) (dir : Path) (lengths : List Nat) :
    CL fs (addByDirectory fs c dir lengths) := by
  unfold addByDirectory
  have key : ∀ (l : List (Path × Nat)) c, CL fs c →
      CL fs (l.foldl (fun c e =>
        let len := (fs.content e.2).length
        if dir.length ≤ e.1.length && e.1.take dir.length == dir && e.1 != dir && lengths.contains len
        then cacheInsert c len e.1 e.2 else c) c) := by
    intro l
    induction l with
    | nil => intro c hc; exact hc
    | cons a l ih =>
      intro c hc
      rw [List.foldl_cons]
      apply ih
      simp only
      split
      · exact hc.insert _ _ rfl
      · exact hc
  exact key fs.files c hc

theorem scan_cl {fs : Fs} (lengths : List Nat) (scan : List PathArg) {c : Cache} (hc : CL fs c) :
    CL fs (scan.foldl (fun c d => addByDirectory fs c d.path lengths) c) := by
  induction scan generalizing c with
  | nil => exact hc
  | cons d ds ih => exact ih (addByDirectory_cl hc d.path lengths)

/-- the cache of a run registers every name under the length its file has in the tree of `runSt3 inp` -/
theorem cacheOf_cl (inp : RunIn) : CL (RB.runSt3 inp).fs (RunQ.cacheOf inp) := by
  have h32 : (RB.runSt3 inp).fs = (RB.runSt2 inp).fs := RunG.addExportPaths_fs _ _ _
  have c0 := addExportPaths_cl (RB.runSt3 inp).fs (RB.runSt2 inp) [] (RB.runTable0 inp) h32.symm (CL.nil _)
  exact scan_cl _ _ c0

/-- the candidates `populateSearches` gives an entry are names registered under the entry's declared length -/
theorem populate_len (c : Cache) (obs : List (Nat × List Path)) (es : List TEntry) :
    ∀ e' ∈ (populateSearches c obs es).1, ∀ paths, e'.searches = some paths →
      (∃ e ∈ es, e.searches = some paths) ∨
      (∃ m, cacheGet c e'.fileLength = some m ∧ ∀ p ∈ paths, ∃ i, (p, i) ∈ m) := by
  induction es with
  | nil => intro e' he'; simp [populateSearches] at he'
  | cons e es ih =>
    unfold populateSearches
    rcases hrest : populateSearches c obs es with ⟨rest, okRest⟩
    rw [hrest] at ih
    simp only at ih
    simp only []
    have tl : ∀ (h : TEntry), (∀ paths, h.searches = some paths →
          (∃ e0 ∈ e :: es, e0.searches = some paths) ∨
          (∃ m, cacheGet c h.fileLength = some m ∧ ∀ p ∈ paths, ∃ i, (p, i) ∈ m)) →
        ∀ e' ∈ h :: rest, ∀ paths, e'.searches = some paths →
          (∃ e0 ∈ e :: es, e0.searches = some paths) ∨
          (∃ m, cacheGet c e'.fileLength = some m ∧ ∀ p ∈ paths, ∃ i, (p, i) ∈ m) := by
      intro h hh e' he'
      rcases List.mem_cons.1 he' with rfl | he'
      · exact hh
      · intro paths hp
        rcases ih e' he' paths hp with ⟨e0, he0, h0⟩ | r
        · exact Or.inl ⟨e0, List.mem_cons_of_mem _ he0, h0⟩
        · exact Or.inr r
    have self : ∀ paths, e.searches = some paths →
          (∃ e0 ∈ e :: es, e0.searches = some paths) ∨
          (∃ m, cacheGet c e.fileLength = some m ∧ ∀ p ∈ paths, ∃ i, (p, i) ∈ m) :=
      fun paths hp => Or.inl ⟨e, List.mem_cons_self, hp⟩
    split
    · exact tl e self
    split
    · exact tl e self
    · rename_i m0 hm0
      split
      · rename_i o ho
        split
        · rename_i hv
          exact tl _ (fun paths hp => by
            simp only [Option.some.injEq] at hp
            subst hp
            exact Or.inr ⟨m0, hm0, RunI.validSearches_sub hv⟩)
        · exact tl _ (fun paths hp => by
            simp only [Option.some.injEq] at hp
            subst hp
            exact Or.inr ⟨m0, hm0, RunI.canonicalSearches_sub e m0⟩)
      · exact tl _ (fun paths hp => by
            simp only [Option.some.injEq] at hp
            subst hp
            exact Or.inr ⟨m0, hm0, RunI.canonicalSearches_sub e m0⟩)

/-- in the state in which a run on a well-formed tree starts to evaluate pieces, every candidate of every table entry
    is a regular file that has the entry's declared length -/
theorem candidates_length (H : Bytes → Bytes) (inp : RunIn) (F : RunQ.Facts H inp) (hwf : FsWF inp.fs) :
    ∀ e ∈ (run H inp).table, ∀ paths, e.searches = some paths → ∀ p ∈ paths,
      ∃ i, (RB.runSt3 inp).fs.look p = .file i ∧ ((RB.runSt3 inp).fs.content i).length = e.fileLength := by
  have hwf3 : FsWF (RB.runSt3 inp).fs := F.loc.wf hwf
  have hcf := RunQ.cacheOf_cf inp hwf3
  have hcl := cacheOf_cl inp
  intro e he paths hps p hp
  rw [F.tab] at he
  rcases populate_len _ _ _ e he paths hps with ⟨e0, he0, h0⟩ | ⟨m, hm, hall⟩
  · rw [RunI.buildTable_searches _ _ _ e0 he0] at h0
    cases h0
  · obtain ⟨i, hi⟩ := hall p hp
    exact ⟨i, hcf.get hm _ hi, hcl _ _ (cacheGet_mem_key hm) _ hi⟩

end TB.RunZ
