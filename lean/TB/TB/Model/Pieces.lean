/-
  TB.Model.Pieces — model of src/torrent/pieces.rs (Pieces::from_torrent).

  The Rust cursor loop of `construct_pieces_multiple_file` is mirrored statement by statement:
  `fill` is the inner `while piece_counted_length < piece_length`, `multiLoop` the outer
  `for hash in &torrent.info.pieces`. `none` = the Rust code would panic here
  (`files[file_index]` out of bounds, `files.first().unwrap()` on an empty list, or an unsigned
  subtraction underflow); the fuel of `fill` is `files.length + 2`, which `fill_fuel_enough`
  (TB.Lemmas.Pieces) shows is never exhausted.
-/
import TB.Model.Basic
namespace TB

/-- `PieceFile`: one (file, offset, length) range of a piece. -/
structure Seg where
  file : Nat      -- file_index
  off  : Nat      -- read_start_position
  len  : Nat      -- read_length
  flen : Nat      -- file_length
deriving Repr, DecidableEq, Inhabited

/-- `Piece`. -/
structure Piece where
  pos  : Nat
  segs : List Seg
  hash : Bytes
  len  : Nat
deriving Repr, DecidableEq, Inhabited

/-- inner loop: arguments are fuel, piece_counted_length, file_index, file_remaining_length and
    the `piece_files` pushed so far. Returns the segments and the new cursor. -/
def fill (L : Nat) (files : List Nat) : Nat → Nat → Nat → Nat → List Seg → Option (List Seg × Nat × Nat)
  | 0, _, _, _, _ => none
  | fuel+1, counted, fi, rem, acc =>
    if counted < L then
      match files[fi]? with
      | none => none                                     -- files[file_index] panics
      | some cl =>
        if cl < rem then none else                       -- current.length - file_remaining_length underflows
        let remainder := L - counted
        let curRem := if rem ≥ remainder then rem - remainder else 0
        let counted' := if rem ≥ remainder then L else counted + rem
        let acc' := acc ++ [⟨fi, cl - rem, rem - curRem, cl⟩]
        if curRem = 0 then
          if fi + 1 = files.length then some (acc', fi + 1, 0)      -- break
          else match files[fi+1]? with
            | some l' => fill L files fuel counted' (fi+1) l' acc'
            | none => none
        else fill L files fuel counted' fi curRem acc'
    else some (acc, fi, rem)

/-- outer loop over the hashes; `pos` is `pieces.len()` at the time of the push. -/
def multiLoop (L : Nat) (files : List Nat) : List Bytes → Nat → Nat → Nat → Option (List Piece)
  | [], _, _, _ => some []
  | h :: hs, pos, fi, rem =>
    match fill L files (files.length + 2) 0 fi rem [] with
    | none => none
    | some (segs, fi', rem') =>
      match multiLoop L files hs (pos+1) fi' rem' with
      | none => none
      | some ps => some (⟨pos, segs, h, (segs.map (·.len)).sum⟩ :: ps)

/-- `construct_pieces_multiple_file` for file lengths `files`. -/
def constructMulti (L : Nat) (files : List Nat) (hashes : List Bytes) : Option (List Piece) :=
  match files with
  | [] => none                                           -- files.first().unwrap()
  | f0 :: _ => multiLoop L files hashes 0 0 f0

/-- loop of `construct_pieces_single_file`; state: position, read_start_position, file_remaining_length. -/
def singleLoop (L total : Nat) : List Bytes → Nat → Nat → Nat → List Piece
  | [], _, _, _ => []
  | h :: hs, pos, start, rem =>
    let rl := if rem < L then rem else L
    ⟨pos, [⟨0, start, rl, total⟩], h, rl⟩ :: singleLoop L total hs (pos+1) (start + rl) (rem - rl)

def constructSingle (L total : Nat) (hashes : List Bytes) : List Piece :=
  singleLoop L total hashes 0 0 total

/-- `Pieces::from_torrent`: `length` is `info.length`, `files` the lengths of `info.files`. -/
def constructPieces (L : Nat) (length : Option Nat) (files : Option (List Nat)) (hashes : List Bytes) :
    Option (List Piece) :=
  match length with
  | some total => some (constructSingle L total hashes)
  | none =>
    match files with
    | some fs => constructMulti L fs hashes
    | none => none                                       -- files.as_ref().unwrap()

end TB
