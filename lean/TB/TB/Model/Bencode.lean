/-
  TB.Model.Bencode — model of src/bencode/parser.rs (Parser::decode) and src/bencode/types.rs.

  Each state of the hand-written state machines of parser.rs is one function (or one branch) here:
    decode_integer : StartCharacter → `decodeInt`, FirstDigit → `intFirst`, NonZeroDigit → `intNonZero`,
                     StopCharacter → `intStop`, Digit/NegativeDigit → `intDigits false/true`
    decode_string  : FirstDigit → `decodeStr`, Seperator → `strSep`, DigitOrSeperator → `strDigits`,
                     Character → `strChars`
    decode_list    : Start → branch of `decodeAny`, Entry → `decodeListLoop`
    decode_dictionary : Start → branch of `decodeAny`, KeyEntry → `decodeDictLoop`, ValueEntry → inside it
  The input is threaded as the remaining suffix together with its absolute position, so that the
  recorded spans are the Rust `start_position` / `continuation_position`.
  Checked arithmetic (`checked_mul/checked_add/checked_sub`) is an explicit range test returning `.err`;
  there is no unchecked arithmetic left that could overflow (see `strChars`).
  Recursion through containers is fuelled; `decode` supplies `2 * inp.length + 2`, shown sufficient in
  TB.Lemmas.Bencode (`decodeAny_fuel_mono` and the completeness proof).
-/
import TB.Model.Basic
namespace TB

/-- `BencodeString` -/
structure StrTok where
  val : Bytes
  s : Nat          -- start_position
  c : Nat          -- continuation_position
deriving Repr, DecidableEq, Inhabited

/-- `BencodeToken` (with the span fields of each variant) -/
inductive Tok where
  | str (t : StrTok)
  | int (v : Int) (s c : Nat)
  | list (items : List Tok) (s c : Nat)
  | dict (keys : List StrTok) (vals : List Tok) (s c : Nat)
deriving Repr, Inhabited

/-- `Parser::get_continuation_position` -/
def Tok.cont : Tok → Nat
  | .str t => t.c | .int _ _ c => c | .list _ _ c => c | .dict _ _ _ c => c
def Tok.start : Tok → Nat
  | .str t => t.s | .int _ s _ => s | .list _ s _ => s | .dict _ _ s _ => s

@[inline] def isDigit (b : UInt8) : Bool := 48 ≤ b && b ≤ 57        -- b'0'..=b'9'
@[inline] def isNonZeroDigit (b : UInt8) : Bool := 49 ≤ b && b ≤ 57  -- b'1'..=b'9'
@[inline] def digitVal (b : UInt8) : Nat := b.toNat - 48
/-- first bytes that `decode_any` dispatches on: b'0'..=b'9' | b'i' | b'l' | b'd' -/
@[inline] def isValueStart (b : UInt8) : Bool := isDigit b || b == 105 || b == 108 || b == 100

def inI128 (v : Int) : Bool := decide (i128Min ≤ v) && decide (v ≤ i128Max)

/-- `Vec<u8>::cmp(..) == Less` -/
def bytesLt : Bytes → Bytes → Bool
  | [], [] => false
  | [], _ :: _ => true
  | _ :: _, [] => false
  | a :: as, b :: bs => if a < b then true else if a = b then bytesLt as bs else false

/-! ### decode_integer -/

/-- states Digit (`neg = false`) and NegativeDigit (`neg = true`); `pos` is the position of the head of the input -/
def intDigits (neg : Bool) : Bytes → Int → Nat → Res (Int × Nat × Bytes)
  | [], _, _ => .err                                         -- unexpected EOF
  | b :: rest, acc, pos =>
    if isDigit b then
      let m := acc * 10
      if !inI128 m then .err else                             -- checked_mul
      let a := if neg then m - (digitVal b : Int) else m + (digitVal b : Int)
      if !inI128 a then .err else                             -- checked_add / checked_sub
      intDigits neg rest a (pos + 1)
    else if b == 101 then .ok (acc, pos + 1, rest)            -- b'e'
    else .err

/-- state StopCharacter -/
def intStop (v : Int) : Bytes → Nat → Res (Int × Nat × Bytes)
  | b :: rest, pos => if b == 101 then .ok (v, pos + 1, rest) else .err
  | [], _ => .err

/-- state NonZeroDigit (after `-`) -/
def intNonZero : Bytes → Nat → Res (Int × Nat × Bytes)
  | b :: rest, pos =>
    if isNonZeroDigit b then intDigits true rest (-(digitVal b : Int)) (pos + 1) else .err
  | [], _ => .err

/-- state FirstDigit -/
def intFirst : Bytes → Nat → Res (Int × Nat × Bytes)
  | b :: rest, pos =>
    if isNonZeroDigit b then intDigits false rest (digitVal b : Int) (pos + 1)
    else if b == 48 then intStop 0 rest (pos + 1)
    else if b == 45 then intNonZero rest (pos + 1)
    else .err
  | [], _ => .err

/-- `decode_integer(bytes, start_position)`; `inp` is `bytes[start_position..]`.
    Result: value, continuation position, remaining input. -/
def decodeInt : Bytes → Nat → Res (Int × Nat × Bytes)
  | b :: rest, pos => if b == 105 then intFirst rest (pos + 1) else .err
  | [], _ => .err

/-! ### decode_string -/

/-- state Character: `n` = characters_to_read (already known to fit a `usize`). The Rust test is
    `position.checked_add(n)` failing, or the sum exceeding `bytes.len()`; since `position ≤ bytes.len() ≤ usize::MAX`
    for every slice that exists, both amount to `n > bytes.len() - position`, which is what is modelled
    (the pre-repair code used an unchecked `+` here, which panicked/wrapped for n near 2^64: defect D4a).
    The loop head needs one more byte to exist before this state is entered. -/
def strChars (n : Nat) (inp : Bytes) (pos : Nat) : Res (Bytes × Nat × Bytes) :=
  match inp with
  | [] => .err                                                -- bytes.get(position) = None
  | _ :: _ =>
    if n > inp.length then .err                               -- position + n > bytes.len()
    else .ok (inp.take n, pos + n, inp.drop n)

/-- state DigitOrSeperator -/
def strDigits : Bytes → Nat → Nat → Res (Bytes × Nat × Bytes)
  | [], _, _ => .err
  | b :: rest, n, pos =>
    if isDigit b then
      let m := n * 10
      if m > usizeMax then .err else                          -- checked_mul
      let a := m + digitVal b
      if a > usizeMax then .err else                          -- checked_add
      strDigits rest a (pos + 1)
    else if b == 58 then strChars n rest (pos + 1)            -- b':'
    else .err

/-- state Seperator (after a leading `0`) -/
def strSep : Bytes → Nat → Res (Bytes × Nat × Bytes)
  | b :: rest, pos => if b == 58 then .ok ([], pos + 1, rest) else .err
  | [], _ => .err

/-- `decode_string(bytes, start_position)` (state FirstDigit). Result: characters, continuation, rest. -/
def decodeStr : Bytes → Nat → Res (Bytes × Nat × Bytes)
  | b :: rest, pos =>
    if b == 48 then strSep rest (pos + 1)
    else if isNonZeroDigit b then strDigits rest (digitVal b) (pos + 1)
    else .err
  | [], _ => .err

def decodeStrTok (inp : Bytes) (pos : Nat) : Res (StrTok × Bytes) :=
  match decodeStr inp pos with
  | .ok (v, c, r) => .ok (⟨v, pos, c⟩, r)
  | .err => .err
  | .panic => .panic

/-! ### decode_any / decode_list / decode_dictionary -/

mutual
/-- `decode_any(bytes, pos)` with `inp = bytes[pos..]` -/
def decodeAny : Nat → Bytes → Nat → Res (Tok × Bytes)
  | 0, _, _ => .err
  | fuel+1, inp, pos =>
    match inp with
    | [] => .err
    | b :: rest =>
      if isDigit b then
        match decodeStrTok inp pos with
        | .ok (t, r) => .ok (.str t, r) | .err => .err | .panic => .panic
      else if b == 105 then
        match decodeInt inp pos with
        | .ok (v, c, r) => .ok (.int v pos c, r) | .err => .err | .panic => .panic
      else if b == 108 then decodeListLoop fuel rest (pos+1) pos []
      else if b == 100 then decodeDictLoop fuel rest (pos+1) pos [] []
      else .err
/-- ListState::Entry; `acc` holds the tokens pushed so far, newest first -/
def decodeListLoop : Nat → Bytes → Nat → Nat → List Tok → Res (Tok × Bytes)
  | 0, _, _, _, _ => .err
  | fuel+1, inp, pos, start, acc =>
    match inp with
    | [] => .err
    | b :: rest =>
      if isValueStart b then
        match decodeAny fuel inp pos with
        | .ok (t, r) => decodeListLoop fuel r t.cont start (t :: acc)
        | .err => .err | .panic => .panic
      else if b == 101 then .ok (.list acc.reverse start (pos+1), rest)
      else .err
/-- DictionaryState::KeyEntry (and ValueEntry inline); `ks`/`vs` newest first -/
def decodeDictLoop : Nat → Bytes → Nat → Nat → List StrTok → List Tok → Res (Tok × Bytes)
  | 0, _, _, _, _, _ => .err
  | fuel+1, inp, pos, start, ks, vs =>
    match inp with
    | [] => .err
    | b :: rest =>
      if isDigit b then
        match decodeStrTok inp pos with
        | .ok (k, r) =>
          let okOrder := match ks with
            | [] => true
            | last :: _ => bytesLt last.val k.val               -- Ordering::Less; Equal/Greater are errors
          if okOrder then
            match r with
            | [] => .err                                        -- EOF in ValueEntry
            | b2 :: _ =>
              if isValueStart b2 then
                match decodeAny fuel r k.c with
                | .ok (t, r2) => decodeDictLoop fuel r2 t.cont start (k :: ks) (t :: vs)
                | .err => .err | .panic => .panic
              else .err
          else .err
        | .err => .err | .panic => .panic
      else if b == 101 then .ok (.dict ks.reverse vs.reverse start (pos+1), rest)
      else .err
end

/-- `Parser::decode`: one value, then no byte may remain. -/
def decode (inp : Bytes) : Res Tok :=
  match decodeAny (2 * inp.length + 2) inp 0 with
  | .ok (t, []) => .ok t
  | .ok (_, _ :: _) => .err                                    -- remaining bytes
  | .err => .err
  | .panic => .panic

/-! ### types.rs: dictionary lookups -/

/-- `find_value`: first entry of `keys.iter().zip(&values)` whose key equals the target -/
def findValue : List StrTok → List Tok → Bytes → Option Tok
  | k :: ks, v :: vs, key => if k.val = key then some v else findValue ks vs key
  | _, _, _ => none

def findDict (ks : List StrTok) (vs : List Tok) (key : Bytes) : Option (List StrTok × List Tok × Nat × Nat) :=
  match findValue ks vs key with
  | some (.dict k v s c) => some (k, v, s, c)
  | _ => none
def findList (ks : List StrTok) (vs : List Tok) (key : Bytes) : Option (List Tok) :=
  match findValue ks vs key with
  | some (.list items _ _) => some items
  | _ => none
def findInt (ks : List StrTok) (vs : List Tok) (key : Bytes) : Option Int :=
  match findValue ks vs key with
  | some (.int v _ _) => some v
  | _ => none
def findStr (ks : List StrTok) (vs : List Tok) (key : Bytes) : Option Bytes :=
  match findValue ks vs key with
  | some (.str t) => some t.val
  | _ => none

end TB
