/-
  TB.Model.Run — model of a whole run: orchestrator.rs (start), finder.rs, solver/{solver,single,multiple}.rs,
  writer.rs, with the executor reduced to "the work items are evaluated one after the other in some order"
  (threads = 1; the multi-threaded executor is TB.Model.Exec).

  Everything the run does to the outside world is a logged operation on `Fs` (TB.Model.Fs). The sources of
  nondeterminism are explicit parameters of `RunIn`:
    * `searchObs`  the candidate order per metadata entry (HashMap iteration order inside one similarity class,
                   which name survives hard-link pruning) — must satisfy `validSearches`;
    * `order`      the order in which work items are evaluated (balance()'s HashMap of singles);
    * `faults`     indices (in the global operation sequence) of operations that fail with an I/O error.
  `H` is the hash function.
-/
import TB.Model.Fs
import TB.Model.Torrent
import TB.Model.Pieces
namespace TB

/-! ### finder.rs -/

/-- `TorrentMetadataEntry` -/
structure TEntry where
  id : Nat
  infoHash : Bytes
  fileIndex : Nat
  fileLength : Nat
  fullTarget : Path
  partialTarget : Path
  isPad : Bool
  searches : Option (List Path)
deriving Repr, DecidableEq, Inhabited

def sData : Bytes := "Data".toUTF8.toList
def sPad : Bytes := ".pad".toUTF8.toList

/-- `s.chars().all(char::is_numeric)` — restricted to the characters the generators emit: ASCII digits and
    U+0663 (٣), U+00BD (½), U+00B2 (²), U+2167 (Ⅷ); any other non-ASCII character counts as non-numeric. -/
def allNumeric : Bytes → Bool
  | [] => true
  | 0xD9 :: 0xA3 :: r => allNumeric r
  | 0xC2 :: 0xBD :: r => allNumeric r
  | 0xC2 :: 0xB2 :: r => allNumeric r
  | 0xE2 :: 0x85 :: 0xA7 :: r => allNumeric r
  | b :: r => isDigit b && allNumeric r

def isPaddingPath (path : List Bytes) : Bool :=
  match path with
  | [a, b] => a == sPad && allNumeric b
  | _ => false

/-- `format_path_single` / `format_path_multiple` -/
def exportRoot (exportDir : Path) (t : Torrent) : Path := exportDir ++ [hex t.infoHash, sData]
def targetSingle (exportDir : Path) (t : Torrent) : Path := exportRoot exportDir t ++ [t.info.name]
def targetMulti (exportDir : Path) (t : Torrent) (f : FileRec) : Path := exportRoot exportDir t ++ [t.info.name] ++ f.path

def entriesOfFiles (exportDir : Path) (t : Torrent) : List FileRec → Nat → Nat → List TEntry
  | [], _, _ => []
  | f :: fs, idx, id =>
    ⟨id, t.infoHash, idx, f.length, targetMulti exportDir t f, f.path, isPaddingPath f.path, none⟩
      :: entriesOfFiles exportDir t fs (idx + 1) (id + 1)

/-- `build_torrent_metadata_table` -/
def buildTable (exportDir : Path) : List Torrent → Nat → List TEntry
  | [], _ => []
  | t :: ts, id =>
    match t.info.files, t.info.length with
    | some fs, _ =>
      let es := entriesOfFiles exportDir t fs 0 id
      es ++ buildTable exportDir ts (id + es.length)
    | none, some l =>
      ⟨id, t.infoHash, 0, l, targetSingle exportDir t, [t.info.name], false, none⟩ :: buildTable exportDir ts (id + 1)
    | none, none => buildTable exportDir ts id

/-- `Path::ends_with` on component lists -/
def endsWith (p suffix : Path) : Bool := suffix.length ≤ p.length && p.drop (p.length - suffix.length) == suffix

/-- `find_file_similarity`; all paths are absolute below the same root, so "ends with the full target" is equality -/
def similarity (entry partialT fullT : Path) : Nat :=
  if entry == fullT then 0
  else if endsWith entry partialT then 1
  else if entry.getLast? == partialT.getLast? then 2
  else 3

/-- the file cache: length → (path → inode) -/
abbrev Cache := List (Nat × List (Path × Nat))

def cacheGet (c : Cache) (len : Nat) : Option (List (Path × Nat)) := (c.find? (fun e => e.1 == len)).map (·.2)
def cacheInsert (c : Cache) (len : Nat) (p : Path) (ino : Nat) : Cache :=
  match cacheGet c len with
  | some m => (len, (p, ino) :: m.filter (fun e => e.1 != p)) :: c.filter (fun e => e.1 != len)
  | none => (len, [(p, ino)]) :: c

/-! ### state, operations -/

structure St where
  fs : Fs
  ops : List Op
  faults : List Nat
deriving Repr, Inhabited

/-- log one operation; it fails if its index is a fault point, otherwise `natural` decides and applies its effect -/
def St.op (st : St) (kind : OpKind) (path : Path) (natural : Fs → Fs × Bool) : St × Bool :=
  if st.faults.contains st.ops.length then
    ({ st with ops := st.ops ++ [⟨kind, path, false⟩] }, false)
  else
    let (fs', ok) := natural st.fs
    ({ st with fs := fs', ops := st.ops ++ [⟨kind, path, ok⟩] }, ok)

/-- read-only open: succeeds on files and directories -/
def St.openr (st : St) (p : Path) : St × Bool :=
  st.op .openr p (fun fs => (fs, match fs.look p with | .file _ => true | .dir => true | _ => false))

/-- `read_bytes` / `read_bytes_reuse_buffer`: File::open, seek, take(len).read_to_end -/
def St.readBytes (st : St) (p : Path) (len off : Nat) : St × Option Bytes :=
  let (st1, ok1) := st.op .openr p (fun fs => (fs, match fs.look p with | .file _ => true | .dir => true | _ => false))
  if !ok1 then (st1, none) else
  let (st2, ok2) := st1.op (.seek off) p (fun fs => (fs, true))
  if !ok2 then (st2, none) else
  -- `take(0).read_to_end` returns without touching the file: no read operation, not even on a directory
  if len == 0 then (st2, some []) else
  -- reading a directory handle fails (EISDIR)
  let (st3, ok3) := st2.op .read p (fun fs => (fs, match fs.look p with | .file _ => true | _ => false))
  if !ok3 then (st3, none) else
  match st3.fs.look p with
  | .file i => (st3, some (st3.fs.readAt i off len))
  | _ => (st3, none)

/-! ### resize pre-flight (`fix_export_file_lengths`) -/

inductive Flow where
  | continue
  | error
deriving Repr, DecidableEq

/-- first pass: read-only; any existing export file longer than declared is an error -/
def resizePass1 (st : St) : List TEntry → St × Flow
  | [] => (st, .continue)
  | e :: es =>
    if e.isPad then resizePass1 st es else
    let natural := st.fs.look e.fullTarget
    let (st1, ok) := st.openr e.fullTarget
    if !ok then
      -- NotFound is skipped; any other failure (injected fault, ENOTDIR) aborts the run
      if natural == .notFound && !(st.faults.contains st.ops.length) then resizePass1 st1 es else (st1, .error)
    else
      match natural with
      | .file i => if (st1.fs.content i).length > e.fileLength then (st1, .error) else resizePass1 st1 es
      | _ => resizePass1 st1 es          -- a directory: metadata().len() of a directory is not compared meaningfully; see note

/-- second pass: extend the shorter ones -/
def resizePass2 (st : St) : List TEntry → St × Flow
  | [] => (st, .continue)
  | e :: es =>
    if e.isPad then resizePass2 st es else
    let natural := st.fs.look e.fullTarget
    -- opening a directory for writing fails (EISDIR), which is not NotFound
    let (st1, ok) := st.op .openrw e.fullTarget (fun fs => (fs, match fs.look e.fullTarget with | .file _ => true | _ => false))
    if !ok then
      if natural == .notFound && !(st.faults.contains st.ops.length) then resizePass2 st1 es else (st1, .error)
    else
      match natural with
      | .file i =>
        if (st1.fs.content i).length < e.fileLength then
          let (st2, ok2) := st1.op (.setlen e.fileLength) e.fullTarget (fun fs => (fs.setLen i e.fileLength, true))
          if ok2 then resizePass2 st2 es else (st2, .error)
        else resizePass2 st1 es
      | _ => resizePass2 st1 es

def fixExportFileLengths (st : St) (table : List TEntry) : St × Flow :=
  match resizePass1 st table with
  | (st1, .error) => (st1, .error)
  | (st1, .continue) => resizePass2 st1 table

/-! ### building the cache and the candidate lists -/

/-- `add_export_paths` / `add_by_path` -/
def addExportPaths (st : St) (c : Cache) : List TEntry → St × Cache
  | [] => (st, c)
  | e :: es =>
    if e.isPad then addExportPaths st c es else
    let (st1, ok) := st.openr e.fullTarget
    if !ok then addExportPaths st1 c es else
    match st1.fs.look e.fullTarget with
    | .file i =>
      if (st1.fs.content i).length == e.fileLength then addExportPaths st1 (cacheInsert c e.fileLength e.fullTarget i) es
      else addExportPaths st1 c es
    | _ => addExportPaths st1 c es

def uniqueLengths (table : List TEntry) : List Nat := (table.filter (fun e => !e.isPad)).map (·.fileLength)

/-- `add_by_directory_and_length`: every regular file below `dir` (the walk itself is not logged) -/
def addByDirectory (fs : Fs) (c : Cache) (dir : Path) (lengths : List Nat) : Cache :=
  fs.files.foldl (fun c e =>
    let len := (fs.content e.2).length
    if dir.length ≤ e.1.length && e.1.take dir.length == dir && e.1 != dir && lengths.contains len
    then cacheInsert c len e.1 e.2 else c) c

/-- is `obs` an order `populate_metadata_searches` could have produced for this entry from candidate map `m`?
    (stable sort by similarity of an arbitrary enumeration, then keep the first name of every inode) -/
def validSearches (e : TEntry) (m : List (Path × Nat)) (obs : List Path) : Bool :=
  let sim := fun p => similarity p e.partialTarget e.fullTarget
  let inoOf := fun p => (m.find? (fun x => x.1 == p)).map (·.2)
  obs.all (fun p => (inoOf p).isSome)
  && obs.eraseDups.length == obs.length
  && (obs.map inoOf).eraseDups.length == obs.length
  && m.all (fun x => obs.any (fun p => inoOf p == some x.2 && sim p ≤ sim x.1))
  && (List.zip obs (obs.drop 1)).all (fun pq => sim pq.1 ≤ sim pq.2)

/-- insertion sort, used for the canonical resolution -/
def insertBy {α : Type} (lt : α → α → Bool) (a : α) : List α → List α
  | [] => [a]
  | b :: bs => if lt a b then a :: b :: bs else b :: insertBy lt a bs
def sortBy {α : Type} (lt : α → α → Bool) (l : List α) : List α := l.foldr (insertBy lt) []

def pathLt : Path → Path → Bool
  | [], [] => false
  | [], _ :: _ => true
  | _ :: _, [] => false
  | a :: as, b :: bs => if bytesLt a b then true else if a == b then pathLt as bs else false

/-- keep the first name of every inode -/
def pruneLinks : List (Path × Nat) → List Nat → List Path
  | [], _ => []
  | (p, i) :: rest, seen => if seen.contains i then pruneLinks rest seen else p :: pruneLinks rest (i :: seen)

/-- canonical resolution: order by (similarity, path) -/
def canonicalSearches (e : TEntry) (m : List (Path × Nat)) : List Path :=
  let sim := fun p => similarity p e.partialTarget e.fullTarget
  pruneLinks (sortBy (fun a b => sim a.1 < sim b.1 || (sim a.1 == sim b.1 && pathLt a.1 b.1)) m) []

/-- `populate_metadata_searches`; returns the table and whether every observed order was admissible -/
def populateSearches (c : Cache) (obs : List (Nat × List Path)) : List TEntry → List TEntry × Bool
  | [] => ([], true)
  | e :: es =>
    let (rest, okRest) := populateSearches c obs es
    if e.isPad then (e :: rest, okRest) else
    match cacheGet c e.fileLength with
    | none => (e :: rest, okRest)
    | some m =>
      match (obs.find? (fun o => o.1 == e.id)).map (·.2) with
      | some o =>
        if validSearches e m o then ({ e with searches := some o } :: rest, okRest)
        else ({ e with searches := some (canonicalSearches e m) } :: rest, false)
      | none => ({ e with searches := some (canonicalSearches e m) } :: rest, okRest)

/-! ### work items (`convert_pieces_to_work`) -/

/-- `OrchestrationPieceFile` -/
structure WSeg where
  len : Nat
  off : Nat
  ent : TEntry
deriving Repr, DecidableEq, Inhabited

/-- `OrchestrationPiece` -/
structure Work where
  segs : List WSeg
  hash : Bytes
deriving Repr, DecidableEq, Inhabited

def lookupEntry (table : List TEntry) (ih : Bytes) (idx : Nat) : Option TEntry :=
  table.find? (fun e => e.infoHash == ih && e.fileIndex == idx)

def workOfPiece (table : List TEntry) (t : Torrent) (p : Piece) : Option Work :=
  match p.segs.mapM (fun s => (lookupEntry table t.infoHash s.file).map (fun e => (⟨s.len, s.off, e⟩ : WSeg))) with
  | some segs => some ⟨segs, p.hash⟩
  | none => none                                              -- lookup.get(..).unwrap()

def workOfTorrent (table : List TEntry) (t : Torrent) : Option (List Work) :=
  match constructPieces t.info.pieceLength t.info.length (t.info.files.map (·.map (·.length))) t.info.pieces with
  | none => none
  | some ps => ps.mapM (workOfPiece table t)

def convertPiecesToWork (table : List TEntry) : List Torrent → Option (List Work)
  | [] => some []
  | t :: ts =>
    match workOfTorrent table t, convertPiecesToWork table ts with
    | some a, some b => some (a ++ b)
    | _, _ => none

/-! ### solver -/

inductive Solved where
  | found
  | notFound
  | fault
  | panic
deriving Repr, DecidableEq

/-- `single::scan`: the first candidate whose bytes hash to the piece hash; returns (source, bytes) -/
def scanSingle (H : Bytes → Bytes) (hash : Bytes) (seg : WSeg) : St → List Path → St × Res (Option (Path × Bytes))
  | st, [] => (st, .ok none)
  | st, p :: ps =>
    match st.readBytes p seg.len seg.off with
    | (st1, none) => (st1, .err)
    | (st1, some bytes) =>
      if H bytes == hash then (st1, .ok (some (p, bytes))) else scanSingle H hash seg st1 ps

/-- `preload` for one segment: the distinct byte strings its candidates supply (first supplier kept) -/
def preloadSeg (seg : WSeg) : St → List Path → List (Option Path × Bytes) → St × Res (List (Option Path × Bytes))
  | st, [], acc => (st, .ok acc)
  | st, p :: ps, acc =>
    match st.readBytes p seg.len seg.off with
    | (st1, none) => (st1, .err)
    | (st1, some bytes) =>
      if acc.any (fun r => r.2 == bytes) then preloadSeg seg st1 ps acc
      else preloadSeg seg st1 ps (acc ++ [(some p, bytes)])

def preload : St → List WSeg → St × Res (List (List (Option Path × Bytes)))
  | st, [] => (st, .ok [])
  | st, seg :: rest =>
    if seg.ent.isPad then
      match preload st rest with
      | (st1, .ok r) => (st1, .ok ([(none, List.replicate seg.len 0)] :: r))
      | (st1, .err) => (st1, .err)
      | (st1, .panic) => (st1, .panic)
    else
      match seg.ent.searches with
      | none =>
        -- only a segment of an empty file gets here without candidates: it contributes no bytes
        match preload st rest with
        | (st1, .ok r) => (st1, .ok ([(none, [])] :: r))
        | (st1, .err) => (st1, .err)
        | (st1, .panic) => (st1, .panic)
      | some paths =>
        match preloadSeg seg st paths [] with
        | (st1, .ok r) =>
          match preload st1 rest with
          | (st2, .ok rs) => (st2, .ok (r :: rs))
          | (st2, .err) => (st2, .err)
          | (st2, .panic) => (st2, .panic)
        | (st1, .err) => (st1, .err)
        | (st1, .panic) => (st1, .panic)

/-- `scan_internal`: depth-first over the product, first segment slowest; the first combination whose
    concatenation hashes to the piece hash -/
def searchProduct (H : Bytes → Bytes) (hash : Bytes) :
    List (List (Option Path × Bytes)) → List (Option Path × Bytes) → Option (List (Option Path × Bytes))
  | [], chosen => if H (chosen.flatMap (·.2)) == hash then some chosen else none
  | cands :: rest, chosen =>
    cands.firstM (fun c => searchProduct H hash rest (chosen ++ [c]))

/-- `FileWriter::write`: the verified buffer is cut back into per-file segments; `start` is the cursor -/
def writeSegs : St → List (WSeg × Option Path) → Bytes → Nat → St × Solved
  | st, [], _, _ => (st, .found)
  | st, (seg, src) :: rest, buf, start =>
    let stop := start + seg.len
    if seg.ent.isPad then writeSegs st rest buf stop
    else if src == some seg.ent.fullTarget then writeSegs st rest buf stop
    else
      let target := seg.ent.fullTarget
      let (st1, ok1) := st.op .mkdirs target.dropLast (fun fs => fs.mkdirs target.dropLast)
      if !ok1 then (st1, .fault) else
      let (st2, ok2) := st1.op .openc target (fun fs => let r := fs.openCreate target; (r.1, r.2.isSome))
      if !ok2 then (st2, .fault) else
      match st2.fs.look target with
      | .file i =>
        let (st3, ok3) := st2.op (.setlen seg.ent.fileLength) target (fun fs => (fs.setLen i seg.ent.fileLength, true))
        if !ok3 then (st3, .fault) else
        let (st4, ok4) := st3.op (.seek seg.off) target (fun fs => (fs, true))
        if !ok4 then (st4, .fault) else
        if buf.length < stop then (st4, .fault) else              -- result.bytes.get(start..end) is None: the matched bytes are too short, an I/O error for this piece
        let data := (buf.drop start).take seg.len
        let (st5, ok5) := st4.op (.write seg.off data) target (fun fs => (fs.writeAt i seg.off data, true))
        if !ok5 then (st5, .fault) else writeSegs st5 rest buf stop
      | _ => (st2, .fault)

/-- `solve_internal` -/
def solvePiece (H : Bytes → Bytes) (st : St) (w : Work) : St × Solved :=
  let rejected := w.segs.any (fun s => !s.ent.isPad && s.ent.searches.isNone && s.len != 0)
  if rejected then (st, .notFound) else
  match w.segs with
  | [seg] =>
    if seg.ent.isPad then
      -- a piece lying entirely inside a padding file goes through the multi-segment matcher
      if H (List.replicate seg.len 0) == w.hash then (st, .found) else (st, .notFound)
    else
      match seg.ent.searches with
      | none => (st, .panic)
      | some paths =>
        match scanSingle H w.hash seg st paths with
        | (st1, .ok (some (src, bytes))) => writeSegs st1 [(seg, some src)] bytes 0
        | (st1, .ok none) => (st1, .notFound)
        | (st1, .err) => (st1, .fault)
        | (st1, .panic) => (st1, .panic)
  | segs =>
    match preload st segs with
    | (st1, .ok loaded) =>
      match searchProduct H w.hash loaded [] with
      | some chosen => writeSegs st1 (List.zip segs (chosen.map (·.1))) (chosen.flatMap (·.2)) 0
      | none => (st1, .notFound)
    | (st1, .err) => (st1, .fault)
    | (st1, .panic) => (st1, .panic)

/-- `PieceState` counters -/
structure Counters where
  success : Nat
  failed : Nat
  fault : Nat
deriving Repr, DecidableEq, Inhabited

def Counters.bump (c : Counters) : Solved → Counters
  | .found => { c with success := c.success + 1 }
  | .notFound => { c with failed := c.failed + 1 }
  | .fault => { c with fault := c.fault + 1 }
  | .panic => c

/-- evaluate the work items in the given order; stops at a panic (the worker dies, `join().expect` re-raises) -/
def solveAll (H : Bytes → Bytes) : St → List Work → Counters → List Counters → St × List Counters × Bool
  | st, [], _, acc => (st, acc, false)
  | st, w :: ws, c, acc =>
    match solvePiece H st w with
    | (st1, .panic) => (st1, acc, true)
    | (st1, r) => let c' := c.bump r; solveAll H st1 ws c' (acc ++ [c'])

/-! ### orchestrator.rs -/

structure PathArg where
  absolute : Bool
  path : Path
deriving Repr, DecidableEq, Inhabited

structure RunIn where
  fs : Fs
  torrents : List Torrent
  scan : List PathArg
  exportDir : PathArg
  resize : Bool
  searchObs : List (Nat × List Path)
  /-- observed evaluation order: segment signatures (entry id, offset, length) and hash of each solved piece -/
  order : List (List (Nat × Nat × Nat) × Bytes)
  faults : List Nat
deriving Repr, Inhabited

structure RunOut where
  result : Res Unit
  ops : List Op
  fs : Fs
  counters : List Counters
  total : Nat
  /-- the observed resolution of nondeterminism was admissible -/
  resolutionOk : Bool
  table : List TEntry
  work : List Work
  /-- number of operations logged before the first piece is evaluated -/
  setupOps : Nat
deriving Repr, Inhabited

/-- `validate_path` -/
def validatePath (st : St) (a : PathArg) : St × Bool :=
  if !a.absolute then (st, false) else
  let (st1, ok) := st.op .stat a.path (fun fs => (fs, match fs.look a.path with | .file _ => true | .dir => true | _ => false))
  if !ok then (st1, false) else
  match st1.fs.look a.path with
  | .dir => (st1, true)
  | _ => (st1, false)

def validateAll : St → List PathArg → St × Bool
  | st, [] => (st, true)
  | st, a :: as => match validatePath st a with
    | (st1, true) => validateAll st1 as
    | (st1, false) => (st1, false)

/-- stable sort by info-hash followed by `dedup_by` (keeps the first of each run) -/
def insertTorrent (t : Torrent) : List Torrent → List Torrent
  | [] => [t]
  | u :: us => if bytesLt t.infoHash u.infoHash then t :: u :: us else u :: insertTorrent t us
def sortTorrents (ts : List Torrent) : List Torrent := ts.foldl (fun acc t => insertTorrent t acc) []
def dedupTorrents : List Torrent → List Torrent
  | [] => []
  | [t] => [t]
  | t :: u :: rest => if t.infoHash == u.infoHash then dedupTorrents (t :: rest) else t :: dedupTorrents (u :: rest)
termination_by l => l.length

def workSig (w : Work) : List (Nat × Nat × Nat) × Bytes := (w.segs.map (fun s => (s.ent.id, s.off, s.len)), w.hash)

/-- reorder the work list as observed; `none` if the observation is not a permutation of it -/
def reorder : List Work → List (List (Nat × Nat × Nat) × Bytes) → Option (List Work)
  | [], [] => some []
  | ws, [] => some ws.reverse            -- the observation stopped early (the run died): the rest in default order
  | ws, o :: os =>
    match ws.find? (fun w => workSig w == o) with
    | none => none
    | some w => (reorder (ws.erase w) os).map (w :: ·)

/-- the order run() gives with one worker when there is nothing to observe: the reverse of balance()'s result -/
def defaultOrder (ws : List Work) : List Work := ws.reverse

/-- `start` -/
def run (H : Bytes → Bytes) (inp : RunIn) : RunOut :=
  let st0 : St := ⟨inp.fs, [], inp.faults⟩
  if inp.torrents.isEmpty then ⟨.ok (), [], inp.fs, [], 0, true, [], [], 0⟩ else
  match validateAll st0 (inp.scan ++ [inp.exportDir]) with
  | (st1, false) => ⟨.err, st1.ops, st1.fs, [], 0, true, [], [], st1.ops.length⟩
  | (st1, true) =>
    let torrents := dedupTorrents (sortTorrents inp.torrents)
    let table0 := buildTable inp.exportDir.path torrents 0
    let (st2, flow) := if inp.resize then fixExportFileLengths st1 table0 else (st1, .continue)
    match flow with
    | .error => ⟨.err, st2.ops, st2.fs, [], 0, true, table0, [], st2.ops.length⟩
    | .continue =>
      let lengths := uniqueLengths table0
      let (st3, cache0) := addExportPaths st2 [] table0
      let cache := inp.scan.foldl (fun c d => addByDirectory st3.fs c d.path lengths) cache0
      let (table, okSearch) := populateSearches cache inp.searchObs table0
      match convertPiecesToWork table torrents with
      | none => ⟨.panic, st3.ops, st3.fs, [], 0, okSearch, table, [], st3.ops.length⟩
      | some work =>
        let (ordered, okOrder) :=
          match reorder work inp.order with
          | some o => (o, true)
          | none => (defaultOrder work, inp.order.isEmpty)
        let (st4, counters, panicked) := solveAll H st3 ordered ⟨0, 0, 0⟩ []
        ⟨if panicked then .panic else .ok (), st4.ops, st4.fs, counters, work.length, okSearch && okOrder, table, work, st3.ops.length⟩

end TB
