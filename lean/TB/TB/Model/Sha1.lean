/-
  TB.Model.Sha1 — executable SHA-1 (FIPS 180-4) used by the driver to instantiate the hash
  parameter `H` of the theorems. No theorem depends on these definitions: in every property
  theorem the hash function is a universally quantified parameter. Every digest computed during
  a correspondence run is compared with the `sha1` crate's.
-/
import TB.Model.Basic
namespace TB.Sha1

@[inline] def rotl (x : UInt32) (n : UInt32) : UInt32 := (x <<< n) ||| (x >>> (32 - n))

/-- message padding: 0x80, zeros, 64-bit big-endian bit length -/
def pad (msg : Bytes) : Bytes :=
  let l := msg.length
  let bitlen := (l * 8) % 2^64
  let k := (119 - l % 64) % 64            -- zeros so that l + 1 + k ≡ 56 (mod 64)
  let lenBytes : Bytes := (List.range 8).map fun i => UInt8.ofNat ((bitlen >>> (8 * (7 - i))) % 256)
  msg ++ [0x80] ++ List.replicate k 0 ++ lenBytes

def word (a b c d : UInt8) : UInt32 :=
  (a.toUInt32 <<< 24) ||| (b.toUInt32 <<< 16) ||| (c.toUInt32 <<< 8) ||| d.toUInt32

/-- first 16 words of a 64-byte block -/
def blockWords : Bytes → List UInt32
  | a :: b :: c :: d :: rest => word a b c d :: blockWords rest
  | _ => []

/-- extend to 80 words; the schedule is kept as an array for indexed access -/
def schedule (w16 : List UInt32) : Array UInt32 := Id.run do
  let mut w : Array UInt32 := w16.toArray
  for t in [16:80] do
    let x := w[t-3]! ^^^ w[t-8]! ^^^ w[t-14]! ^^^ w[t-16]!
    w := w.push (rotl x 1)
  return w

structure St where
  h0 : UInt32
  h1 : UInt32
  h2 : UInt32
  h3 : UInt32
  h4 : UInt32

def compress (s : St) (block : Bytes) : St := Id.run do
  let w := schedule (blockWords block)
  let mut a := s.h0
  let mut b := s.h1
  let mut c := s.h2
  let mut d := s.h3
  let mut e := s.h4
  for t in [0:80] do
    let (f, k) : UInt32 × UInt32 :=
      if t < 20 then ((b &&& c) ||| ((~~~ b) &&& d), 0x5A827999)
      else if t < 40 then (b ^^^ c ^^^ d, 0x6ED9EBA1)
      else if t < 60 then ((b &&& c) ||| (b &&& d) ||| (c &&& d), 0x8F1BBCDC)
      else (b ^^^ c ^^^ d, 0xCA62C1D6)
    let temp := rotl a 5 + f + e + k + w[t]!
    e := d
    d := c
    c := rotl b 30
    b := a
    a := temp
  return ⟨s.h0 + a, s.h1 + b, s.h2 + c, s.h3 + d, s.h4 + e⟩

def blocks : Nat → Bytes → List Bytes
  | 0, _ => []
  | n+1, bs => if bs.isEmpty then [] else bs.take 64 :: blocks n (bs.drop 64)

def wordBytes (x : UInt32) : Bytes :=
  [(x >>> 24).toUInt8, (x >>> 16).toUInt8, (x >>> 8).toUInt8, x.toUInt8]

def sha1 (msg : Bytes) : Bytes :=
  let p := pad msg
  let s := (blocks (p.length / 64 + 1) p).foldl compress
    ⟨0x67452301, 0xEFCDAB89, 0x98BADCFE, 0x10325476, 0xC3D2E1F0⟩
  wordBytes s.h0 ++ wordBytes s.h1 ++ wordBytes s.h2 ++ wordBytes s.h3 ++ wordBytes s.h4

end TB.Sha1
