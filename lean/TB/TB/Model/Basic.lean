/-
  TB.Model.Basic — shared vocabulary of the model of lbfs/torrent-bootstrap.

  Model files import nothing outside core Lean, so that the line-protocol driver (`tbmodel`)
  links as a native executable and computes with exactly the definitions the theorems are about.
-/
namespace TB

/-- Byte strings (`Vec<u8>` / `&[u8]`). -/
abbrev Bytes := List UInt8

/-- Outcome of a Rust function that returns `Result` and may panic.
    `panic` stands for every abnormal termination the Rust code can reach from this point:
    an arithmetic overflow (the harness builds with overflow checks on), a slice or index out of
    bounds, an `unwrap`/`expect` on `None`/`Err`. Error kinds/messages are not modelled. -/
inductive Res (α : Type) where
  | ok (a : α)
  | err
  | panic
deriving Repr, DecidableEq, Inhabited

namespace Res
@[inline] def bind {α β : Type} (r : Res α) (f : α → Res β) : Res β :=
  match r with
  | ok a => f a
  | err => err
  | panic => panic
@[inline] def map {α β : Type} (f : α → β) (r : Res α) : Res β :=
  match r with
  | ok a => ok (f a)
  | err => err
  | panic => panic
def isOk {α : Type} : Res α → Bool
  | ok _ => true
  | _ => false
def toOption {α : Type} : Res α → Option α
  | ok a => some a
  | _ => none
/-- class of an outcome, as compared with the implementation -/
def cls {α : Type} : Res α → String
  | ok _ => "ok"
  | err => "err"
  | panic => "panic"
end Res

instance : Monad Res where
  pure := Res.ok
  bind := Res.bind

def u64Max : Nat := 2^64 - 1
def usizeMax : Nat := 2^64 - 1
def i128Max : Int := 2^127 - 1
def i128Min : Int := -(2^127)

end TB
