/-
  TB.Model.Fs — the file system as the tool sees it, and the log of file operations.

  Paths are lists of components below a sandbox root (which always exists and is a directory).
  Regular files are names bound to inode numbers; several names may share an inode (hard links).
  Directories are explicit. Symbolic links are outside the model (DESIGN.md §8).
-/
import TB.Model.Basic
namespace TB

abbrev Path := List Bytes

structure Fs where
  files : List (Path × Nat)      -- regular file names → inode
  dirs  : List Path              -- directories (the root `[]` is implicit)
  data  : List (Nat × Bytes)     -- inode → content
  next  : Nat                    -- next fresh inode
deriving Repr, DecidableEq, Inhabited

inductive Look where
  | notFound                     -- ENOENT
  | notDir                       -- ENOTDIR: a proper prefix is a regular file
  | dir
  | file (ino : Nat)
deriving Repr, DecidableEq

namespace Fs

def isDir (fs : Fs) (p : Path) : Bool := p.isEmpty || fs.dirs.contains p
def inoOf (fs : Fs) (p : Path) : Option Nat := (fs.files.find? (fun e => e.1 == p)).map (·.2)
def content (fs : Fs) (ino : Nat) : Bytes :=
  match fs.data.find? (fun e => e.1 == ino) with
  | some e => e.2
  | none => []

/-- proper prefixes of a path, shortest first (without the root) -/
def properPrefixes (p : Path) : List Path := (List.range p.length).drop 1 |>.map (fun n => p.take n)

def look (fs : Fs) (p : Path) : Look :=
  if (properPrefixes p).any (fun q => (fs.inoOf q).isSome) then .notDir
  else if fs.isDir p then .dir
  else match fs.inoOf p with
    | some i => .file i
    | none => if (properPrefixes p).all fs.isDir then .notFound else .notFound

def setData (fs : Fs) (ino : Nat) (bs : Bytes) : Fs :=
  { fs with data := (ino, bs) :: fs.data.filter (fun e => e.1 != ino) }

/-- `read_bytes`: seek to `off`, read at most `len` bytes -/
def readAt (fs : Fs) (ino : Nat) (off len : Nat) : Bytes := ((fs.content ino).drop off).take len

/-- `File::set_len`: truncate or zero-extend -/
def setLen (fs : Fs) (ino : Nat) (n : Nat) : Fs :=
  let c := fs.content ino
  fs.setData ino (if n ≤ c.length then c.take n else c ++ List.replicate (n - c.length) 0)

/-- positional `write_all` (a write past the end zero-fills the gap) -/
def writeAt (fs : Fs) (ino : Nat) (off : Nat) (bs : Bytes) : Fs :=
  let c := fs.content ino
  let c' := if off ≤ c.length then c else c ++ List.replicate (off - c.length) 0
  fs.setData ino (c'.take off ++ bs ++ c'.drop (off + bs.length))

/-- `fs::create_dir_all`: creates the missing prefixes, shortest first; fails at a regular file.
    Modelling decision: a failing call is atomic here (the tree is left as it was), whereas the real call may
    leave the prefixes it created before hitting the obstacle; the generated worlds never put a regular file
    where an export directory is needed, and the correspondence run would report the difference in `dirs`. -/
def mkdirsAux (fs : Fs) : List Path → Option Fs
  | [] => some fs
  | q :: rest =>
    if fs.isDir q then mkdirsAux fs rest
    else if (fs.inoOf q).isSome then none
    else mkdirsAux { fs with dirs := q :: fs.dirs } rest
def mkdirs (fs : Fs) (p : Path) : Fs × Bool :=
  match mkdirsAux fs (properPrefixes p ++ [p]) with
  | some fs' => (fs', true)
  | none => (fs, false)

/-- `OpenOptions::new().write(true).create(true).truncate(false).open(p)`: the inode, created empty if absent -/
def openCreate (fs : Fs) (p : Path) : Fs × Option Nat :=
  match fs.look p with
  | .file i => (fs, some i)
  | .notFound =>
    if fs.isDir p.dropLast then
      ({ fs with files := (p, fs.next) :: fs.files, data := (fs.next, []) :: fs.data, next := fs.next + 1 }, some fs.next)
    else (fs, none)
  | _ => (fs, none)

end Fs

/-! ### operation log -/

inductive OpKind where
  | stat                      -- fs::metadata(path)            (validate_path)
  | openr                     -- read-only open                (add_by_path, resize pass 1, candidate reads)
  | openrw                    -- read+write open, no create    (resize pass 2)
  | openc                     -- write+create open, no truncate (writer)
  | mkdirs                    -- fs::create_dir_all
  | setlen (n : Nat)
  | seek (off : Nat)
  | read                      -- take(len).read_to_end after the seek
  | write (off : Nat) (data : Bytes)
deriving Repr, DecidableEq

structure Op where
  kind : OpKind
  path : Path
  ok : Bool
deriving Repr, DecidableEq

def OpKind.mutating : OpKind → Bool
  | .openc | .mkdirs | .setlen _ | .write _ _ => true
  | _ => false

end TB
