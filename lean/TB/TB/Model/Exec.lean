/-
  TB.Model.Exec — model of src/solver/executor.rs (`run`, `run_internal`) as a transition system at the
  granularity of synchronisation operations.

  Workers are numbered 0 … N-1 (`thread_id`). Worker `i` owns queue `i` (a `Mutex<Vec<piece>>`); `S` is the
  `Mutex<ExecutionState>` holding `active_threads`. One `step` of worker `i` performs the synchronisation
  operation its program counter points at; purely local computation (`solve`, the tests on `active_threads` and
  on the own queue's length, `balance`, `active_threads -= n`) is attached to program counters of its own so
  that invariants can speak about the state between any two operations. `solve` is one step: the locks taken
  inside it (per-file write locks, the counter lock) are leaves — no other lock is requested while they are
  held — and are not modelled.

  `balance` is a parameter `bal : Nat → List (List Nat) → List (List Nat)` (active count, queues ↦ queues): the
  real function's result depends on hash-map iteration order; theorems assume only `BalSpec` (TB.Spec.ExecSpec),
  and the correspondence run feeds the observed result after checking that specification.
-/
import TB.Model.Basic
namespace TB.Exec

inductive Pc where
  | top                       -- about to `local.try_lock()`
  | popped (item : Option Nat) -- holds the own queue lock after the pop; about to drop the guard
  | solving (item : Nat)      -- `solver.solve(work)`
  | wantState                 -- about to `execution_state.lock()`
  | haveState                 -- holds S; about to test `thread_id >= state.active_threads`
  | exiting                   -- about to drop S and leave the loop
  | wantLocal                 -- holds S; about to `local.lock()`
  | haveLocal                 -- holds S and the own queue; about to test `guard.len() > 0`
  | cont1                     -- `continue 'outer`: about to drop the own queue guard …
  | cont2                     -- … and then S
  | collect (j : Nat)         -- about to lock the j-th queue of `0..id ++ id+1..active`
  | bal                       -- holds S and all active queues; about to `balance` and count the empty tail
  | release (j d : Nat)       -- dropping the guards of queues 0.. in order; `d` = number of deactivated workers
  | dec (d : Nat)             -- about to `state.active_threads -= d`
  | unlockState               -- about to drop S
  | done
deriving Repr, DecidableEq, Inhabited

structure ExSt where
  queues : List (List Nat)        -- queue i: bottom … top (pop takes the last element)
  active : Nat                    -- `active_threads`
  stateLock : Option Nat          -- holder of S
  qlock : List (Option Nat)       -- holder of each queue lock
  pcs : List Pc
  solved : List Nat               -- items handed to `solve`, in order (ghost)
deriving Repr, DecidableEq, Inhabited

/-- the other queues a rebalancing worker `i` locks, in order: 0 … i-1, then i+1 … active-1 -/
def others (i active : Nat) : List Nat := (List.range active).filter (· != i)

/-- number of trailing empty queues among the first `active` -/
def emptyTail (qs : List (List Nat)) (active : Nat) : Nat :=
  ((qs.take active).reverse.takeWhile (·.isEmpty)).length

def setPc (s : ExSt) (i : Nat) (pc : Pc) : ExSt := { s with pcs := s.pcs.set i pc }
def setQLock (s : ExSt) (j : Nat) (h : Option Nat) : ExSt := { s with qlock := s.qlock.set j h }

/-- one step of worker `i`; `none` = not enabled (blocked on a lock, finished, or no such worker) -/
def step (bal : Nat → List (List Nat) → List (List Nat)) (s : ExSt) (i : Nat) : Option ExSt :=
  match s.pcs[i]? with
  | none => none
  | some pc =>
    match pc with
    | .top =>
      if s.qlock[i]? == some none then
        -- try_lock succeeded: pop
        let q := s.queues[i]?.getD []
        some (setPc (setQLock { s with queues := s.queues.set i q.dropLast } i (some i)) i (.popped q.getLast?))
      else some (setPc s i .wantState)                       -- try_lock failed: found = None
    | .popped item =>
      some (setPc (setQLock s i none) i (match item with | some x => .solving x | none => .wantState))
    | .solving x => some (setPc { s with solved := s.solved ++ [x] } i .top)
    | .wantState =>
      if s.stateLock.isNone then some (setPc { s with stateLock := some i } i .haveState) else none
    | .haveState => some (setPc s i (if i ≥ s.active then .exiting else .wantLocal))
    | .exiting => some (setPc { s with stateLock := none } i .done)
    | .wantLocal =>
      if s.qlock[i]? == some none then some (setPc (setQLock s i (some i)) i .haveLocal) else none
    | .haveLocal =>
      some (setPc s i (if (s.queues[i]?.getD []).length > 0 then .cont1 else .collect 0))
    | .cont1 => some (setPc (setQLock s i none) i .cont2)
    | .cont2 => some (setPc { s with stateLock := none } i .top)
    | .collect j =>
      match (others i s.active)[j]? with
      | none => some (setPc s i .bal)
      | some t =>
        if s.qlock[t]? == some none then some (setPc (setQLock s t (some i)) i (.collect (j + 1))) else none
    | .bal =>
      let qs := bal s.active s.queues
      some (setPc { s with queues := qs } i (.release 0 (emptyTail qs s.active)))
    | .release j d =>
      if j < s.active then some (setPc (setQLock s j none) i (.release (j + 1) d))
      else some (setPc s i (.dec d))
    | .dec d => some (setPc { s with active := s.active - d } i .unlockState)
    | .unlockState => some (setPc { s with stateLock := none } i .top)
    | .done => none

/-- `run`: the state after the initial `balance` with all workers spawned -/
def init (queues : List (List Nat)) : ExSt :=
  { queues := queues, active := queues.length, stateLock := none,
    qlock := List.replicate queues.length none, pcs := List.replicate queues.length .top, solved := [] }

/-- `thread_count = max(min(items, threads), 1)` -/
def threadCount (items threads : Nat) : Nat := max (min items threads) 1

/-- execute a schedule (a list of worker ids); steps of workers that are not enabled are skipped -/
def exec (bal : Nat → List (List Nat) → List (List Nat)) (s : ExSt) : List Nat → ExSt
  | [] => s
  | i :: rest => match step bal s i with
    | some s' => exec bal s' rest
    | none => exec bal s rest

def allDone (s : ExSt) : Bool := s.pcs.all (· == .done)
def enabled (bal : Nat → List (List Nat) → List (List Nat)) (s : ExSt) : List Nat :=
  (List.range s.pcs.length).filter (fun i => (step bal s i).isSome)

/-- the reference `balance`: all items of the first `active` queues, dealt round-robin (item k to queue k mod active);
    the order in which the real function deals them depends on hash-map iteration, the sizes do not -/
def dealAux (active : Nat) : List Nat → Nat → List (List Nat) → List (List Nat)
  | [], _, qs => qs
  | x :: xs, k, qs => dealAux active xs (k + 1) (qs.set (k % active) ((qs[k % active]?.getD []) ++ [x]))
def balanceRef (active : Nat) (qs : List (List Nat)) : List (List Nat) :=
  if active = 0 then qs else
  let items := (qs.take active).flatten
  let cleared := (List.replicate (min active qs.length) ([] : List Nat)) ++ qs.drop active
  dealAux active items 0 cleared

end TB.Exec
