/-
  TB.Model.Torrent — model of src/torrent/torrent.rs (Torrent::from_bytes) and src/torrent/info.rs.

  `H` is the hash function (SHA-1 in the driver, a parameter in every theorem).
  Rust `String`s are kept as the byte strings they were validated from (`utf8Valid`).
-/
import TB.Model.Bencode
namespace TB

/-! ### std::str::from_utf8 (well-formed UTF-8, Unicode Table 3-7) -/

@[inline] def isCont (b : UInt8) : Bool := 0x80 ≤ b && b ≤ 0xBF

def utf8Valid : Bytes → Bool
  | [] => true
  | b0 :: rest =>
    if b0 ≤ 0x7F then utf8Valid rest
    else if 0xC2 ≤ b0 && b0 ≤ 0xDF then
      match rest with
      | b1 :: r => isCont b1 && utf8Valid r
      | _ => false
    else if 0xE0 ≤ b0 && b0 ≤ 0xEF then
      match rest with
      | b1 :: b2 :: r =>
        let ok1 := if b0 == 0xE0 then 0xA0 ≤ b1 && b1 ≤ 0xBF
                   else if b0 == 0xED then 0x80 ≤ b1 && b1 ≤ 0x9F
                   else isCont b1
        ok1 && isCont b2 && utf8Valid r
      | _ => false
    else if 0xF0 ≤ b0 && b0 ≤ 0xF4 then
      match rest with
      | b1 :: b2 :: b3 :: r =>
        let ok1 := if b0 == 0xF0 then 0x90 ≤ b1 && b1 ≤ 0xBF
                   else if b0 == 0xF4 then 0x80 ≤ b1 && b1 ≤ 0x8F
                   else isCont b1
        ok1 && isCont b2 && isCont b3 && utf8Valid r
      | _ => false
    else false

/-! ### data -/

/-- `File` -/
structure FileRec where
  length : Nat
  path : List Bytes
deriving Repr, DecidableEq, Inhabited

/-- `Info` -/
structure Info where
  name : Bytes
  length : Option Nat
  files : Option (List FileRec)
  pieceLength : Nat
  pieces : List Bytes
deriving Repr, DecidableEq, Inhabited

/-- `Torrent` -/
structure Torrent where
  info : Info
  infoHash : Bytes
deriving Repr, DecidableEq, Inhabited

/-! ### keys -/
def kInfo : Bytes := "info".toUTF8.toList
def kName : Bytes := "name".toUTF8.toList
def kNameUtf8 : Bytes := "name.utf-8".toUTF8.toList
def kPieces : Bytes := "pieces".toUTF8.toList
def kPieceLength : Bytes := "piece length".toUTF8.toList
def kLength : Bytes := "length".toUTF8.toList
def kFiles : Bytes := "files".toUTF8.toList
def kPath : Bytes := "path".toUTF8.toList
def kPathUtf8 : Bytes := "path.utf-8".toUTF8.toList

/-- a plain file name: non-empty, not `.` or `..`, no `/` — what the loader requires of the
    torrent name and of every path component (the refusal C10 permits and C03 needs). -/
def plainComponent (s : Bytes) : Bool :=
  !s.isEmpty && s != [46] && s != [46, 46] && !s.contains 47

/-- `u64::try_from(i128)` -/
def toU64 (v : Int) : Option Nat := if 0 ≤ v ∧ v ≤ (u64Max : Int) then some v.toNat else none

/-- `slice.chunks(20)` of a string whose length is a multiple of 20 -/
def chunks20 : Nat → Bytes → List Bytes
  | 0, _ => []
  | n+1, bs => if bs.isEmpty then [] else bs.take 20 :: chunks20 n (bs.drop 20)

/-- path list → strings: every entry must be a string token holding valid UTF-8 -/
def pathStrings : List Tok → Option (List Bytes)
  | [] => some []
  | .str t :: rest =>
    if utf8Valid t.val then
      match pathStrings rest with
      | some ps => some (t.val :: ps)
      | none => none
    else none
  | _ :: _ => none

/-- `evaluate_file` -/
def evaluateFile (ks : List StrTok) (vs : List Tok) : Res FileRec :=
  match findInt ks vs kLength with
  | none => .err
  | some lv =>
    match toU64 lv with
    | none => .err
    | some length =>
      let paths := match findList ks vs kPathUtf8 with
        | some l => some l
        | none => findList ks vs kPath
      match paths with
      | none => .err
      | some items =>
        match pathStrings items with
        | none => .err
        | some ps =>
          if ps.isEmpty then .err
          else if !ps.all plainComponent then .err
          else .ok ⟨length, ps⟩

/-- `evaluate_files` -/
def evaluateFiles : List Tok → Res (List FileRec)
  | [] => .ok []
  | .dict ks vs _ _ :: rest =>
    match evaluateFile ks vs with
    | .ok f =>
      match evaluateFiles rest with
      | .ok fs => .ok (f :: fs)
      | .err => .err
      | .panic => .panic
    | .err => .err
    | .panic => .panic
  | _ :: _ => .err

/-- `validate_piece_count_against_hash_count`: hash count = ⌈total / piece length⌉, computed in 128 bits;
    piece length 0 admits only total 0 (and then no hash). -/
def pieceCountOk (total pieceLength nHashes : Nat) : Bool :=
  if pieceLength = 0 then total = 0 && nHashes = 0
  else nHashes = (total + pieceLength - 1) / pieceLength

/-- `evaluate_info` -/
def evaluateInfo (ks : List StrTok) (vs : List Tok) : Res Info :=
  let name := match findStr ks vs kNameUtf8 with
    | some n => some n
    | none => findStr ks vs kName
  match name with
  | none => .err
  | some name =>
    if !utf8Valid name then .err
    else if !plainComponent name then .err
    else
    match findStr ks vs kPieces with
    | none => .err
    | some pieces =>
      if pieces.length % 20 != 0 then .err else
      let hashes := chunks20 (pieces.length / 20 + 1) pieces
      match findInt ks vs kPieceLength with
      | none => .err
      | some plv =>
        match toU64 plv with
        | none => .err
        | some pieceLength =>
          let length := findInt ks vs kLength
          let files := findList ks vs kFiles
          match length, files with
          | some _, some _ => .err
          | none, none => .err
          | some lv, none =>
            match toU64 lv with
            | none => .err
            | some l =>
              if pieceCountOk l pieceLength hashes.length
              then .ok ⟨name, some l, none, pieceLength, hashes⟩ else .err
          | none, some items =>
            match evaluateFiles items with
            | .err => .err
            | .panic => .panic
            | .ok fs =>
              if fs.isEmpty then .err
              else if pieceCountOk ((fs.map (·.length)).sum) pieceLength hashes.length
              then .ok ⟨name, none, some fs, pieceLength, hashes⟩ else .err

/-- `bytes[a..b]`; out of range panics -/
def sliceRes (inp : Bytes) (a b : Nat) : Res Bytes :=
  if a ≤ b ∧ b ≤ inp.length then .ok ((inp.drop a).take (b - a)) else .panic

/-- `Torrent::from_bytes` -/
def load (H : Bytes → Bytes) (inp : Bytes) : Res Torrent :=
  match decode inp with
  | .err => .err
  | .panic => .panic
  | .ok (.dict rks rvs _ _) =>
    match findDict rks rvs kInfo with
    | none => .err
    | some (iks, ivs, s, c) =>
      match sliceRes inp s c with
      | .ok infoBytes =>
        match evaluateInfo iks ivs with
        | .ok info => .ok ⟨info, H infoBytes⟩
        | .err => .err
        | .panic => .panic
      | .err => .err
      | .panic => .panic
  | .ok _ => .err

/-- `get_sha1_hexdigest` -/
def hexDigit (n : Nat) : UInt8 := if n < 10 then UInt8.ofNat (48 + n) else UInt8.ofNat (87 + n)
def hex : Bytes → Bytes
  | [] => []
  | b :: bs => hexDigit (b.toNat / 16) :: hexDigit (b.toNat % 16) :: hex bs

end TB
