/-
  TB.Check.Run — decidable checkers of the run-level properties, evaluated on what the IMPLEMENTATION did
  (its operation log, counters, per-piece outcomes and final tree), given the world it ran on.

  Ground truth (`RunReq.truth`) is self-certifying: it is only used when, for every piece, the truth bytes
  of its segments concatenate to a buffer whose hash is the piece hash (`truthCertified`) — so "equals the
  truth" means "is the byte of a hash-matching buffer at the offset the layout assigns".
-/
import TB.ProtoRun
import TB.Model.Run
namespace TB.Check
open TB TB.Proto

def sliceB (b : Bytes) (off len : Nat) : Bytes := (b.drop off).take len

structure Ctx where
  H : Bytes → Bytes
  req : RunReq
  before : Fs
  table : List TEntry
  work : List Work
  obs : RunObs
  exportDir : Path
  roots : List Path            -- export subtrees <export>/<hex(info-hash)> of the loaded torrents

def Ctx.truthOf (c : Ctx) (id : Nat) : Option Bytes := (c.req.truth.find? (fun e => e.1 == id)).map (·.2)
def Ctx.afterOf (c : Ctx) (p : Path) : Option Bytes := (c.obs.files.find? (fun e => e.1 == p)).map (·.2)
def Ctx.beforeOf (c : Ctx) (p : Path) : Option Bytes := (c.before.inoOf p).map c.before.content
def Ctx.entryAt (c : Ctx) (p : Path) : Option TEntry := c.table.find? (fun e => !e.isPad && e.fullTarget == p)

def truthBuffer (c : Ctx) (w : Work) : Option Bytes :=
  (w.segs.mapM (fun s => (c.truthOf s.ent.id).map (fun t => sliceB t s.off s.len))).map List.flatten

def truthCertified (c : Ctx) : Bool :=
  !c.req.truth.isEmpty && c.work.all (fun w => match truthBuffer c w with
    | some buf => c.H buf == w.hash && buf.length == (w.segs.map (·.len)).sum
    | none => false)

/-- does piece `w` verify in a tree (given as path ↦ content)? reads must be full-length -/
def verifiesIn (c : Ctx) (content : Path → Option Bytes) (strict : Bool) (w : Work) : Bool :=
  match w.segs.mapM (fun s =>
      if s.ent.isPad then some (List.replicate s.len 0)
      else match content s.ent.fullTarget with
        | some b => if s.off + s.len ≤ b.length && (!strict || b.length == s.ent.fileLength) then some (sliceB b s.off s.len) else none
        | none => none) with
  | some parts => c.H parts.flatten == w.hash
  | none => false

def isPrefix (a b : Path) : Bool := a.length ≤ b.length && b.take a.length == a

def underRoots (c : Ctx) (p : Path) : Bool := c.roots.any (fun r => isPrefix r p && r.length < p.length)

def okOps (c : Ctx) : List Op := c.obs.ops.filter (·.ok)

/-! C16 -/
def checkC16 (c : Ctx) : List String :=
  if ["panic", "abort", "timeout"].contains c.obs.result then ["c16-" ++ c.obs.result] else []

/-! C01: every write stores truth bytes at the layout's offset; every export byte afterwards is old, zero-extension or truth -/
def checkC01 (c : Ctx) : List String :=
  if !truthCertified c then [] else
  let badWrite := (okOps c).any (fun o => match o.kind with
    | .write off data => match c.entryAt o.path with
      | some e => match c.truthOf e.id with
        | some t => !(off + data.length ≤ e.fileLength && sliceB t off data.length == data)
        | none => true
      | none => true
    | _ => false)
  let badByte := c.table.any (fun e => !e.isPad && match c.afterOf e.fullTarget, c.truthOf e.id with
    | some a, some t =>
      let old := (c.beforeOf e.fullTarget).getD []
      (List.range a.length).any (fun k =>
        let x := a[k]!
        !((k < old.length && old[k]! == x) || (k ≥ old.length && x == 0) || (k < t.length && t[k]! == x)))
    | _, _ => false)
  (if badWrite then ["c01-write"] else []) ++ (if badByte then ["c01-bytes"] else [])

/-! C12: mutating operations name export images of non-padding torrent files only; lengths; no other files -/
def checkC12 (c : Ctx) : List String :=
  let badOp := c.obs.ops.any (fun o => match o.kind with
    | .openc | .write _ _ => (c.entryAt o.path).isNone
    | .setlen n => match c.entryAt o.path with | some e => n != e.fileLength | none => true
    | .mkdirs => !(c.table.any (fun e => !e.isPad && e.fullTarget.dropLast == o.path))
    | .openrw => (c.entryAt o.path).isNone
    | _ => false)
  let extraFile := c.obs.files.any (fun f => (c.beforeOf f.1).isNone && (c.entryAt f.1).isNone)
  let extraDir := c.obs.dirs.any (fun d => !c.before.isDir d && !(c.table.any (fun e => !e.isPad && isPrefix d e.fullTarget.dropLast)))
  let badLen := (okOps c).any (fun o => match o.kind with
    | .write _ _ => match c.entryAt o.path, c.afterOf o.path with
      | some e, some a => a.length != e.fileLength
      | _, _ => true
    | _ => false)
    -- an image that received bytes from a write that then failed (disk full) has been written too
    || c.req.partialPaths.any (fun p => match c.entryAt p, c.afterOf p with
      | some e, some a => a.length != e.fileLength
      | _, _ => true)
  let shared := c.table.any (fun e => !e.isPad && c.table.any (fun f => !f.isPad && f.infoHash != e.infoHash && f.fullTarget == e.fullTarget))
  let twoFiles := c.table.any (fun e => !e.isPad && c.table.any (fun f => !f.isPad && f.id != e.id && f.fullTarget == e.fullTarget)
      && c.obs.ops.any (fun o => o.kind.mutating && o.path == e.fullTarget))
  (if twoFiles then ["c12-image-of-two-files"] else []) ++
  (if badOp then ["c12-op-path"] else []) ++ (if extraFile then ["c12-extra-file"] else []) ++
  (if extraDir then ["c12-extra-dir"] else []) ++ (if badLen then ["c12-length"] else []) ++
  (if shared then ["c12-shared-target"] else [])

/-! C03: nothing outside the export subtrees of the loaded torrents is touched -/
def checkC03 (c : Ctx) : List String :=
  let outsideOp := c.obs.ops.any (fun o => match o.kind with
    | .openc | .write _ _ | .setlen _ | .openrw => !(c.roots.any (fun r => isPrefix (r ++ [sData]) o.path && r.length + 1 < o.path.length))
    | .mkdirs => !(c.roots.any (fun r => isPrefix r o.path))
    | _ => false)
  let changed := c.before.files.any (fun f => !underRoots c f.1 && c.afterOf f.1 != some (c.before.content f.2))
    || c.obs.files.any (fun f => !underRoots c f.1 && (c.beforeOf f.1).isNone)
    || c.before.dirs.any (fun d => !underRoots c d && !c.obs.dirs.contains d)
    || c.obs.dirs.any (fun d => !underRoots c d && !c.roots.contains d && !c.before.isDir d)
  -- a `.`/`..`/empty component or a separator inside a component lets the OS resolve the path somewhere else
  let dots := c.obs.ops.any (fun o => (o.kind.mutating || o.kind == .openrw) &&
    (o.path.drop c.exportDir.length).any (fun comp => comp == [46] || comp == [46, 46] || comp.isEmpty || comp.contains 47))
  (if outsideOp then ["c03-outside-op"] else []) ++ (if changed then ["c03-outside-changed"] else []) ++
  (if dots then ["c03-unresolved-component"] else [])

/-! C04: verified export data is neither lost nor rewritten -/
def rangesOverlap (a alen b blen : Nat) : Bool := a < b + blen && b < a + alen

def checkC04 (c : Ctx) : List String :=
  let lost := c.work.any (fun w => verifiesIn c c.beforeOf false w && !verifiesIn c c.afterOf false w)
  let strictBefore := c.work.filter (verifiesIn c c.beforeOf true)
  let rewritten := (okOps c).any (fun o => match o.kind with
    | .write off data => strictBefore.any (fun w => w.segs.any (fun s =>
        !s.ent.isPad && s.ent.fullTarget == o.path && s.len > 0 && data.length > 0 && rangesOverlap off data.length s.off s.len))
    | _ => false)
  let idle := !c.work.isEmpty && strictBefore.length == c.work.length && c.obs.ops.any (fun o => o.kind.mutating)
  (if lost then ["c04-lost"] else []) ++ (if rewritten then ["c04-rewritten"] else []) ++ (if idle then ["c04-not-idle"] else [])

/-! C15: counters -/
def checkC15 (c : Ctx) : List String :=
  if c.obs.result != "ok" then [] else
  let n := c.work.length
  let sums := c.obs.counters.map (fun k => k.success + k.failed + k.fault)
  let badSum := c.obs.total != n && !(n == 0 && c.obs.total == 0) || c.obs.counters.length != n || sums != (List.range n).map (· + 1)
  -- per-piece: outcome k belongs to the k-th observed piece
  let pieces := (c.req.order.zip c.req.outcomes).filterMap (fun (sig, oc) => (c.work.find? (fun w => workSig w == sig)).map (fun w => (w, oc)))
  let unsound := pieces.any (fun (w, oc) => oc == "found" && !verifiesIn c c.afterOf false w)
  -- an image of exactly the declared length holding the piece — or, with the resize flag, a shorter image holding it:
  -- the pre-flight extends it and it then counts as a source (C14)
  let incomplete := c.req.faults.isEmpty && pieces.any (fun (w, oc) => oc != "found" && verifiesIn c c.beforeOf (!c.req.resize) w)
  let finalC := c.obs.counters.getLast?.getD ⟨0, 0, 0⟩
  let tally := pieces.length == n &&
    (finalC.success != (pieces.filter (·.2 == "found")).length || finalC.failed != (pieces.filter (·.2 == "notfound")).length
      || finalC.fault != (pieces.filter (·.2 == "fault")).length)
  (if badSum then ["c15-sum"] else []) ++ (if unsound then ["c15-success-unverified"] else []) ++
  (if incomplete then ["c15-verified-not-success"] else []) ++ (if tally then ["c15-tally"] else [])

/-! C02: availability oracle, computed from the initial tree and the ground truth only -/
def availableSeg (c : Ctx) (s : WSeg) : Bool :=
  if s.ent.isPad || s.len == 0 then true else
  match c.truthOf s.ent.id with
  | none => false
  | some t =>
    let want := sliceB t s.off s.len
    c.before.files.any (fun f =>
      let b := c.before.content f.2
      b.length == s.ent.fileLength && sliceB b s.off s.len == want &&
      -- reachable: below an (absolute) scan directory, or at the export location of a torrent file of this length
      (c.req.scan.any (fun d => d.absolute && isPrefix d.path f.1 && d.path.length < f.1.length)
        || c.table.any (fun x => !x.isPad && x.fullTarget == f.1 && x.fileLength == b.length)) &&
      -- stable during the run: outside every export subtree, or an export image that already holds its own
      -- torrent's bytes on this range (so that a rewrite stores the same bytes)
      (!underRoots c f.1 || match c.entryAt f.1 with
        | some x => x.fileLength == b.length && (match c.truthOf x.id with
            | some tx => sliceB tx s.off s.len == want
            | none => false)
        | none => true))

def checkC02 (c : Ctx) : List String :=
  if !truthCertified c || !c.req.faults.isEmpty || c.obs.result != "ok" then [] else
  let missed := c.work.any (fun w => w.segs.all (availableSeg c) && !verifiesIn c c.afterOf false w)
  if missed then ["c02-not-recovered"] else []

/-! C14: resize pre-flight -/
def checkC14 (c : Ctx) : List String :=
  let overlong := c.table.any (fun e => !e.isPad && match c.beforeOf e.fullTarget with
    | some b => b.length > e.fileLength | none => false)
  -- (whatever operations fail: everything up to the end of the first pass is read-only, and no failure lets the
  --  first pass accept an over-long image)
  let a := if c.req.resize && overlong &&
      (c.obs.result != "err" || c.obs.ops.any (fun o => o.kind.mutating) || c.obs.files.any (fun f => c.beforeOf f.1 != some f.2)
        || c.before.files.any (fun f => (c.afterOf f.1).isNone))
    then ["c14-overlong-not-aborted"] else []
  -- an image shared by two torrent files (duplicate path, known finding D6) has no single declared length
  let sharedImage := fun (e : TEntry) => c.table.any (fun f => !f.isPad && f.id != e.id && f.fullTarget == e.fullTarget)
  let b := if c.req.resize && !overlong && c.req.faults.isEmpty && c.obs.result == "ok" &&
      c.table.any (fun e => !e.isPad && !sharedImage e && match c.beforeOf e.fullTarget, c.afterOf e.fullTarget with
        | some old, some new => old.length < e.fileLength &&
            (new.length != e.fileLength || (List.range new.length).any (fun k =>
              let x := new[k]!
              !((k < old.length && old[k]! == x) || (k ≥ old.length && x == 0)
                || (match c.truthOf e.id with | some t => k < t.length && t[k]! == x | none => false))))
        | some _, none => true
        | _, _ => false)
    then ["c14-not-extended"] else []
  let d := if !c.req.resize && c.table.any (fun e => !e.isPad && match c.beforeOf e.fullTarget, c.afterOf e.fullTarget with
        | some old, some new => old.length != new.length && !(okOps c).any (fun o => o.path == e.fullTarget && match o.kind with | .write _ _ => true | _ => false)
        | _, _ => false)
    then ["c14-length-changed"] else []
  a ++ b ++ d

/-! C13: an injected I/O failure inside piece evaluation leaves the run returning normally with every piece accounted for -/
def checkC13 (c : Ctx) (setupOps : Nat) : List String :=
  if c.req.faults.any (· < setupOps) then [] else
  if c.req.faults.isEmpty then
    (if (c.req.outcomes.zip c.req.pieceFailedOp).any (fun (oc, failed) => failed && oc != "fault" && oc != "inflight") then ["c13-failure-not-counted"] else [])
  else
  let finalC := c.obs.counters.getLast?.getD ⟨0, 0, 0⟩
  (if c.obs.result != "ok" then ["c13-run-failed"] else []) ++
  (if c.obs.result == "ok" && finalC.success + finalC.failed + finalC.fault != c.work.length then ["c13-piece-lost"] else []) ++
  (if finalC.fault > c.req.faults.length then ["c13-spread"] else []) ++
  -- a piece during whose evaluation a file operation failed must be counted as faulted (C13_found_all_ok)
  (if (c.req.outcomes.zip c.req.pieceFailedOp).any (fun (oc, failed) => failed && oc != "fault") then ["c13-failure-not-counted"] else [])

/-! C11: the tree at an emulated crash -/

/-- effect of one logged operation (as in TB.Props.C11.applyOp) -/
def applyOpC (fs : Fs) (o : Op) : Fs :=
  match o.kind with
  | .mkdirs => if o.ok then (fs.mkdirs o.path).1 else fs
  | .openc => if o.ok then (fs.openCreate o.path).1 else fs
  | .setlen n => if o.ok then (match fs.look o.path with | .file i => fs.setLen i n | _ => fs) else fs
  | .write off d => if o.ok then (match fs.look o.path with | .file i => fs.writeAt i off d | _ => fs) else fs
  | _ => fs

/-- the part of mutating operation `o` that precedes a crash after `j` units (bytes of a write, directories of a
    create_dir_all) -/
def applyPartial (fs : Fs) (o : Op) (j : Nat) : Fs :=
  match o.kind with
  | .write off d => (match fs.look o.path with | .file i => if j == 0 then fs else fs.writeAt i off (d.take j) | _ => fs)
  | .mkdirs =>
    let missing := ((Fs.properPrefixes o.path ++ [o.path]).filter (fun q => !fs.isDir q)).take j
    { fs with dirs := missing.reverse ++ fs.dirs }
  | _ => fs

/-- tree after the first `k` mutating operations and `j` units of the next one; also returns the log prefix -/
def crashState : Fs → List Op → Nat → Nat → List Op → Fs × List Op
  | fs, [], _, _, acc => (fs, acc)
  | fs, o :: os, k, j, acc =>
    if o.kind.mutating then
      if k == 0 then (applyPartial fs o j, acc)
      else crashState (applyOpC fs o) os (k - 1) j (acc ++ [o])
    else crashState (applyOpC fs o) os k j (acc ++ [o])

def checkC11 (c : Ctx) : List String :=
  let bytes := (checkC01 c).filter (· == "c01-bytes")
  let outside := (checkC03 c).filter (· == "c03-outside-changed")
  let lost := c.work.any (fun w => verifiesIn c c.beforeOf true w && !verifiesIn c c.afterOf false w)
  (if bytes.isEmpty then [] else ["c11-bytes"]) ++ (if outside.isEmpty then [] else ["c11-outside"]) ++
  (if lost then ["c11-lost"] else [])

def checkRun (H : Bytes → Bytes) (r : RunReq) (inp : RunIn) (out : RunOut) (i : RunObs) : List String :=
  let torrents := dedupTorrents (sortTorrents inp.torrents)
  let c : Ctx := { H := H, req := r, before := inp.fs, table := out.table, work := out.work, obs := i,
                   exportDir := inp.exportDir.path, roots := torrents.map (fun t => inp.exportDir.path ++ [hex t.infoHash]) }
  if r.crash.isSome then checkC11 c else
  checkC16 c ++ checkC01 c ++ checkC12 c ++ checkC03 c ++ checkC04 c ++ checkC15 c ++ checkC02 c ++ checkC14 c ++ checkC13 c out.setupOps

end TB.Check
