/-
  TB.Streams — per-stream request handlers of the driver.
-/
import TB.Proto
import TB.Model.Sha1
import TB.Spec.BencodeSpec
import TB.Spec.LayoutSpec
import TB.Spec.MetainfoSpec
import TB.Spec.MetainfoLax
namespace TB.Streams
open TB TB.Proto

def splitBar (ts : List String) : List String × List String :=
  (ts.takeWhile (· != "|"), (ts.dropWhile (· != "|")).drop 1)

def verdict (agree : Bool) (fails : List String) (modelObs : String) : String :=
  (if agree then "agree " else "DISAGREE ") ++
  (if fails.isEmpty then "prop-ok " else "PROPFAIL:" ++ ",".intercalate fails ++ " ") ++ modelObs

/-! ### stream `dec`: Parser::decode -/

def decObs (r : Res Tok) : String :=
  match r with
  | .ok t => unwords ("ok" :: showTok t)
  | .err => "err"
  | .panic => "panic"

def handleDec (inp : Bytes) (obs : List String) : String :=
  let m := decode inp
  let mObs := decObs m
  let iObs := unwords obs
  let fails : List String :=
    match obs with
    | "ok" :: rest =>
      match pTokTree (rest.length + 1) rest with
      | some (t, []) =>
        (if canon (erase t) then [] else ["c08-canon"]) ++
        (if encode (erase t) == inp then [] else ["c08-reencode"]) ++
        (if spansExact inp t && t.start == 0 && t.cont == inp.length then [] else ["c08-spans"])
      | _ => ["c08-unparsable-observation"]
    | ["err"] =>
      match m with
      | .ok t => if checkAccepted inp t then ["c08-rejects-canonical"] else []
      | _ => []
    | ["panic"] => ["c09-panic"]
    | ["abort"] => ["c09-abort"]
    | ["timeout"] => ["c09-timeout"]
    | _ => ["c08-unparsable-observation"]
  verdict (iObs == mObs) fails mObs

/-! ### stream `load`: Torrent::from_bytes + Pieces::from_torrent -/

def fileLens (t : Torrent) : List Nat :=
  match t.info.length, t.info.files with
  | some l, _ => [l]
  | none, some fs => fs.map (·.length)
  | none, none => []

def piecesObs (t : Torrent) : String :=
  match constructPieces t.info.pieceLength t.info.length (t.info.files.map (·.map (·.length))) t.info.pieces with
  | some ps => unwords ("ok" :: showPieces ps)
  | none => "panic"

def loadObs (r : Res Torrent) : String :=
  match r with
  | .ok t => unwords ("ok" :: showTorrent t) ++ " PIECES " ++ piecesObs t
  | .err => "err"
  | .panic => "panic"

def handleLoad (inp : Bytes) (obs : List String) : String :=
  let m := load Sha1.sha1 inp
  let mObs := loadObs m
  let iObs := unwords obs
  -- the specification's verdict, computed from the denoted value only
  let dv : Option BVal := match decode inp with | .ok t => some (erase t) | _ => none
  let spec : Option Torrent := dv.bind (specLoad Sha1.sha1)          -- strict: plain names required
  let specLax : Option Torrent := dv.bind (specLoadLax Sha1.sha1)    -- refusal of non-plain names is optional (C10)
  let fails : List String :=
    match obs with
    | "ok" :: rest =>
      match pTorrent rest with
      | some (t, "PIECES" :: prest) =>
        (match specLax with
         | none =>
           -- a document the specification refuses was loaded: is the reported info-hash at least the SHA-1 of SOME
           -- dictionary-shaped slice of the input? (inputs of a few hundred bytes only: the search is quadratic)
           ["c10-loads-illformed"] ++
           (if inp.length ≤ 400 &&
               !((List.range inp.length).any (fun a => inp[a]! == 100 &&
                 (List.range (inp.length - a)).any (fun k =>
                   let b := a + k + 1
                   inp[b - 1]! == 101 && Sha1.sha1 ((inp.drop a).take (b - a)) == t.infoHash)))
            then ["c07-infohash"] else [])
         | some st =>
           (if st.info == t.info then [] else ["c10-fields"]) ++
           (if st.infoHash == t.infoHash then [] else ["c07-infohash"]) ++
           (if spec.isNone then ["c03-nonplain-loaded"] else [])) ++
        (match prest with
         | "ok" :: ps =>
           match pPieces ps with
           | some (ps, []) =>
             (if checkLayout t.info.pieceLength (fileLens t) t.info.pieces ps then [] else ["c06-layout"]) ++
             -- every byte of every file belongs to some piece: the piece lengths add up to the total length
             (if (ps.map (·.len)).sum == (fileLens t).sum then [] else ["c06-coverage"])
           | _ => ["c06-unparsable-observation"]
         | _ => ["c06-panic", "c09-layout-panic"])
      | _ => ["c10-unparsable-observation"]
    | ["err"] => if spec.isSome then ["c10-rejects-wellformed"] else []
    | ["panic"] => ["c09-panic"]
    | ["abort"] => ["c09-abort"]
    | ["timeout"] => ["c09-timeout"]
    | _ => ["c10-unparsable-observation"]
  verdict (iObs == mObs) fails mObs

/-! ### stream `hex`: get_sha1_hexdigest -/
def handleHex (inp : Bytes) (obs : List String) : String :=
  let mObs := hexOf (hex inp)
  let good := (hex inp).length == 2 * inp.length && (hex inp).all (fun c => isDigit c || (97 ≤ c && c ≤ 102))
  verdict (unwords obs == mObs) (if unwords obs == mObs && good then [] else ["c07-hex"]) mObs

/-! ### stream `sha1`: digest cross-check of the Lean SHA-1 against the `sha1` crate -/
def handleSha1 (inp : Bytes) (obs : List String) : String :=
  let mObs := hexOf (Sha1.sha1 inp)
  verdict (unwords obs == mObs) [] mObs

/-! ### stream `decq`: Parser::decode, verdict only (ok / err) — for inputs on which rendering and re-checking the whole
     tree would be too slow (nesting over a thousand levels deep) -/
def handleDecq (inp : Bytes) (obs : List String) : String :=
  let mObs := match decode inp with | .ok _ => "ok" | .err => "err" | .panic => "panic"
  let fails : List String :=
    match obs, mObs with
    | ["ok"], "err" => ["c08-accepts-noncanonical"]
    | ["err"], "ok" => ["c08-rejects-canonical"]
    | ["panic"], _ => ["c09-panic"]
    | ["abort"], _ => ["c09-abort"]
    | ["timeout"], _ => ["c09-timeout"]
    | _, _ => []
  verdict (unwords obs == mObs) fails mObs

/-! ### stream `par`: the same document decoded and loaded on several threads at once must give, on every thread, what a
     single call gives (the entry points are functions of their argument). The harness answers `same <verdict>` or `differs`. -/
def handlePar (inp : Bytes) (obs : List String) : String :=
  let v := match load Sha1.sha1 inp with | .ok _ => "ok" | .err => "err" | .panic => "panic"
  let mObs := "same " ++ v
  let fails : List String :=
    match obs with
    | "differs" :: _ => ["c08-not-a-function-of-the-input"]
    | ["panic"] => ["c09-panic"]
    | ["abort"] => ["c09-abort"]
    | ["timeout"] => ["c09-timeout"]
    | _ => []
  verdict (unwords obs == mObs) fails mObs

def answer (line : String) : String :=
  let ts := (line.splitOn " ").filter (· != "")
  let (req, obs) := splitBar ts
  match req with
  | ["dec", h] => match unhex h with
    | some inp => handleDec inp obs
    | none => "bad-request"
  | ["load", h] => match unhex h with
    | some inp => handleLoad inp obs
    | none => "bad-request"
  | ["decq", h] => match unhex h with
    | some inp => handleDecq inp obs
    | none => "bad-request"
  | ["par", h] => match unhex h with
    | some inp => handlePar inp obs
    | none => "bad-request"
  | ["hex", h] => match unhex h with
    | some inp => handleHex inp obs
    | none => "bad-request"
  | ["sha1", h] => match unhex h with
    | some inp => handleSha1 inp obs
    | none => "bad-request"
  | _ => "bad-request"

end TB.Streams
