/-
  tbmodel — line-protocol driver. One request per line on stdin, one answer per line on stdout:
      <stream> <input tokens> | <implementation's observation tokens>
  answer
      <agree|DISAGREE> <prop-ok|PROPFAIL:clause[,clause]> <model's observation>
  `agree`    : the implementation's observation equals the model's (canonical rendering).
  `prop-ok`  : the implementation's own observation satisfies the decidable checker of the property
               (TB.Spec.*), evaluated on what the implementation did, not on what the model did.
-/
import TB.Proto
import TB.Model.Sha1
import TB.Spec.BencodeSpec
import TB.Spec.LayoutSpec
import TB.Spec.MetainfoSpec
import TB.Streams
import TB.StreamsRun
import TB.StreamsExec
open TB TB.Proto

partial def loop (h : IO.FS.Stream) (out : IO.FS.Stream) : IO Unit := do
  let line ← h.getLine
  if line.isEmpty then return ()
  let l := line.trimAscii.toString
  if !l.isEmpty then
    let ts := (l.splitOn " ").filter (· != "")
    match ts with
    | "run" :: rest =>
      let (req, obs) := TB.Streams.splitBar rest
      out.putStrLn (TB.Streams.handleRun req obs)
    | "exec" :: rest =>
      let (req, obs) := TB.Streams.splitBar rest
      out.putStrLn (TB.Streams.handleExec req obs)
    | _ => out.putStrLn (TB.Streams.answer l)
  loop h out

def main : IO Unit := do
  let out ← IO.getStdout
  loop (← IO.getStdin) out
  out.flush
