//! Text encoding shared with TB/Proto.lean: space-separated tokens, lowercase hex byte strings (`-` = empty).

pub fn hex(bytes: &[u8]) -> String {
    if bytes.is_empty() {
        return "-".to_string();
    }
    let mut s = String::with_capacity(bytes.len() * 2);
    for b in bytes {
        s.push(char::from_digit((*b >> 4) as u32, 16).unwrap());
        s.push(char::from_digit((*b & 15) as u32, 16).unwrap());
    }
    s
}

pub fn unhex(s: &str) -> Option<Vec<u8>> {
    if s == "-" {
        return Some(Vec::new());
    }
    let cs: Vec<char> = s.chars().collect();
    if cs.len() % 2 != 0 {
        return None;
    }
    let mut out = Vec::with_capacity(cs.len() / 2);
    for pair in cs.chunks(2) {
        let a = pair[0].to_digit(16)?;
        let b = pair[1].to_digit(16)?;
        out.push((a * 16 + b) as u8);
    }
    Some(out)
}
