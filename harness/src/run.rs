//! `tbh run`: one whole-world run of `torrent_bootstrap::start()` under the fs controller.
//!
//!   tbh run --export <dir> [--scan <dir>]... [--torrent <file>]... [--threads n] [--resize]
//!           [--fault i]... [--crash k,j] [--partial k,j] [--sched seed | --sched-fs seed]
//!
//! The world (directories, files, hard links, .torrent files) is laid out on disk by the driver beforehand.
//! stdout carries the tool's own progress lines, then the controller's log (`LOG ...`), the load results
//! (`LOADED i ok|err`) and finally `RESULT ok|err|panic`. An emulated crash aborts the process after
//! printing the log (see verif_shim::ctl::crash).

use std::panic::{catch_unwind, AssertUnwindSafe};
use std::path::PathBuf;
use torrent_bootstrap::verif_shim::ctl;
use torrent_bootstrap::{OrchestratorOptions, Torrent};

pub fn main(args: &[std::ffi::OsString]) -> i32 {
    let text = |i: usize| -> String { args[i].to_string_lossy().into_owned() };
    let mut export = PathBuf::new();
    let mut scan: Vec<PathBuf> = Vec::new();
    let mut torrents: Vec<PathBuf> = Vec::new();
    let mut threads = 1usize;
    let mut resize = false;
    let mut config = ctl::Config::default();
    let mut sched_seed: Option<u64> = None;
    let mut sched_fs_seed: Option<u64> = None;
    let mut i = 0;
    while i < args.len() {
        match text(i).as_str() {
            "--export" => { export = PathBuf::from(&args[i + 1]); i += 2; }
            "--scan" => { scan.push(PathBuf::from(&args[i + 1])); i += 2; }
            "--torrent" => { torrents.push(PathBuf::from(&args[i + 1])); i += 2; }
            "--threads" => { threads = text(i + 1).parse().unwrap(); i += 2; }
            "--resize" => { resize = true; i += 1; }
            "--fault" => { config.faults.push(text(i + 1).parse().unwrap()); i += 2; }
            "--meta-fault" => { config.meta_faults.push(text(i + 1).parse().unwrap()); i += 2; }
            "--partial" => {
                let pair = text(i + 1);
                let mut it = pair.split(',');
                let k: usize = it.next().unwrap().parse().unwrap();
                let j: usize = it.next().unwrap_or("0").parse().unwrap();
                config.partial = Some((k, j));
                i += 2;
            }
            "--sched" => { sched_seed = Some(text(i + 1).parse().unwrap()); i += 2; }
            "--sched-fs" => { sched_fs_seed = Some(text(i + 1).parse().unwrap()); i += 2; }
            "--crash" => {
                let pair = text(i + 1);
                let mut it = pair.split(',');
                let k: usize = it.next().unwrap().parse().unwrap();
                let j: usize = it.next().unwrap_or("0").parse().unwrap();
                config.crash = Some((k, j));
                i += 2;
            }
            other => { eprintln!("unknown argument {}", other); return 2; }
        }
    }

    // load the torrents the way bin.rs does: a file that fails to load is reported and skipped
    let mut loaded: Vec<Torrent> = Vec::new();
    for (index, path) in torrents.iter().enumerate() {
        let bytes = std::fs::read(path).expect("torrent file written by the driver");
        match catch_unwind(AssertUnwindSafe(|| Torrent::from_bytes(&bytes))) {
            Ok(Ok(t)) => { println!("LOADED {} ok", index); loaded.push(t); }
            Ok(Err(_)) => println!("LOADED {} err", index),
            Err(_) => println!("LOADED {} panic", index),
        }
    }

    let options = OrchestratorOptions {
        torrents: loaded,
        scan_directories: scan,
        export_directory: export,
        threads,
        resize_export_files: resize,
    };

    ctl::install(config);
    if let Some(seed) = sched_seed {
        // deterministic scheduling of the executor: one worker runs at a time, decisions are logged
        torrent_bootstrap::verif_shim::sync::sched::install(seed);
    }
    if let Some(seed) = sched_fs_seed {
        // as above, and file operations, per-file write locks and the counter lock are scheduling points too
        torrent_bootstrap::verif_shim::sync::sched::install_fs(seed);
    }
    std::panic::set_hook(Box::new(|info| { eprintln!("PANIC {}", info); }));
    // process state a library call has no business changing: the working directory
    let cwd_before = std::env::current_dir().ok();
    let result = catch_unwind(AssertUnwindSafe(|| torrent_bootstrap::start(options)));
    let cwd_after = std::env::current_dir().ok();
    torrent_bootstrap::verif_shim::sync::sched::uninstall();
    let log = ctl::uninstall();
    for line in &log {
        println!("LOG {}", line);
    }
    println!("CWD {}", if cwd_before == cwd_after { "same" } else { "changed" });
    match result {
        Ok(Ok(())) => println!("RESULT ok"),
        Ok(Err(_)) => println!("RESULT err"),
        Err(_) => println!("RESULT panic"),
    }
    0
}
