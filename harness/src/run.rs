//! whole-world runs of `start()` (filled in below)
pub fn main(_args: &[String]) -> i32 { 2 }
