//! tbh — executes the real lbfs/torrent-bootstrap code (path dependency on /repo's working tree) on the
//! cases of the correspondence streams and prints its canonical observation, one line per case.
//!
//!   tbh lines            stdin: `<stream> <input tokens>` per line; stdout: `<the same> | <observation>`
//!   tbh run <spec-file>  one whole-world run of `start()` (see run.rs)
//!
//! Generators, orchestration and verdicts live in /verif/check (python); the model side is
//! /verif/lean/TB (`tbmodel`). This binary contains no oracle of its own.

mod proto;
mod streams;
#[cfg(lbfs_torrent_bootstrap_verif)]
mod run;

use std::io::{BufRead, Write};

fn main() {
    // paths on the command line are arbitrary bytes (directory names that are not valid UTF-8 are legal)
    let args: Vec<std::ffi::OsString> = std::env::args_os().collect();
    let mode = args.get(1).and_then(|s| s.to_str()).unwrap_or("lines");
    match mode {
        "lines" => {
            // Panics inside the code under test are observations, not harness failures.
            std::panic::set_hook(Box::new(|_| {}));
            let stdin = std::io::stdin();
            let stdout = std::io::stdout();
            let mut out = std::io::BufWriter::new(stdout.lock());
            for line in stdin.lock().lines() {
                let line = match line { Ok(l) => l, Err(_) => break };
                let line = line.trim();
                if line.is_empty() { continue; }
                let obs = streams::observe(line);
                // flush per line: when the process dies on the next case (stack overflow, allocation
                // abort) the driver must know exactly which case killed it.
                writeln!(out, "{} | {}", line, obs).unwrap();
                out.flush().unwrap();
            }
        }
        #[cfg(lbfs_torrent_bootstrap_verif)]
        "run" => {
            let code = run::main(&args[2..]);
            std::process::exit(code);
        }
        _ => {
            eprintln!("usage: tbh lines | tbh run <spec>");
            std::process::exit(2);
        }
    }
}
