//! Unit-level streams: each calls a public entry point of the real code and renders what it returned.

use crate::proto::{hex, unhex};
use std::panic::{catch_unwind, AssertUnwindSafe};
use torrent_bootstrap::{get_sha1_hexdigest, BencodeString, BencodeToken, Parser, Pieces, Torrent};

pub fn observe(line: &str) -> String {
    let toks: Vec<&str> = line.split(' ').filter(|t| !t.is_empty()).collect();
    match toks.as_slice() {
        ["dec", h] => match unhex(h) {
            Some(inp) => guarded(|| dec(&inp)),
            None => "bad-request".into(),
        },
        ["load", h] => match unhex(h) {
            Some(inp) => guarded(|| load(&inp)),
            None => "bad-request".into(),
        },
        ["decq", h] => match unhex(h) {
            Some(inp) => guarded(|| if Parser::decode(&inp).is_ok() { "ok".into() } else { "err".into() }),
            None => "bad-request".into(),
        },
        ["bigstr", n] => match n.parse::<usize>() {
            // `l<n>:<n zero bytes>i7ee` built here: verdict, length of the decoded string, continuation offset of the list
            Ok(n) => guarded(|| {
                let mut inp: Vec<u8> = Vec::with_capacity(n + 40);
                inp.extend_from_slice(format!("l{}:", n).as_bytes());
                inp.resize(inp.len() + n, 0);
                inp.extend_from_slice(b"i7ee");
                match Parser::decode(&inp) {
                    Ok(BencodeToken::List(list)) => match list.value.first() {
                        Some(BencodeToken::String(text)) => format!("ok {} {}", text.value.len(), list.continuation_position),
                        _ => "ok ? ?".to_string(),
                    },
                    Ok(_) => "ok ? ?".to_string(),
                    Err(_) => "err".to_string(),
                }
            }),
            Err(_) => "bad-request".into(),
        },
        ["par", h] => match unhex(h) {
            Some(inp) => guarded(|| par(&inp)),
            None => "bad-request".into(),
        },
        ["hex", h] => match unhex(h) {
            Some(inp) => guarded(|| hex(get_sha1_hexdigest(&inp).as_bytes())),
            None => "bad-request".into(),
        },
        ["sha1", h] => match unhex(h) {
            Some(inp) => {
                use sha1::{Digest, Sha1};
                let mut hasher = Sha1::new();
                hasher.update(&inp);
                hex(&hasher.finalize())
            }
            None => "bad-request".into(),
        },
        _ => "bad-request".into(),
    }
}

/// the same document through `Parser::decode` and `Torrent::from_bytes` on 12 threads at once, 12 times each; every
/// answer is compared with the answer of a single call made before the threads start
fn par(inp: &[u8]) -> String {
    fn once(inp: &[u8]) -> (bool, bool, Option<Vec<u8>>) {
        let decoded = Parser::decode(inp).is_ok();
        let loaded = Torrent::from_bytes(inp);
        (decoded, loaded.is_ok(), loaded.ok().map(|t| t.info_hash.to_vec()))
    }
    let reference = once(inp);
    let shared: std::sync::Arc<Vec<u8>> = std::sync::Arc::new(inp.to_vec());
    let barrier = std::sync::Arc::new(std::sync::Barrier::new(12));
    let mut handles = Vec::new();
    for _ in 0..12 {
        let shared = shared.clone();
        let barrier = barrier.clone();
        let reference = reference.clone();
        // a deep document needs a deep stack on a spawned thread too
        handles.push(std::thread::Builder::new().stack_size(256 << 20).spawn(move || {
            barrier.wait();
            (0..12).all(|_| once(&shared) == reference)
        }).unwrap());
    }
    let mut same = true;
    for handle in handles {
        same &= handle.join().unwrap_or(false);
    }
    if same { format!("same {}", if reference.1 { "ok" } else { "err" }) } else { "differs".into() }
}

fn guarded<F: FnOnce() -> String>(f: F) -> String {
    match catch_unwind(AssertUnwindSafe(f)) {
        Ok(s) => s,
        Err(_) => "panic".to_string(),
    }
}

fn show_str(t: &BencodeString, out: &mut Vec<String>) {
    out.push("S".into());
    out.push(t.start_position.to_string());
    out.push(t.continuation_position.to_string());
    out.push(hex(&t.value));
}

fn show_tok(t: &BencodeToken, out: &mut Vec<String>) {
    match t {
        BencodeToken::String(s) => show_str(s, out),
        BencodeToken::Integer(i) => {
            out.push("I".into());
            out.push(i.start_position.to_string());
            out.push(i.continuation_position.to_string());
            out.push(i.value.to_string());
        }
        BencodeToken::List(l) => {
            out.push("L".into());
            out.push(l.start_position.to_string());
            out.push(l.continuation_position.to_string());
            out.push(l.value.len().to_string());
            for item in &l.value {
                show_tok(item, out);
            }
        }
        BencodeToken::Dictionary(d) => {
            out.push("D".into());
            out.push(d.start_position.to_string());
            out.push(d.continuation_position.to_string());
            // keys and values are separate vectors in the implementation; a length mismatch is rendered
            // as the number of keys followed by what zip() yields plus a marker, so it cannot go unnoticed
            out.push(d.keys.len().to_string());
            for (k, v) in d.keys.iter().zip(&d.values) {
                show_str(k, out);
                show_tok(v, out);
            }
            if d.keys.len() != d.values.len() {
                out.push("KEYS-VALUES-MISMATCH".into());
            }
        }
    }
}

fn dec(inp: &[u8]) -> String {
    match Parser::decode(inp) {
        Ok(tok) => {
            let mut out = vec!["ok".to_string()];
            show_tok(&tok, &mut out);
            out.join(" ")
        }
        Err(_) => "err".into(),
    }
}

pub fn show_torrent(t: &Torrent, out: &mut Vec<String>) {
    out.push("N".into());
    out.push(hex(t.info.name.as_bytes()));
    out.push("LEN".into());
    out.push(match t.info.length {
        Some(n) => n.to_string(),
        None => "-".into(),
    });
    out.push("FILES".into());
    match &t.info.files {
        Some(fs) => {
            out.push(fs.len().to_string());
            for f in fs {
                out.push(f.length.to_string());
                out.push(f.path.len().to_string());
                for c in &f.path {
                    out.push(hex(c.as_bytes()));
                }
            }
        }
        None => out.push("-".into()),
    }
    out.push("PL".into());
    out.push(t.info.piece_length.to_string());
    out.push("NH".into());
    out.push(t.info.pieces.len().to_string());
    for h in &t.info.pieces {
        out.push(hex(h));
    }
    out.push("IH".into());
    out.push(hex(&t.info_hash));
}

fn load(inp: &[u8]) -> String {
    match Torrent::from_bytes(inp) {
        Ok(t) => {
            let mut out = vec!["ok".to_string()];
            show_torrent(&t, &mut out);
            out.push("PIECES".into());
            match catch_unwind(AssertUnwindSafe(|| Pieces::from_torrent(&t))) {
                Ok(pieces) => {
                    out.push("ok".into());
                    out.push(pieces.len().to_string());
                    for p in &pieces {
                        out.push(p.position.to_string());
                        out.push(p.length.to_string());
                        out.push(hex(&p.hash));
                        out.push(p.files.len().to_string());
                        for s in &p.files {
                            out.push(s.file_index.to_string());
                            out.push(s.read_start_position.to_string());
                            out.push(s.read_length.to_string());
                            out.push(s.file_length.to_string());
                        }
                    }
                }
                Err(_) => out.push("panic".into()),
            }
            out.join(" ")
        }
        Err(_) => "err".into(),
    }
}
