#!/bin/sh
# Build the framework from files on disk only (offline): Lean model + proofs + driver, Rust harness.
set -e
cd "$(dirname "$0")"
(cd lean/TB && lake build)
(cd harness && RUSTFLAGS="--cfg lbfs_torrent_bootstrap_verif" CARGO_NET_OFFLINE=true CARGO_TARGET_DIR="$PWD/../.cache/harness-target" cargo build --profile verif)
