"""development aid: run N generated worlds through implementation and model, show chosen cases"""
import sys, collections
from . import common as C, world as W
from .common import Rng

def unp(tok):
    return '/'.join(bytes.fromhex(c).decode('utf8', 'replace') if c != '-' else '' for c in tok.split('/')) if tok != '.' else '.'

def ops_of(s):
    t = s.split(' ')
    i = t.index('OPS'); n = int(t[i + 1]); k = i + 2; out = []
    for _ in range(n):
        kind = t[k]
        if kind == 'write':
            out.append((kind, unp(t[k + 1])[-40:], t[k + 2], t[k + 3][:16], t[k + 4])); k += 5
        elif kind in ('setlen', 'seek'):
            out.append((kind, unp(t[k + 1])[-40:], t[k + 2], t[k + 3])); k += 4
        else:
            out.append((kind, unp(t[k + 1])[-40:], t[k + 2])); k += 3
    return out, t[k:]

def show(r, a):
    parts = a.split(' ', 2)
    rest = parts[2]
    diff = ''
    if rest.startswith('DIFF:'):
        diff, rest = rest.split(' ', 1)
    print('=== ', parts[0], parts[1], diff, 'impl', r.result)
    w = r.world
    for g in w.gts:
        print('  torrent', g.name, 'L', g.L, 'multi', g.multi, [(f.length, f.path, f.pad) for f in g.files])
    print('  files', [('/'.join(c.decode('utf8', 'replace') for c in p)[-50:], len(v[0]), v[1]) for p, v in sorted(w.files.items())])
    print('  resize', w.resize, 'threads', w.threads, 'scan', w.scan, 'docs', len(w.docs), 'faults', w.faults, 'crash', w.crash)
    io, irest = ops_of(r.observation); mo, mrest = ops_of(rest)
    for k in range(max(len(io), len(mo))):
        x = io[k] if k < len(io) else None; y = mo[k] if k < len(mo) else None
        if x != y:
            print('  first op diff at', k)
            for j in range(max(0, k - 4), min(k + 5, max(len(io), len(mo)))):
                print('    ', j, io[j] if j < len(io) else None, ' || ', mo[j] if j < len(mo) else None)
            break
    print('  impl rest ', ' '.join(irest)[:300])
    print('  model rest', ' '.join(mrest)[:300])
    print('  solves', [(s[2], s[3]) for s in r.solves])
    print('  searches', [(e[0], e[4] and ['/'.join(c.decode('utf8', 'replace') for c in p)[-30:] for p in e[4]]) for e in r.searches])
    print('  stderr', r.stderr[-300:].replace('\n', ' | '))

def main():
    n = int(sys.argv[1]); stream = sys.argv[2]; want = sys.argv[3] if len(sys.argv) > 3 else None
    maxshow = int(sys.argv[4]) if len(sys.argv) > 4 else 2
    rs = [W.execute(W.gen_world(Rng(0, stream, i))) for i in range(n)]
    ans = C.run_model([r.line for r in rs])
    print(collections.Counter(' '.join(a.split(' ')[:2]) for a in ans))
    shown = 0
    for r, a in zip(rs, ans):
        if want and ' '.join(a.split(' ')[:2]).startswith(want) and shown < maxshow:
            shown += 1
            show(r, a)

if __name__ == '__main__':
    main()
