"""Properties decided on the unit-level streams `dec`, `load`, `hex`, `sha1`: C06 C07 C08 C09 C10."""
import os, re
from . import common as C, gen as G, engine as E
from .common import Rng, hx, log

TRUSTED = [
    "Lean 4.33.0 kernel (thorough tier: re-checked by leanchecker); axioms allowed: propext, Classical.choice, Quot.sound",
    "Lean compiler/runtime: tbmodel computes the definitions the theorems are about (no implemented_by/extern of ours)",
    "correspondence machinery: /verif/harness (tbh), /verif/tbv generators, TB/Proto.lean rendering/parsing",
    "specs TB/Spec/*.lean as the reading of the property",
]

# ---------------------------------------------------------------- streams

def corpus_lines(pid):
    d = os.path.join(C.VERIF, "corpus", pid)
    out = []
    if os.path.isdir(d):
        for fn in sorted(os.listdir(d)):
            if fn.endswith(".case"):
                for ln in open(os.path.join(d, fn)):
                    ln = ln.strip()
                    if ln and not ln.startswith("#"):
                        out.append((ln, "corpus:" + fn))
    return out

def dec_stream(tier, seed, focus="c08"):
    out = []
    for s in G.numeric_adversaries():
        out.append(("dec " + hx(s), "numeric"))
    maxlen = 5 if tier == "quick" else 6
    if focus == "c08":
        for s in G.exhaustive_strings(maxlen):
            out.append(("dec " + hx(s), "exhaustive"))
    if focus == "c08":
        for d in deep_depths(tier):
            out.append(("decq " + hx(b"l" * d + b"e" * d), "deep:list"))
            out.append(("decq " + hx(b"d1:a" * d + b"0:" + b"e" * d), "deep:dict"))
            out.append(("decq " + hx(b"ld1:a" * (d // 2) + b"i-7e" + b"ee" * (d // 2)), "deep:alternating"))
            out.append(("decq " + hx(b"l" * d + b"e" * (d - 1)), "deep:unclosed"))
        for doc in par_docs():
            out.append(("par " + hx(doc), "parallel"))
        for doc, tag in G.prefix_key_dicts(Rng(seed, "prefix-keys", 0), 60 if tier == "quick" else 1500):
            out.append(("dec " + hx(doc), tag))
    n = 6000 if tier == "quick" else 150000
    for i in range(n):
        rng = Rng(seed, "dec", i)
        v = G.gen_value(rng, rng.range(1, 5))
        k = rng.below(10)
        if k < 4:
            out.append(("dec " + hx(G.benc(v)), "canonical"))
        elif k < 7:
            out.append(("dec " + hx(G.mutate_value(rng, v)), "mutated"))
        else:
            s = G.benc(v)
            for _ in range(rng.range(1, 3)):
                s = G.mutate_bytes(rng, s)
            out.append(("dec " + hx(s), "mutated"))
    return out

def total_stream(tier, seed):
    """C09: extreme numbers and deep nesting, for both entry points"""
    out = []
    for s in G.numeric_adversaries():
        out.append(("dec " + hx(s), "numeric"))
        out.append(("load " + hx(s), "numeric"))
    # `dec` renders and re-checks the whole tree (the span checker is cubic in the nesting depth), so deep
    # nesting goes through `load`, whose observation for these inputs is a single word
    for d in [10, 100, 300]:
        out.append(("dec " + hx(b"l" * d + b"e" * d), "nest:list"))
        out.append(("dec " + hx(b"d1:a" * d + b"0:" + b"e" * d), "nest:dict"))
        out.append(("dec " + hx(b"l" * d), "nest:open"))
    valid_info = b"4:infod6:lengthi1e4:name1:t12:piece lengthi4e6:pieces20:" + bytes(20) + b"e"
    for d in deep_depths(tier):
        # canonical values nested d levels deep are accepted, whatever d (below the native stack limit, D4d)
        out.append(("decq " + hx(b"l" * d + b"e" * d), "deep:list"))
        out.append(("decq " + hx(b"d1:a" * d + b"0:" + b"e" * d), "deep:dict"))
        out.append(("decq " + hx(b"ld1:a" * (d // 2) + b"i-7e" + b"ee" * (d // 2)), "deep:alternating"))
        out.append(("load " + hx(b"d1:a" + b"l" * d + b"e" * d + valid_info + b"e"), "deep:valid-torrent"))
    for doc in par_docs():
        out.append(("par " + hx(doc), "parallel"))
    depths = [1000, 5000, 20000, 100000, 400000] if tier == "quick" else [1000, 5000, 20000, 50000, 100000, 200000, 400000, 1000000, 4000000]
    for d in depths:
        out.append(("load " + hx(b"d4:info" + b"l" * d + b"e" * d + b"e"), "nest:list"))
        if d <= 20000:   # the model's string-length test walks the remaining input: quadratic on nested dictionaries
            out.append(("load " + hx(b"d4:info" + b"d1:a" * d + b"0:" + b"e" * d + b"e"), "nest:dict"))
        out.append(("load " + hx(b"l" * d), "nest:open"))
    U = 2**64
    docs = []
    for L in [0, 1, 2, U - 1, 2**63]:
        for total in [0, 1, 2**32, 2**40, 2**63, U - 1]:
            for nh in [0, 1, 2]:
                docs.append(G.benc(G.meta_doc(piece_length=L, length=total, nhashes=nh)))
                docs.append(G.benc(G.meta_doc(piece_length=L, files=[(total, [b"a"])], nhashes=nh)))
    for a, b in [(U - 1, 1), (U - 1, U - 1), (2**63, 2**63), (U - 1, 0), (2**63, 2**63 - 1)]:
        for L in [1, 2**62, 2**63, U - 1]:
            for nh in [0, 1, 2, 3, 4]:
                docs.append(G.benc(G.meta_doc(piece_length=L, files=[(a, [b"a"]), (b, [b"b"])], nhashes=nh)))
    docs.append(G.benc(G.meta_doc(piece_length=2**62, files=[(U - 1, [b"f%d" % i]) for i in range(9)], nhashes=36)))
    for d in docs:
        out.append(("load " + hx(d), "extreme-doc"))
    for i in range(300 if tier == "quick" else 6000):
        rng = Rng(seed, "total-long", i)
        nm = G.long_name(rng, plain=rng.chance(1, 3))
        if rng.chance(1, 2):
            out.append(("load " + hx(G.benc(G.meta_doc(name=nm, piece_length=4, length=3))), "long-name"))
        else:
            out.append(("load " + hx(G.benc(G.meta_doc(name=b"t", piece_length=4, files=[(3, [b"d", nm])]))), "long-name"))
    for i in range(4000 if tier == "quick" else 80000):
        # the type-directed metainfo generator with its targeted defects (missing, mistyped, extreme fields): none may panic
        data, tag = G.gen_meta(Rng(seed, "total-meta", i))
        out.append(("load " + hx(data), "meta:" + tag.split("+")[-1] if "+" in tag else "meta"))
    n = 1500 if tier == "quick" else 40000
    for i in range(n):
        rng = Rng(seed, "total", i)
        if rng.chance(1, 2):
            data, tag = G.gen_meta(rng)
            for _ in range(rng.below(3)):
                data = G.mutate_bytes(rng, data)
            out.append(("load " + hx(data), "meta-mutated"))
        else:
            v = G.gen_value(rng, 4)
            s = G.mutate_value(rng, v)
            out.append((rng.choice(["dec ", "load "]) + hx(s), "value-mutated"))
    return out

def deep_depths(tier):
    return [600, 1023, 1024, 1025, 1100, 2000, 3000] if tier == "quick" else [600, 1000, 1023, 1024, 1025, 1026, 1100, 1500, 2000, 2047, 2048, 2049, 3000, 4000]

def par_docs():
    valid = b"d4:infod6:lengthi1e4:name1:t12:piece lengthi4e6:pieces20:" + bytes(20) + b"ee"
    return [valid, b"d1:a" + b"l" * 400 + b"e" * 400 + valid[1:], b"l" * 900 + b"e" * 900, b"d1:ad1:b" + b"li1e" * 300 + b"e" * 300 + b"ee" + valid[1:], b"i1", b""]

def nonplain_docs():
    """every non-plain component in every position of a path, also behind components that other parts of the program give
    a meaning to (`.pad`, an all-numeric name): a component is judged on its own, whatever its neighbours are"""
    out = []
    for bad in G.BAD_COMPONENTS:
        for path in ([bad], [b"d", bad], [bad, b"f"], [b".pad", bad], [b".pad", b"0", bad], [b".pad", bad, b"f"], [b"0", bad],
                     [b".pad", b"7", bad, b"f"]):
            d = G.benc(G.meta_doc(name=b"t", piece_length=4, files=[(3, [b"ok"]), (5, list(path))]))
            out.append(("load " + hx(d), "non-plain component at a fixed place"))
        for name in (bad,):
            d = G.benc(G.meta_doc(name=name, piece_length=4, files=[(3, [b".pad", b"3"]), (5, [b"x"])]))
            out.append(("load " + hx(d), "non-plain name, fixed"))
    return out

def load_stream(tier, seed):
    out = nonplain_docs()
    n = 8000 if tier == "quick" else 250000
    for i in range(n):
        rng = Rng(seed, "load", i)
        data, tag = G.gen_meta(rng)
        out.append(("load " + hx(data), tag))
        if i % 8 == 0:
            for v, vtag in G.noncanonical_variants(rng, data):
                out.append(("load " + hx(v), vtag))
    return out

def c07_block_docs(tier):
    out = []
    for k in ([1, 2] if tier == "quick" else [1, 2, 3, 4]):
        for delta in (-1, 0, 1):
            d = G.info_of_exact_length(k * 65536 + delta)
            if d is not None:
                out.append(("load " + hx(d), "info of %d*65536%+d bytes" % (k, delta)))
    for n in (4096, 8192, 16384, 32768, 1 << 20):
        d = G.info_of_exact_length(n)
        if d is not None:
            out.append(("load " + hx(d), "info of %d bytes" % n))
    return out

def c07_stream(tier, seed):
    out = c07_block_docs(tier)
    for b in range(256):
        out.append(("hex " + hx(bytes([b])), "hex1"))
    n = 1500 if tier == "quick" else 40000
    for i in range(n):
        rng = Rng(seed, "c07", i)
        out.append(("hex " + hx(rng.bytes(20)), "hex20"))
        if i % 3 == 0:
            out.append(("sha1 " + hx(rng.bytes(rng.choice([0, 1, 55, 56, 57, 63, 64, 65, 119, 120, 128, rng.below(300)]))), "sha1"))
        # a valid document with decoys and delimiter-laden strings around and inside info
        multi = rng.chance(1, 2)
        kw = {"name": rng.choice(G.WORDS[:10]), "piece_length": rng.choice([1, 3, 4, 16])}
        if multi:
            kw["files"] = G.gen_files(rng)
        else:
            kw["length"] = rng.below(20)
        er = [(k, G.gen_value(rng, 3)) for k in rng.shuffle([b"inf", b"info ", b"infoz", b"announce", b"zz", b"a", b"info\x00", b"d4:info", b"4:info"])[:rng.range(0, 5)]]
        if rng.chance(1, 3):
            # a sibling of `info` that is itself a well-formed info dictionary of ANOTHER torrent: only the key named
            # exactly `info` may determine the info-hash
            other = G.meta_doc(name=b"other", piece_length=2, length=rng.below(6))
            er.append((rng.choice([b"info.utf-8", b"info.utf8", b"info2", b"Info"]), [v for k, v in other[1] if k == b"info"][0]))
        if i % 5 == 1:
            # top-level keys NAMED like the keys of an info dictionary (the root looks like a bare info dictionary): only the
            # value of `info` is the info dictionary
            er += [(b"pieces", bytes(20)), (b"piece length", rng.range(1, 9))]
            if rng.chance(1, 2):
                er += [(b"name", b"decoy"), (b"length", rng.range(1, 4))]
        ei = [(k, G.gen_value(rng, 3)) for k in rng.shuffle([b"private", b"source", b"x", b"zzz", b"e", b"de", b"4:name"])[:rng.range(0, 4)]]
        doc = G.benc(G.meta_doc(extra_root=er, extra_info=ei, **kw))
        out.append(("load " + hx(doc), "valid+decoys"))
        if i % 6 == 0:
            # the same document with white space in front of it or around it: if a front end tolerates that, the info
            # span must still be the one the hash is taken of
            ws = rng.choice([b"\n", b" ", b"\r\n", b"\t\t", b"\x0c"])
            out.append(("load " + hx(ws + doc), "white space in front"))
            out.append(("load " + hx(doc + ws), "white space behind"))
    return out

def c06_stream(tier, seed):
    out = []
    uni = (4, 4, 5) if tier == "quick" else (5, 5, 7)
    for L, fs, single in G.layout_universe(*uni):
        out.append(("load " + hx(G.layout_doc(L, fs, single)), "universe"))
    rng = Rng(seed, "c06-extreme", 0)
    for L, fs, single in G.layout_extremes(rng, 2000 if tier == "quick" else 40000):
        out.append(("load " + hx(G.layout_doc(L, fs, single)), "extreme"))
    return out, uni

PROPS = {
    "C08": dict(module="TB.Props.C08", theorems=["C08_sound", "C08_complete", "C08_accepts_iff", "C08_encode_injective", "C08_no_panic"],
                clauses=["c08-"], stream=lambda t, s: dec_stream(t, s)),
    "C09": dict(module="TB.Props.C09", theorems=["C09_decode_total", "C09_load_total", "C09_layout_total"],
                clauses=["c09-"], stream=total_stream),
    "C10": dict(module="TB.Props.C10", theorems=["C10_iff", "C10_rejects_noncanonical", "C10_exactkey", "C10_exactkey_none", "C10_loaded_wf"],
                clauses=["c10-"], stream=load_stream),
    "C07": dict(module="TB.Props.C07", theorems=["C07_span", "C07_indep", "C07_hex_length", "C07_hex_alphabet", "C07_hex_injective"],
                clauses=["c07-"], stream=c07_stream),
    "C06": dict(module="TB.Props.C06", theorems=["C06_partition_multi", "C06_partition_single", "C06_every_byte_multi", "C06_every_byte_single",
                                                "C06_closed_form_multi", "C06_closed_form_single", "C06_zero_piece_length", "C06_loaded"],
                clauses=["c06-"], stream=lambda t, s: c06_stream(t, s)[0]),
}

def nontrivial(c):
    head = c.obs.split(" ", 1)[0]
    if c.line.startswith("dec "):
        return head == "ok" or len(c.line) > 4 + 4
    if c.line.startswith("load "):
        return head == "ok" or (c.tag is not None and "byte mutation" not in c.tag and "mutated" not in c.tag)
    return True

def neighbourhood(seed, cases, rounds):
    """failing-input search around disagreeing inputs: byte-level and structural mutations of each"""
    out = []
    for ci, c in enumerate(cases[:50]):
        stream, h = c.line.split(" ")[:2]
        data = b"" if h == "-" else bytes.fromhex(h)
        for r in range(rounds):
            rng = Rng(seed, "search", ci * 100003 + r)
            s = data
            for _ in range(rng.range(1, 3)):
                s = G.mutate_bytes(rng, s)
            out.append((stream + " " + hx(s), "search"))
    return out

EXTRA_MODULES = {"C09": ["TB.Props.C09cost", "TB.Props.C09layoutcost", "TB.Props.C09loadcost"], "C06": ["TB.Props.C06layout"]}

def scale_cases(tier):
    """C09 promptness on WIDE inputs (the depth family is in total_stream): documents of 0.2-2 MB (thorough: four times
    that) whose cost would explode under any super-linear step — many dictionary keys, many list items, many files, many
    pieces, one very long string, very long digit runs. The verdict of each is known by construction; the model is not
    run on them (its `List.length`-based bounds test is itself quadratic on many-strings inputs), the cost theorem
    C09_decode_cost_linear speaks for the model and this stage for the implementation: each must answer within the
    budget, which linear-time code meets by two orders of magnitude."""
    k = 1 if tier == "quick" else 4
    key = lambda i: b"k%07d" % i
    def files_doc(n):
        files = b"".join(b"d6:lengthi1e4:pathl1:d8:f%07dee" % i for i in range(n))
        return b"d4:infod5:filesl" + files + b"e4:name1:t12:piece lengthi1048576e6:pieces%d:" % (20 * ((n + 1048575) // 1048576)) + bytes(20 * ((n + 1048575) // 1048576)) + b"ee"
    def wide_dict(n, inside_info):
        ents = b"".join(b"8:%s0:" % key(i) for i in range(n))
        if inside_info:   # unknown keys of the info dictionary sorted before `length`
            return b"d4:infod1:ad" + ents + b"e6:lengthi1e4:name1:t12:piece lengthi4e6:pieces20:" + bytes(20) + b"ee"
        return b"d1:ad" + ents + b"e4:infod6:lengthi1e4:name1:t12:piece lengthi4e6:pieces20:" + bytes(20) + b"ee"
    def pieces_doc(n):
        return b"d4:infod6:lengthi%de4:name1:t12:piece lengthi1e6:pieces%d:" % (n, 20 * n) + bytes(20 * n) + b"ee"
    out = [
        (files_doc(20000 * k), "ok", "scale:files"),
        (wide_dict(100000 * k, False), "ok", "scale:root-dict"),
        (wide_dict(100000 * k, True), "ok", "scale:info-dict"),
        (pieces_doc(100000 * k), "ok", "scale:pieces"),
        (b"d4:infol" + b"i0e" * (300000 * k) + b"ee", "err", "scale:list"),
        (b"d4:infol" + b"0:" * (400000 * k) + b"ee", "err", "scale:list-of-strings"),
        (b"d4:info" + b"9" * (200000 * k) + b":e", "err", "scale:length-digits"),
        (b"d4:infoi" + b"9" * (200000 * k) + b"ee", "err", "scale:int-digits"),
        (b"d4:infod6:lengthi1e4:name%d:" % (2000000 * k) + b"n" * (2000000 * k) + b"12:piece lengthi4e6:pieces20:" + bytes(20) + b"ee", "ok", "scale:long-string"),
        (b"d" + b"".join(b"8:%s" % key(i) + b"l" * 3 + b"e" * 3 for i in range(50000 * k)) + b"e", "err", "scale:dict-of-lists"),
        # deep AND wide (cost = length x depth under any per-level copy of the subtree); 1000 levels is far from the native
        # stack limit (known finding D4d starts at several thousand)
        (b"d4:info" + b"d1:a" * 1000 + b"l" + b"1:x" * (200000 * k) + b"e" + b"e" * 1000 + b"e", "err", "scale:deep-and-wide-dict"),
        (b"d4:info" + b"l" * 1000 + b"i7e" * (200000 * k) + b"e" * 1000 + b"e", "err", "scale:deep-and-wide-list"),
        (b"d1:a" + b"d1:a" * 1000 + b"l" + b"0:" * (200000 * k) + b"e" + b"e" * 1000 + b"4:infod6:lengthi1e4:name1:t12:piece lengthi4e6:pieces20:" + bytes(20) + b"ee", "ok", "scale:deep-and-wide-junk-key"),
        # keys out of order only at the very end: everything before must have been accepted in linear time
        (b"d" + b"".join(b"8:%s0:" % key(i) for i in range(100000 * k)) + b"1:a0:e", "err", "scale:late-order-error"),
    ]
    return [("load " + hx(d), exp, tag) for d, exp, tag in out]

def run_cli_lists(tier, seed):
    """C10 through the command line: lists of torrent FILES, good and bad ones in every order, are loaded by the real
    binary one file after the other; which files it reports as unloadable must be exactly those `Torrent::from_bytes`
    refuses one by one (the per-file verdicts come from the `load` stream of this same check, which ties them to the
    model). A loader front end that carries state from one file to the next shows up only here."""
    import tempfile, shutil, subprocess, os
    ok, out = C.harness_build(with_bin=True)
    if not ok:
        return []
    n = 24 if tier == "quick" else 240
    cases = []
    base = tempfile.mkdtemp(prefix="tbl-", dir="/dev/shm")
    try:
        os.makedirs(os.path.join(base, "scan")); os.makedirs(os.path.join(base, "export"))
        for i in range(n):
            rng = Rng(seed, "cli-list", i)
            docs = []
            for _ in range(rng.range(2, 4)):
                d, _tag = G.gen_meta(rng)
                k = rng.below(5)
                if k == 0:
                    d = d[: max(1, len(d) // 2)]                       # a truncated download
                elif k == 1:
                    d = d[len(d) // 2:]                                # the second half of a file
                elif k == 2:
                    d = G.mutate_bytes(rng, d)
                docs.append(d)
            if i % 4 == 0:
                good, _tag = G.gen_meta(rng)
                docs = [good[: len(good) // 2], good[len(good) // 2:]] + docs      # two halves of one document, in order
            verdicts = [l.partition(" | ")[2].split(" ", 1)[0] for l in C.run_impl(["load " + hx(d) for d in docs], 5.0, jobs=1)]
            paths = []
            for j, d in enumerate(docs):
                pth = os.path.join(base, "l%d_%d.torrent" % (i, j))
                open(pth, "wb").write(d); paths.append(pth)
            try:
                p = subprocess.run([C.REPO_BIN, "--export", os.path.join(base, "export"), "--scan", os.path.join(base, "scan"), "--torrents"] + paths,
                                   stdout=subprocess.PIPE, stderr=subprocess.PIPE, timeout=60)
                err = p.stderr.decode("utf-8", "replace"); outp = p.stdout.decode("utf-8", "replace"); rc = p.returncode
            except subprocess.TimeoutExpired:
                err, outp, rc = "", "", "timeout"
            refused = [j for j, pth in enumerate(paths) if ("Unable to load torrent from path \"%s\"" % pth) in err]
            expected = [j for j, v in enumerate(verdicts) if v != "ok"]
            m = re.search(r"for (\d+) torrents", outp)
            loaded = int(m.group(1)) if m else None
            fails = []
            if rc != 0 or "panicked" in err:
                fails.append("c10-cli-crash")
            if refused != expected or (loaded is not None and loaded != len(docs) - len(expected)):
                fails.append("c10-cli-list")
            line = "cli-list " + " ".join(hx(d) for d in docs)
            obs = "refused %s loaded %s rc %s" % (refused, loaded, rc)
            ans = ("agree prop-ok" if not fails else "DISAGREE PROPFAIL:" + ",".join(fails)) + " expected refused %s" % expected
            cases.append(C.Case(line, obs, ans, "cli-list"))
    finally:
        shutil.rmtree(base, ignore_errors=True)
    return cases

def run_bigstr(tier):
    """C08 beyond 4 GiB: one byte string of 2^32 bytes inside a list. The harness builds the input itself (no 8 GiB of
    hex on a pipe) and reports verdict, value length and continuation offset; the expected answer is known by
    construction (the model would need the 4 GiB too). Only inputs of at least 2^32 bytes tell a 32-bit length
    accumulator from a 64-bit one."""
    sizes = [(1 << 32)] if tier == "quick" else [(1 << 32) - 1, (1 << 32), (1 << 32) + 5]
    cases = []
    for n in sizes:
        line = "bigstr %d" % n
        o = C.run_impl([line], 120.0, jobs=1)[0].partition(" | ")[2]
        exp = "ok %d %d" % (n, 1 + len(str(n)) + 1 + n + 3 + 1)
        ans = "agree prop-ok bigstr" if o == exp else ("DISAGREE PROPFAIL:c08-rejects-canonical expected " + exp if o.startswith(("err", "panic", "abort", "timeout")) else "DISAGREE PROPFAIL:c08-spans expected " + exp)
        cases.append(C.Case(line, o, ans, "bigstr"))
    return cases

def run_scale(tier, budget=3.0):
    sc = scale_cases(tier)
    obs = C.run_impl([l for l, _, _ in sc], budget, jobs=4)
    cases = []
    for (line, exp, tag), ol in zip(sc, obs):
        o = ol.partition(" | ")[2]
        word = o.split(" ", 1)[0]
        if word in ("timeout", "abort", "panic"):
            ans = "DISAGREE PROPFAIL:c09-%s no answer within %.0f s on a %d-byte document (expected %s)" % (word, budget, (len(line) - 5) // 2, exp)
        elif word != exp:
            ans = "DISAGREE prop-ok expected %s by construction" % exp
        else:
            ans = "agree prop-ok scale"
        # the request is megabytes of hex: keep a digest-sized form for the evidence, the full line for a failing replay
        cases.append(C.Case(line, o[:200], ans, tag))
    return cases

def run(pid, tier, seed, replay=None):
    cfg = PROPS[pid]
    res = E.Result(pid, tier, seed)
    res.trusted = TRUSTED
    res.checker_cmd = "cd /verif/lean/TB && lake build %s && lake env lean <#print axioms of the obligations>%s" % (
        cfg["module"], " && lake env leanchecker " + cfg["module"] if tier == "thorough" else "")
    known = E.load_known()
    E.proof_stage(res, cfg["module"], cfg["theorems"], tier)
    for extra in EXTRA_MODULES.get(pid, []):
        E.proof_stage(res, extra, [], tier)
    ok, out = C.harness_build()
    if not ok:
        p = E.write_replay(pid, "harness-build", {"what": "the harness does not build against /repo's working tree", "output": out[-4000:]})
        res.violations.append((p, "no-failing-input-found"))
        return E.finish(res)
    if replay:
        payload = __import__("json").load(open(replay))
        lines = [(payload["line"], "replay")] if "line" in payload else [(l, "replay") for l in payload.get("lines", [])]
    else:
        lines = corpus_lines(pid) + cfg["stream"](tier, seed)
    cases = C.differential([l for l, _ in lines], [t for _, t in lines])
    if pid == "C09" and not replay:
        cases += run_scale(tier)
    if pid == "C10" and not replay:
        cases += run_cli_lists(tier, seed)
    if pid == "C08" and not replay:
        cases += run_bigstr(tier)
    if replay:
        for c in cases:
            print("request : " + c.line[:2000]); print("impl    : " + c.obs[:2000]); print("model   : " + c.model[:2000])
            print("agree=%s fails=%s" % (c.agree, c.fails))
    failing, disagree = E.judge_cases(res, cases, cfg["clauses"], nontrivial, known)
    res.samples = [{"request": c.line[:300], "impl": c.obs[:300], "agree": c.agree, "tag": c.tag} for c in cases[:: max(1, len(cases) // 6)]][:8]
    res.rule = ("corpus, then seeded generation (splitmix of VERIF_SEED/stream/index); a case is non-trivial when the implementation "
                "accepted it, or rejected it for a reason beyond the first byte / at the metainfo level; distinct = distinct request line")
    broken = bool(res.build_problems)
    if (broken or disagree) and not failing:
        # failing-input search (DESIGN §2.2)
        extra = neighbourhood(seed, disagree, 200 if tier == "quick" else 2000) if disagree else []
        if broken:
            extra += cfg["stream"]("thorough" if tier == "quick" else tier, seed + 1)[:60000]
        if extra:
            cases2 = C.differential([l for l, _ in extra], [t for _, t in extra])
            f2, _ = E.judge_cases(res, cases2, cfg["clauses"], nontrivial, known)
            failing += f2
            res.disagreements_examined += len(disagree)
    if failing:
        # smallest failing input first
        failing.sort(key=lambda cm: len(cm[0].line))
        c, mine = failing[0]
        p = E.write_replay(pid, "case", {"line": c.line, "impl": c.obs, "model": c.model, "failed_clauses": mine, "tag": c.tag,
                                          "others": [x.line for x, _ in failing[1:20]],
                                          "broken_obligations": res.build_problems})
        res.violations.append((p, ""))
    elif broken:
        p = E.write_replay(pid, "obligation", {"what": "proof obligation no longer checks", "problems": res.build_problems,
                                                 "theorems": cfg["theorems"], "module": cfg["module"]})
        res.violations.append((p, "no-failing-input-found"))
    elif disagree:
        p = E.write_replay(pid, "correspondence", {"what": "model and implementation disagree on these inputs; no input violating the property was found",
                                                     "stream": disagree[0].line.split(" ")[0],
                                                     "lines": [c.line for c in disagree[:20]],
                                                     "first": {"line": disagree[0].line, "impl": disagree[0].obs, "model": disagree[0].model}})
        res.violations.append((p, "no-failing-input-found"))
    res.assumptions = ["SHA-1 is a parameter H of every theorem; the driver instantiates it with TB.Sha1.sha1, cross-checked against the sha1 crate on this run",
                       "inputs are byte slices that exist in memory (length ≤ usize::MAX)"]
    return E.finish(res)
