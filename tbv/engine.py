"""Verdict logic shared by all properties (DESIGN.md §2.2) and evidence writing."""
import hashlib, json, os, re, sys, time
from . import common as C
from .common import log

KNOWN = os.path.join(C.VERIF, "known_findings.json")

def load_known():
    try:
        return json.load(open(KNOWN)).get("findings", [])
    except FileNotFoundError:
        return []

def known_match(pid, case_fails, line, obs, known, tag=None):
    """a failing case is covered by a known finding iff the property matches, every failing clause of the
    case that belongs to this property is listed by the entry, and the entry's regexes match the case"""
    for k in known:
        if k.get("status") != "open" or k["property"] != pid:
            continue
        if not all(any(f.startswith(c) for c in k["clauses"]) for f in case_fails):
            continue
        if "line_regex" in k and not re.search(k["line_regex"], line):
            continue
        if "obs_regex" in k and not re.search(k["obs_regex"], obs):
            continue
        if "tag_regex" in k and not re.search(k["tag_regex"], tag or ""):
            continue
        return k
    return None

class Result:
    def __init__(self, pid, tier, seed):
        self.pid, self.tier, self.seed = pid, tier, seed
        self.t0 = time.time()
        self.violations = []      # (replay path, suffix)
        self.known_hits = {}
        self.obligations = []
        self.discharged = []
        self.build_problems = []
        self.cases_total = 0
        self.nontrivial = set()
        self.samples = []
        self.dist = {}
        self.disagreements = 0
        self.disagreements_examined = 0
        self.extra = {}
        self.assumptions = []
        self.trusted = []
        self.rule = ""
        self.checker_cmd = ""
        self.exhaustive = False

    def count(self, key, n=1):
        self.dist[key] = self.dist.get(key, 0) + n

def write_replay(pid, name, payload):
    d = os.path.join(C.VERIF, "replays")
    os.makedirs(d, exist_ok=True)
    p = os.path.join(d, "%s-%s.json" % (pid, name))
    with open(p, "w") as f:
        json.dump(payload, f, indent=1)
    return p

def theorems_of(module):
    """names of the theorems stated in a property file (TB/Props/Cnn.lean holds property theorems only)"""
    path = os.path.join(C.LEAN, *module.split(".")) + ".lean"
    try:
        src = C.strip_comments(open(path).read())
    except FileNotFoundError:
        return []
    # names relative to the file's outermost namespace (which the audit opens): theorems of nested namespaces
    # (worlds of checked counterexamples and non-vacuity examples) are audited like the others
    names, stack = [], []
    for line in src.split("\n"):
        m = re.match(r"^namespace\s+([A-Za-z0-9_'.]+)", line)
        if m:
            stack.append(m.group(1)); continue
        m = re.match(r"^end\s+([A-Za-z0-9_'.]+)", line)
        if m and stack and stack[-1] == m.group(1):
            stack.pop(); continue
        m = re.match(r"^(?:private\s+|protected\s+)?theorem\s+([A-Za-z0-9_'.]+)", line)
        if m and not line.startswith("private"):
            names.append(".".join(stack[1:] + [m.group(1)]))
    return names

def proof_stage(res, module, theorems, tier, extra_targets=("tbmodel",)):
    """(re)build and audit the property's theorems; fills res.obligations/discharged/build_problems"""
    declared = theorems_of(module)
    missing = [t for t in theorems if t not in declared]
    if missing:
        res.build_problems.append("theorems missing from %s: %s" % (module, ", ".join(missing)))
    theorems = list(theorems) + [t for t in declared if t not in theorems]
    res.obligations = res.obligations + [t for t in theorems if t not in res.obligations]
    clean = [module] if tier == "thorough" else []
    ok, out = C.lean_build([module] + list(extra_targets), clean_modules=clean)
    if not ok:
        res.build_problems.append("lake build %s failed:\n%s" % (module, out[-3000:]))
        return
    if re.search(r"declaration uses .sorry.", out):
        res.build_problems.append("sorry in build output of %s" % module)
    hits = C.source_audit([module])
    if hits:
        res.build_problems.append("forbidden constructs in Lean sources: " + "; ".join(hits[:10]))
    ax = C.axiom_audit(module, theorems)
    for t in theorems:
        ok_t, info = ax[t]
        if ok_t:
            res.discharged.append(t)
        else:
            res.build_problems.append("theorem %s: %s" % (t, info))
    res.extra.setdefault("axioms", {}).update({t: ax[t][1] for t in theorems})
    if tier == "thorough" and not res.build_problems:
        rc, out = C.sh(["lake", "env", "leanchecker", module], cwd=C.LEAN, timeout=3600)
        res.extra["leanchecker_rc"] = rc
        if rc != 0:
            res.build_problems.append("leanchecker %s failed: %s" % (module, out[-1000:]))

def judge_cases(res, cases, clause_prefixes, nontrivial_fn, known, sample_every=None):
    """classify differential cases; returns (failing cases not known, disagreeing cases)"""
    failing, disagree = [], []
    res.cases_total += len(cases)
    for c in cases:
        mine = [f for f in c.fails if any(f.startswith(p) for p in clause_prefixes) or f.startswith("bad-answer")]
        if nontrivial_fn(c):
            res.nontrivial.add(hashlib.blake2b(c.line.encode(), digest_size=8).digest())
        if c.tag:
            res.count("tag:" + re.split(r"[+@]", c.tag)[0])
        res.count("obs:" + c.obs.split(" ", 1)[0])
        explained = False
        if mine:
            k = known_match(res.pid, mine, c.line, c.obs, known, c.tag)
            if k:
                res.known_hits.setdefault(k["id"], (k, c))
                explained = True      # the disagreement on this case is the known finding itself
            else:
                failing.append((c, mine))
        if not c.agree and not explained:
            disagree.append(c)
    res.disagreements += len(disagree)
    return failing, disagree

def finish(res, level="proof"):
    """print verdict lines, write evidence, return exit code"""
    for kid, (k, c) in sorted(res.known_hits.items()):
        print("KNOWN-FINDING: property=%s %s" % (res.pid, k["text"]))
    code = 0
    for path, suffix in res.violations:
        print("VIOLATION property=%s replay=%s%s" % (res.pid, path, (" " + suffix) if suffix else ""))
        code = 1
    ev = {
        "property_id": res.pid, "tier": res.tier, "seed": res.seed, "level": level,
        "coverage": {
            "obligations": len(res.obligations), "discharged": len(res.discharged),
            "obligation_names": res.obligations,
            "checker_cmd": res.checker_cmd,
            "trusted_base": res.trusted,
            "evaluations": res.cases_total,
            "distinct_nontrivial": len(res.nontrivial),
            "rule": res.rule,
            "samples": res.samples[:8],
            "exhaustive": res.exhaustive,
            "disagreements": res.disagreements,
            "disagreements_checked": res.disagreements_examined,
            "input_distribution": dict(sorted(res.dist.items())),
            "known_findings_reproduced": sorted(res.known_hits.keys()),
        },
        "assumptions": res.assumptions,
        "wall_s": round(time.time() - res.t0, 2),
        "violations": len(res.violations),
    }
    ev["coverage"].update(res.extra)
    os.makedirs(os.path.join(C.VERIF, "evidence"), exist_ok=True)
    p = os.path.join(C.VERIF, "evidence", res.pid + ".json")
    with open(p + ".tmp", "w") as f:
        json.dump(ev, f, indent=1)
    os.replace(p + ".tmp", p)
    log("[%s] %s: %d cases, %d distinct non-trivial, %d/%d obligations, %d disagreements, %d violations, %.1fs" % (
        res.pid, res.tier, res.cases_total, len(res.nontrivial), len(res.discharged), len(res.obligations),
        res.disagreements, len(res.violations), time.time() - res.t0))
    return code
