"""Generated directory worlds, their execution through `tbh run`, and the `run` protocol line."""
import hashlib, os, re, shutil, subprocess, tempfile
from . import common as C, gen as G
from .common import Rng, hx

SHM = "/dev/shm"

# ---------------------------------------------------------------- ground-truth torrents

class TFile:
    def __init__(self, length, path, content, pad=False):
        self.length, self.path, self.content, self.pad = length, path, content, pad

class GT:
    """a torrent with its ground-truth content"""
    def __init__(self, name, piece_length, files, multi, extra_root=(), extra_info=()):
        self.name, self.L, self.files, self.multi = name, piece_length, files, multi
        data = b"".join(f.content for f in files)
        self.total = len(data)
        self.hashes = [hashlib.sha1(data[i:i + self.L]).digest() for i in range(0, len(data), self.L)] if self.L > 0 else []
        kw = dict(name=name, piece_length=self.L, hashes=b"".join(self.hashes), extra_root=extra_root, extra_info=extra_info)
        if multi:
            kw["files"] = [(f.length, f.path) for f in files]
        else:
            kw["length"] = files[0].length
        self.doc = G.benc(G.meta_doc(**kw))
        info = dict(self.doc[1]) if False else None
        # info-hash = sha1 of the encoded info dictionary
        root = G.meta_doc(**kw)
        infod = [v for k, v in root[1] if k == b"info"][0]
        self.info_hash = hashlib.sha1(G.benc(infod)).digest()
        self.hexhash = self.info_hash.hex().encode()

    def target(self, export, f):
        comps = list(export) + [self.hexhash, b"Data", self.name]
        if self.multi:
            comps += f.path
        return comps

    def pieces(self):
        """[(index, [(file index, offset, length)])] by interval arithmetic"""
        out = []
        bases = []
        b = 0
        for f in self.files:
            bases.append(b); b += f.length
        for i in range(len(self.hashes)):
            lo, hi = i * self.L, min((i + 1) * self.L, self.total)
            segs = []
            for fi, f in enumerate(self.files):
                a, z = max(lo, bases[fi]), min(hi, bases[fi] + f.length)
                if a < z:
                    segs.append((fi, a - bases[fi], z - a))
            out.append((i, segs))
        return out

NAMES = [b"alpha", b"beta", b"g\xc3\xa4mma", b"delta x", b"eps.bin", b"z", b"Data", b"data1", b".. ", b"...", b" lead", b"trail ",
         b"caf\xef\xbf\xbd", b"\xef\xbf\xbd"]          # U+FFFD is an ordinary character of a valid UTF-8 name

def gen_content(rng, n):
    k = rng.below(4)
    if k == 0:
        return bytes([rng.range(97, 100)]) * n
    if k == 1:
        return bytes(rng.range(0, 3) for _ in range(n))
    return rng.bytes(n)

def gen_gt(rng, idx, small=True):
    multi = rng.chance(2, 3)
    L = rng.choice([1, 2, 3, 4, 5, 8, 16]) if small else rng.choice([4, 16, 64])
    name = rng.choice(NAMES) + b"%d" % idx if rng.chance(3, 4) else rng.choice(NAMES)
    files = []
    if multi:
        n = rng.range(1, 4)
        for i in range(n):
            k = rng.below(10)
            if k == 0:
                ln = rng.range(0, 6)
                # `.pad/<digits>`: any digit string, however long (a padding file is named after its size; nothing says
                # the number fits a machine word), leading zeros, and the non-ASCII numerics char::is_numeric accepts
                nm = rng.choice([b"%d" % rng.below(50)] * 5 + [b"18446744073709551616", b"340282366920938463463374607431768211456",
                                                               b"99999999999999999999", b"007", b"00", b"\xd9\xa3", b"1\xc2\xb2"])
                files.append(TFile(ln, [b".pad", nm], bytes(ln), pad=True))
                continue
            if k == 2 and rng.chance(1, 3):
                # NOT padding: a second component that some number parsers accept but that is not all-numeric characters
                ln = rng.range(1, 6)
                nm = rng.choice([b"+5", b"-1", b"1_0", b"12a", b" 7", b"7 ", b"0x10", b"1e3"]) + b"%d" % i    # distinct per file (no duplicate paths)
                files.append(TFile(ln, [b".pad", nm], bytes(ln) if rng.chance(1, 2) else gen_content(rng, ln)))
                continue
            if k == 3 and rng.chance(1, 3):
                # a file whose path repeats the tail of the export root: named like the torrent, or Data/<name>
                ln = rng.range(1, 8)
                path = rng.choice([[name], [b"Data", name], [b"Data"]])
                # (never a file at a path that another file of the torrent needs as a directory: such a torrent cannot be
                #  exported at all — `C02_run_recovered_loaded_needs_hnest`)
                nested = lambda p, q: p[:len(q)] == q or q[:len(p)] == p
                if not any(nested(f.path, path) for f in files):
                    files.append(TFile(ln, path, gen_content(rng, ln)))
                    continue
            ln = 0 if k == 1 else rng.range(1, 12)
            depth = rng.range(1, 3)
            # components that are plain but look like traversal once trimmed or normalised are deliberate
            path = [rng.choice([b"d", b"sub", b"x y", b".. ", b". ", b" ..", b"...", b"d ", b"..\\..", b"a\\b"]) for _ in range(depth - 1)] + [rng.choice([b"f", b"file", b"a.bin", b"\xc3\xb1", b".. f", b"f ", b"..\\..\\..\\..\\bystander\\v"]) + b"%d" % i + (b" " if rng.chance(1, 8) else b"")]
            files.append(TFile(ln, path, gen_content(rng, ln)))
        # no file at a path another file needs as a directory (a torrent that cannot be exported at all)
        kept = []
        for f in files:
            if f.pad or not any((not g.pad) and (f.path[:len(g.path)] == g.path or g.path[:len(f.path)] == f.path) for g in kept):
                kept.append(f)
        files = kept
        if all(f.pad for f in files):
            files.append(TFile(3, [b"real"], gen_content(rng, 3)))
    else:
        ln = rng.range(0, 14)
        files.append(TFile(ln, [name], gen_content(rng, ln)))
    extra = [(b"announce", b"http://x/%d" % idx)] if rng.chance(1, 2) else []
    return GT(name, L, files, multi, extra)

# ---------------------------------------------------------------- worlds

class World:
    def __init__(self):
        self.gts = []           # ground-truth torrents
        self.docs = []          # documents passed on the command line (bytes), in order
        self.dirs = set()       # relative directory paths (tuples of bytes)
        self.files = {}         # relative path tuple -> (content bytes, link group or None)
        self.export = (b"export",)
        self.export_arg = None  # literal argument (str) when it must differ from the canonical absolute one
        self.scan = []          # list of path tuples
        self.scan_args = None
        self.threads = 1
        self.resize = False
        self.faults = []
        self.crash = None
        self.tag = ""
        self.has_truth = True   # every document in docs is one of gts (so entry ids can be computed)
        self.sparse = {}        # relative path tuple -> size: files created with truncate() only (no data blocks)
        self.symlinks = {}      # relative path tuple -> relative target path tuple (symbolic link to a regular file)
        self.modes = {}         # relative path tuple -> permission bits
        self.mounts = []        # relative directory paths on which a fresh tmpfs is mounted before the files are created

    def add_file(self, path, content, group=None):
        """returns False (and does nothing) when the path collides with an existing file or directory"""
        path = tuple(path)
        if path in self.dirs or any(path[:k] in self.files or path[:k] in self.symlinks for k in range(1, len(path))):
            return False
        self.symlinks.pop(path, None)       # a regular file replaces a symbolic link of the same name
        if any(q[:len(path)] == path and len(q) > len(path) for q in self.files):
            return False
        for k in range(1, len(path)):
            self.dirs.add(path[:k])
        self.files[path] = (content, group)
        return True

def corrupt(rng, data):
    if not data:
        return data
    b = bytearray(data)
    for _ in range(rng.range(1, 2)):
        i = rng.below(len(b)); b[i] ^= rng.range(1, 255)
    return bytes(b)

def gen_world(rng, ntorrents=None, features=()):
    w = World()
    n = ntorrents or rng.choice([1, 1, 2, 2, 3])
    w.gts = [gen_gt(rng, i) for i in range(n)]
    if n >= 2 and rng.chance(1, 3):
        # two torrents sharing one file's content (a file shared between torrents)
        a, b = w.gts[0], w.gts[1]
        fa = [f for f in a.files if not f.pad and f.length > 0]
        if fa:
            src = rng.choice(fa)
            fb = TFile(src.length, [b"shared.bin"] if b.multi else [b.name], src.content)
            files = (b.files + [fb]) if b.multi else [fb]
            w.gts[1] = GT(b.name, b.L, files, b.multi)
    w.docs = [g.doc for g in w.gts]
    if rng.chance(1, 6):
        w.export = (rng.choice([b"exp\xf4rt", b"T\xe9l\xe9", b"out\xff"]),)      # not valid UTF-8
        # (file targets below are computed from w.export, so this must happen before any of them)
    w.dirs.add(w.export)
    nscan = rng.range(1, 3)
    # directory names that are string prefixes of one another (scan1 / scan10, lib / lib2) are deliberate
    pool = [(b"scan0",), (b"scan1",), (b"scan10",), (b"lib",), (b"lib2",), (b"outer0", b"scan"), (b"outer1", b"scan"), (b"outer1", b"scan2"), (b"sc\xe4n",)]
    scan_names = rng.shuffle(pool)[:nscan]
    for s in scan_names:
        w.add_file(s + (b".keep",), b"k")   # makes the directories exist
    w.scan = list(scan_names)
    w.dirs.add((b"bystander",)); w.add_file((b"bystander", b"note.txt"), b"do not touch")
    group = [0]
    for g in w.gts:
        for fi, f in enumerate(g.files):
            if f.pad:
                if f.length > 0 and rng.chance(1, 2):
                    # the padding file as a download client leaves it: zeros, under its own name, in a scan directory
                    w.add_file(scan_names[0] + (g.name,) + tuple(f.path), bytes(f.length))
                continue
            # prior export state: exact / shorter prefix / longer / damaged / zero-tailed partial / absent (3 in 8)
            k = rng.below(8)
            tgt = tuple(g.target(w.export, f))
            if k == 0:
                w.add_file(tgt, f.content)
                if rng.chance(1, 8):
                    # the complete export image is a symbolic link to the real file kept elsewhere (outside the
                    # scan directories): opened through its path it is the export image like any other
                    real = (b"bystander", b"real_%d_%d" % (w.gts.index(g), fi))
                    del w.files[tgt]
                    w.add_file(real, f.content)
                    w.symlinks[tgt] = real
                    for k in range(1, len(tgt)):
                        w.dirs.add(tgt[:k])
                elif rng.chance(1, 3):
                    # a complete export image that is also reachable under another name (hard link) in a scan
                    # directory: the run must recognise it as the export image itself and leave it alone
                    group[0] += 1
                    w.files[tgt] = (f.content, group[0])
                    for a in range(rng.range(1, 3)):
                        w.add_file(rng.choice(scan_names) + (b"alias%d_%d" % (group[0], a),), f.content, group[0])
            elif k == 1 and f.length > 0:
                w.add_file(tgt, f.content[:rng.below(f.length)])            # shorter
            elif k == 2:
                w.add_file(tgt, f.content + rng.bytes(rng.range(1, 3)))      # longer
            elif k == 3:
                w.add_file(tgt, corrupt(rng, f.content))                     # same length, damaged
            elif k == 4 and f.length > 1:
                cut = rng.below(f.length)
                w.add_file(tgt, f.content[:cut] + bytes(f.length - cut))     # partially downloaded
            # candidates in scan directories
            ncand = rng.choice([0, 1, 1, 1, 2, 3])
            for c in range(ncand):
                sd = rng.choice(w.scan)
                kind = rng.below(10)
                good = f.content
                if kind < 5:
                    content = good
                elif kind < 7:
                    content = corrupt(rng, good)
                elif kind < 8 and f.length > 1:
                    cut = rng.below(f.length)
                    content = good[:cut] + corrupt(rng, good[cut:])
                else:
                    content = gen_content(rng, f.length)
                where = rng.below(4)
                if where == 0:
                    path = sd + (g.name,) + tuple(f.path) if g.multi else sd + (g.name,)   # same relative layout
                elif where == 1:
                    path = sd + (b"moved%d" % c, f.path[-1])                                # same file name elsewhere
                elif where == 2:
                    path = sd + (b"r%d_%d_%d" % (w.gts.index(g), fi, c),)                   # renamed
                else:
                    # renamed to something that is not valid UTF-8 (Latin-1 file names survive on many disks); same
                    # directory for all of them, so that several tie on similarity
                    path = sd + (rng.choice([b"caf\xe9_%d_%d_%d.bin", b"\xff\xfe_%d_%d_%d"]) % (w.gts.index(g), fi, c),)
                if path in w.files:
                    continue
                if not w.add_file(path, content):
                    continue
                if rng.chance(1, 7):
                    w.modes[path] = rng.choice([0o000, 0o200, 0o111, 0o400])     # permission bits are not access rights (root reads anyway)
                if rng.chance(1, 6):
                    group[0] += 1
                    w.files[path] = (content, group[0])
                    w.add_file(rng.choice(w.scan) + (b"link%d" % group[0],), content, group[0])
    # presentation
    if rng.chance(1, 10):
        inside = sorted(d for d in w.dirs if len(d) > len(w.export) and d[:len(w.export)] == w.export)
        if inside:
            w.scan.append(rng.choice(inside))          # a directory INSIDE the export tree as a scan directory
    if rng.chance(1, 5):
        w.scan.append(w.export)                        # export directory among the scan directories
    elif rng.chance(1, 8):
        w.scan.append(())                              # the whole sandbox (contains export, bystanders, other scan dirs)
    if rng.chance(1, 5):
        # symbolic links below a scan directory: to a same-length file kept elsewhere, to a directory, dangling, and a loop
        sd = rng.choice(w.scan) if w.scan else None
        if sd is not None and sd != w.export and sd != ():
            w.ghost_links = {}
            for g in w.gts:
                for f in g.files:
                    if not f.pad and f.length > 0 and rng.chance(1, 2):
                        real = (b"bystander", b"linked_%d" % len(w.ghost_links))
                        if w.add_file(real, f.content):
                            w.ghost_links[sd + (b"sym%d" % len(w.ghost_links),)] = real      # correct data, reachable only through a link
            for g in w.gts:
                for f in g.files:
                    if not f.pad and f.length > 0 and rng.chance(1, 2):
                        # a link whose OWN size (the length of its target string) is the declared length of a torrent file;
                        # it leads nowhere — a walk that looks at the link itself must not take it for a candidate
                        w.ghost_links[sd + (b"len%d_%d" % (f.length, len(w.ghost_links)),)] = b"g" * f.length
            w.ghost_links[sd + (b"symdir",)] = (b"bystander",)
            w.ghost_links[sd + (b"dangling",)] = (b"no", b"such", b"file")
            w.ghost_links[sd + (b"loop",)] = sd
    if rng.chance(1, 8):
        # the same scan directories spelled with redundant separators or `.` components (what a script joining
        # "$BASE/" and "/sub" produces); the export directory keeps its plain spelling
        def odd(comps):
            parts = [c.decode("utf-8", "surrogateescape") for c in comps]
            k = rng.below(4)
            if not parts:
                return rng.choice([".", "./.", ""])
            j = rng.below(len(parts))
            if k == 0:
                parts[j] = "./" + parts[j]
            elif k == 1:
                parts[j] = "/" + parts[j]
            elif k == 2:
                parts[-1] = parts[-1] + "/."
            else:
                parts[-1] = parts[-1] + "//"
            return "/".join(parts)
        w.scan_args = ["\x00ABS/" + odd(sd) for sd in w.scan]
    if rng.chance(1, 6):
        w.docs = w.docs + [rng.choice(w.docs)]         # a torrent listed twice
    if rng.chance(1, 3):
        w.docs = rng.shuffle(w.docs)
    w.resize = rng.chance(1, 3)
    return w

# ---------------------------------------------------------------- execution

def path_bytes(root, comps):
    return os.path.join(root.encode(), *comps) if comps else root.encode()

def materialise(w, base):
    root = os.path.join(base, "r")
    os.makedirs(root)
    w.mounted = []
    for m in sorted(getattr(w, "mounts", [])):
        mp = path_bytes(root, m)
        os.makedirs(mp, exist_ok=True)
        if subprocess.run(["mount", "-t", "tmpfs", "-o", "size=16m", "tmpfs", mp], stdout=subprocess.DEVNULL, stderr=subprocess.DEVNULL).returncode == 0:
            w.mounted.append(mp)
    # creation order matters on a fresh tmpfs (inode numbers are handed out sequentially): directories and files are
    # created in the order the world lists them when it says so
    for d in (getattr(w, "dir_order", None) or sorted(w.dirs)):
        os.makedirs(path_bytes(root, d), exist_ok=True)
    groups = {}
    for p, (content, grp) in sorted(w.files.items()):
        fp = path_bytes(root, p)
        os.makedirs(os.path.dirname(fp), exist_ok=True)
        if grp is not None and grp in groups:
            os.link(groups[grp], fp)
        else:
            with open(fp, "wb") as f:
                f.write(content)
            if grp is not None:
                groups[grp] = fp
    for p, tgt in sorted(w.symlinks.items()):
        fp = path_bytes(root, p)
        os.makedirs(os.path.dirname(fp), exist_ok=True)
        if any(tuple(p[:len(sd)]) == tuple(sd) for sd in w.scan):
            # the directory walk skips symbolic links while the model's tree has only names of inodes: below a scan
            # directory the extra name is made a hard link (the model covers symbolic links at export images only)
            os.link(path_bytes(root, tgt), fp)
        else:
            os.symlink(path_bytes(root, tgt), fp)
    if getattr(w, "mirror_export", None):
        # an rsnapshot-style mirror of the file system from the root, below a scan directory: copies of the export images
        # at <scan>/<mirror>/<absolute path of the image>
        top = path_bytes(root, w.mirror_export)
        for p, (content, grp) in sorted(w.files.items()):
            if p[:len(w.export)] == w.export and len(p) > len(w.export):
                fp = top + path_bytes(root, p)
                os.makedirs(os.path.dirname(fp), exist_ok=True)
                with open(fp, "wb") as f:
                    f.write(content)
    for p in sorted(getattr(w, "fifos", [])):
        fp = path_bytes(root, p)
        os.makedirs(os.path.dirname(fp), exist_ok=True)
        os.mkfifo(fp)
    for p, tgt in sorted(getattr(w, "dir_links", {}).items()):
        # a directory given to the tool through a symbolic link (a scan argument that is a link to a directory)
        fp = path_bytes(root, p)
        os.makedirs(os.path.dirname(fp), exist_ok=True)
        os.symlink(path_bytes(root, tgt), fp)
    for p, mode in sorted(getattr(w, "modes", {}).items()):
        if os.path.lexists(path_bytes(root, p)):
            os.chmod(path_bytes(root, p), mode)      # permission bits (the checks run as root: every file stays readable)
    for p, size in sorted(w.sparse.items()):
        fp = path_bytes(root, p)
        os.makedirs(os.path.dirname(fp), exist_ok=True)
        with open(fp, "wb"):
            pass
        os.truncate(fp, size)
    tdir = os.path.join(base, "t")
    os.makedirs(tdir)
    tpaths = []
    import hashlib as _hl
    for i, d in enumerate(w.docs):
        # some collections name torrent files by a digest of the FILE (40 hex digits that are not the info-hash)
        tp = os.path.join(tdir, ("%s.torrent" % _hl.sha1(b"%d" % i + d).hexdigest()) if getattr(w, "hex_names", False) or i % 3 == 2 else "%d.torrent" % i)
        with open(tp, "wb") as f:
            f.write(d)
        tpaths.append(tp)
    return root, tpaths

def snapshot(root, skip=(), follow=()):
    """(dirs, files{path tuple: (content, ino)}) below root; `skip`: names the model does not know (ghost links);
    `follow`: symbolic links to directories that are presented as the directories they lead to (the same files under a
    second path, with the same identities — what a tool walking `link/` sees)"""
    dirs, files = [], {}
    rb = root.encode()
    walks = [(rb, ())] + [(os.path.realpath(path_bytes(root, p)), tuple(p)) for p in follow]
    import stat as _stat
    for top, prefix in walks:
      for dp, dn, fn in os.walk(top):
        rel = os.path.relpath(dp, top)
        comps = prefix + (() if rel == b"." else tuple(rel.split(b"/")))
        if comps:
            dirs.append(comps)
        for f in fn:
            if comps + (f,) in skip:
                continue
            fp = os.path.join(dp, f)
            try:
                st = os.lstat(fp)
            except OSError:
                files[comps + (f,)] = (b"<unreachable by path>", (0, len(files)))      # beyond PATH_MAX
                continue
            if not (_stat.S_ISREG(st.st_mode) or _stat.S_ISLNK(st.st_mode)):
                # a FIFO, socket or device: something that exists and is neither a directory nor a regular file the tool
                # could read — presented as an empty file, never opened here
                files[comps + (f,)] = (b"", (st.st_dev, st.st_ino))
                continue
            if os.path.islink(fp):
                # a symbolic link to a regular file is, for a tool that opens paths, one more name of that file:
                # it is presented (to the model too) under the inode and content of its target
                try:
                    st = os.stat(fp)
                except OSError:
                    continue
            ident = (st.st_dev, st.st_ino)        # a file's identity is (device, inode): inode numbers repeat across devices
            if st.st_size > (1 << 26):
                files[comps + (f,)] = (b"<sparse %d>" % st.st_size, ident)     # never read: it has no data blocks
                continue
            with open(fp, "rb") as h:
                files[comps + (f,)] = (h.read(), ident)
    return dirs, files

def ptok(comps):
    return "/".join(hx(c) for c in comps) if comps else "."

def rel(root, absolute_hex):
    """hex absolute path from the log -> component tuple relative to the sandbox root"""
    p = b"" if absolute_hex == "-" else bytes.fromhex(absolute_hex)
    rb = root.encode()
    if b"/../" in p or p.endswith(b"/.."):
        # what `dir/..` names is decided by the file system (dir may be a symbolic link): resolve up to the last `..`
        cut = p.rfind(b"/..") + 3
        p = os.path.realpath(p[:cut]) + p[cut:]
    if p == rb:
        return ()
    if p.startswith(rb + b"/"):
        # redundant separators and `.` components of an oddly spelled argument are not components
        return tuple(c for c in p[len(rb) + 1:].split(b"/") if c not in (b"", b"."))
    return (b"\x00OUTSIDE",) + tuple(c for c in p.split(b"/") if c)

def _limit_memory():
    import resource
    resource.setrlimit(resource.RLIMIT_AS, (2 << 30, 2 << 30))
    # the tool keeps one file open per worker at a time: a low descriptor limit costs a correct run nothing and makes
    # descriptor leaks (handles kept across a whole pass) visible
    resource.setrlimit(resource.RLIMIT_NOFILE, (96, 96))

PROGRESS = re.compile(r"Success: (\d+), Failed: (\d+), Faulted: (\d+), Total: (\d+)")

class RunResult:
    pass

def execute(w, keep=False, timeout=None):
    """materialise the world, run the tool on it, return a RunResult with the request/observation tokens"""
    if timeout is None:
        # a run of a generated world takes milliseconds; the worlds with a hundred thousand pieces take some 13 s on an idle
        # machine (most of it the harness printing its log) and get a budget that a loaded machine does not exhaust
        timeout = getattr(w, "time_limit", 30)
    base = tempfile.mkdtemp(prefix="tbv-", dir=SHM)
    try:
        root, tpaths = materialise(w, base)
        # ghost links: symbolic links below scan directories (to files and to directories). The directory walk of the
        # tool skips symbolic links, so for the model they do not exist; they must still be there, unchanged, afterwards
        ghosts = getattr(w, "ghost_links", {})
        for p, tgt in sorted(ghosts.items()):
            fp = path_bytes(root, p)
            os.makedirs(os.path.dirname(fp), exist_ok=True)
            os.symlink(tgt if isinstance(tgt, bytes) else path_bytes(root, tgt), fp)     # bytes: a raw (relative) target string
        follow = sorted(getattr(w, "dir_links", {}))
        before_dirs, before_files = snapshot(root, set(ghosts), follow)
        export_arg = w.export_arg if w.export_arg is not None else os.path.join(root, *[c.decode("utf-8", "surrogateescape") for c in w.export])
        if export_arg.startswith("\x00ABS/"):
            export_arg = root + "/" + export_arg[len("\x00ABS/"):]
        args = [C.TBH, "run", "--export", export_arg]
        scan_args = w.scan_args if w.scan_args is not None else [os.path.join(root, *[c.decode("utf-8", "surrogateescape") for c in s]) for s in w.scan]
        scan_args = [root + "/" + a[len("\x00ABS/"):] if a.startswith("\x00ABS/") else a for a in scan_args]   # (not os.path.join: a leading "/" must stay a redundant separator)
        r_scan_abs = [a.startswith("/") for a in scan_args]
        for s in scan_args:
            args += ["--scan", s]
        for t in tpaths:
            args += ["--torrent", t]
        args += ["--threads", str(w.threads)]
        if w.resize:
            args.append("--resize")
        for f in w.faults:
            args += ["--fault", str(f)]
        if w.crash is not None:
            args += ["--crash", "%d,%d" % w.crash]
        if getattr(w, "sched", None) is not None:
            args += ["--sched", str(w.sched)]
        for k in getattr(w, "meta_faults", []):
            args += ["--meta-fault", str(k)]
        if getattr(w, "sched_fs", None) is not None:
            args += ["--sched-fs", str(w.sched_fs)]
        if getattr(w, "partial", None) is not None:
            args += ["--partial", "%d,%d" % w.partial]
        try:
            p = subprocess.run(args, cwd=root, stdout=subprocess.PIPE, stderr=subprocess.PIPE, timeout=timeout, preexec_fn=_limit_memory)
            out, rc = p.stdout.decode("utf-8", "replace"), p.returncode
            err = p.stderr.decode("utf-8", "replace")
        except subprocess.TimeoutExpired as e:
            out, rc, err = (e.stdout or b"").decode("utf-8", "replace"), "timeout", ""
        after_dirs, after_files = snapshot(root, set(ghosts), follow)
        r = RunResult()
        r.ghost_changed = any((not os.path.islink(path_bytes(root, p))) or os.readlink(path_bytes(root, p)) != (tgt if isinstance(tgt, bytes) else path_bytes(root, tgt))
                              for p, tgt in ghosts.items())
        r.world, r.root, r.rc, r.stdout, r.stderr = w, root, rc, out, err
        r.scan_abs = r_scan_abs
        r.before_dirs, r.before_files, r.after_dirs, r.after_files = before_dirs, before_files, after_dirs, after_files
        parse_output(r)
        build_lines(r)
        return r
    finally:
        for mp in reversed(getattr(w, "mounted", [])):
            subprocess.run(["umount", "-l", mp], stdout=subprocess.DEVNULL, stderr=subprocess.DEVNULL)
        if not keep:
            shutil.rmtree(base, ignore_errors=True)

def parse_output(r):
    r.ops, r.searches, r.solves, r.counters, r.loaded, r.crashed = [], [], [], [], [], None
    r.result = None
    r.progress_total = None
    cur = {}
    opstart = {}
    r.piece_failed = []
    lines = r.stdout.split("\n")
    r.truncated = False
    if lines and lines[-1] != "":
        # the process died (killed at the time limit, emulated crash, abort) in the middle of a line: that line is not evidence
        lines = lines[:-1]; r.truncated = True
    for line in lines:
        try:
            parse_line(r, line, cur, opstart)
        except (ValueError, IndexError):
            if r.rc == 0:
                raise                                            # a run that returned normally never prints a malformed line
            r.truncated = True
    for thread, (h, segs) in sorted(cur.items()):
        r.solves.append((thread, h, segs, "inflight"))      # the run died while this piece was being evaluated
        r.piece_failed.append(False)
    if r.result is None:
        r.result = "timeout" if r.rc == "timeout" else ("crash" if r.crashed is not None else "abort")

def parse_line(r, line, cur, opstart):
    if True:
        m = PROGRESS.search(line)
        if m and line.startswith("Availability"):
            r.counters.append((int(m.group(1)), int(m.group(2)), int(m.group(3))))
            r.progress_total = int(m.group(4))
            return
        if line.startswith("CWD "):
            r.cwd_changed = line.split()[1] != "same"
        if line.startswith("RESULT "):
            r.result = line.split()[1]
        elif line.startswith("LOADED "):
            r.loaded.append(line.split()[2])
        elif line.startswith("LOG "):
            t = line.split()[1:]
            if t[0] == "op":
                thread, kind, path = int(t[1]), t[2], rel(r.root, t[3])
                ok = t[-1]
                extra = t[4:-1]
                r.ops.append((thread, kind, path, extra, ok))
            elif t[0] == "searches":
                eid, ispad, flen, tgt = int(t[1]), t[2] == "1", int(t[3]), rel(r.root, t[4])
                if t[5] == "none":
                    r.searches.append((eid, ispad, flen, tgt, None))
                else:
                    r.searches.append((eid, ispad, flen, tgt, [rel(r.root, x) for x in t[6:6 + int(t[5])]]))
            elif t[0] == "solve":
                thread = int(t[1])
                if t[2] == "begin":
                    n = int(t[4])
                    segs = [(int(t[5 + 3 * k]), int(t[6 + 3 * k]), int(t[7 + 3 * k])) for k in range(n)]
                    cur[thread] = (t[3], segs)
                    opstart[thread] = len(r.ops)
                else:
                    h, segs = cur.pop(thread)
                    r.solves.append((thread, h, segs, t[3]))
                    # did a file operation of this worker fail while it evaluated this piece?
                    r.piece_failed.append(any(op[0] == thread and (op[4] == "err" or op[4].startswith("part")) for op in r.ops[opstart.get(thread, 0):]))
            elif t[0] == "crash":
                r.crashed = (int(t[1]), int(t[2]))

def op_tokens(op):
    thread, kind, path, extra, ok = op
    if ok.startswith("part"):
        ok = "err"
    if kind == "write":
        return [kind, ptok(path), extra[0], extra[1], "ok" if ok == "ok" else "err"]
    if kind in ("setlen", "seek"):
        return [kind, ptok(path), extra[0], "ok" if ok == "ok" else "err"]
    return [kind, ptok(path), "ok" if ok == "ok" else "err"]

def build_lines(r):
    w = r.world
    # inode numbering: small ids in order of first appearance
    inos = {}
    files_tok, inode_tok = [], []
    for p in sorted(r.before_files):
        content, ino = r.before_files[p]
        if ino not in inos:
            inos[ino] = len(inos) + 1
            inode_tok += [str(inos[ino]), hx(content)]
        files_tok += [ptok(p), str(inos[ino])]
    req = ["run", "H", str(len(w.docs))] + [hx(d) for d in w.docs]
    exp_abs = w.export_arg is None or w.export_arg.startswith("/") or w.export_arg.startswith("\x00ABS/")
    req += ["E", "1" if exp_abs else "0", ptok(w.export)]
    req += ["S", str(len(w.scan))]
    for i, s in enumerate(w.scan):
        req += ["1" if r.scan_abs[i] else "0", ptok(s)]
    req += ["R", "1" if w.resize else "0", "T", str(w.threads)]
    req += ["F", str(len(r.before_dirs))] + [ptok(d) for d in sorted(r.before_dirs)]
    req += [str(len(r.before_files))] + files_tok + [str(len(inos))] + inode_tok
    q = [(eid, paths) for (eid, ispad, flen, tgt, paths) in r.searches if paths is not None]
    req += ["Q", str(len(q))]
    for eid, paths in q:
        req += [str(eid), str(len(paths))] + [ptok(p) for p in paths]
    req += ["O", str(len(r.solves))]
    for thread, h, segs, outcome in r.solves:
        req += [str(len(segs))] + [str(x) for s in segs for x in s] + [h]
    allfaults = list(w.faults) + ([w.partial[0]] if getattr(w, "partial", None) is not None else [])
    req += ["X", str(len(allfaults))] + [str(f) for f in allfaults]
    # ground truth per metadata entry id: torrents sorted by info-hash, duplicates dropped, files in order
    truth = []
    seen = set()
    docs_loaded = [d for d, l in zip(w.docs, r.loaded)] if False else None
    gts = sorted({g.info_hash: g for g in w.gts if g.doc in w.docs}.values(), key=lambda g: g.info_hash)
    eid = 0
    for g in gts:
        for f in g.files:
            truth.append((eid, f.content)); eid += 1
    if not w.has_truth:
        truth = []
    if getattr(w, "truth_tokens", None):
        req += w.truth_tokens          # a replayed world carries its ground truth as it was stated
    else:
        req += ["G", str(len(truth))] + [x for e, c in truth for x in (str(e), hx(c))]
    req += ["U", str(len(r.solves))] + [outcome for thread, h, segs, outcome in r.solves]
    req += ["V", str(len(r.piece_failed))] + ["1" if x else "0" for x in r.piece_failed]
    pw = sorted({op[2] for op in r.ops if op[4].startswith("part") and op[4] != "part0"})
    req += ["W", str(len(pw))] + [ptok(p) for p in pw]
    if w.crash is not None:
        req += ["K", str(w.crash[0]), str(w.crash[1])]
    ops = [op for op in r.ops if op[4] != "cut"]
    obs = ["RES", r.result, "OPS", str(len(ops))]
    for op in ops:
        obs += op_tokens(op)
    obs += ["CNT", str(len(r.counters))] + [str(x) for c in r.counters for x in c]
    obs += ["TOTAL", str(r.progress_total if r.progress_total is not None else 0)]
    obs += ["FS", str(len(r.after_dirs))] + [ptok(d) for d in sorted(r.after_dirs)]
    obs += [str(len(r.after_files))]
    for p in sorted(r.after_files):
        obs += [ptok(p), hx(r.after_files[p][0])]
    r.request = " ".join(req)
    r.observation = " ".join(obs)
    r.line = r.request + " | " + r.observation

def world_from_line(line, summary=None):
    """rebuilds the world of a stored `run` request line (replay files): documents, arguments, directories, files with
    their hard-link groups, faults / crash point, ground truth. What a request line does not carry (relative argument
    spellings, mount points of two-device worlds, the partial-write length) comes from the summary next to it, or is
    reported in `w.replay_notes`."""
    summary = summary or {}
    t = line.split(" | ")[0].split(" ")
    unp = lambda tok: () if tok == "." else tuple(b"" if c == "-" else bytes.fromhex(c) for c in tok.split("/"))
    unh = lambda tok: b"" if tok == "-" else bytes.fromhex(tok)
    w = World(); w.replay_notes = []
    k = t.index("H") + 1
    n = int(t[k]); w.docs = [unh(x) for x in t[k + 1:k + 1 + n]]; k += 1 + n
    assert t[k] == "E"; eabs = t[k + 1] == "1"; w.export = unp(t[k + 2]); k += 3
    assert t[k] == "S"; n = int(t[k + 1]); k += 2
    w.scan = []; sabs = []
    for _ in range(n):
        sabs.append(t[k] == "1"); w.scan.append(unp(t[k + 1])); k += 2
    if not eabs or not all(sabs):
        w.replay_notes.append("some directory arguments were relative in the original run; replayed as absolute paths")
    assert t[k] == "R"; w.resize = t[k + 1] == "1"; assert t[k + 2] == "T"; w.threads = int(t[k + 3]); k += 4
    assert t[k] == "F"; n = int(t[k + 1]); w.dirs = set(unp(x) for x in t[k + 2:k + 2 + n]); k += 2 + n
    n = int(t[k]); k += 1
    names = []
    for _ in range(n):
        names.append((unp(t[k]), int(t[k + 1]))); k += 2
    n = int(t[k]); k += 1
    content = {}
    for _ in range(n):
        content[int(t[k])] = unh(t[k + 1]); k += 2
    count = {}
    for _, ino in names:
        count[ino] = count.get(ino, 0) + 1
    w.files = {p: (content[ino], ino if count[ino] > 1 else None) for p, ino in names}
    k = t.index("X", k); n = int(t[k + 1]); faults = [int(x) for x in t[k + 2:k + 2 + n]]; k += 2 + n
    partial = summary.get("partial")
    if partial:
        w.partial = tuple(partial); faults = [f for f in faults if f != partial[0]]
    elif any(tok.startswith("part") for tok in line.split(" ")):
        w.replay_notes.append("a partial write was injected in the original run; its length is not part of the request line")
    w.faults = faults
    assert t[k] == "G"; n = int(t[k + 1]); w.truth_tokens = t[k:k + 2 + 2 * n]
    w.has_truth = n > 0
    if "K" in t[k:]:
        kk = t.index("K", k); w.crash = (int(t[kk + 1]), int(t[kk + 2]))
    w.meta_faults = summary.get("meta_faults", []) or []
    w.sched_fs = summary.get("sched_fs")
    w.tag = summary.get("tag", "replay")
    if w.tag == "more than 100000 pieces":
        w.time_limit = 600
    return w

# ---------------------------------------------------------------- special-purpose generators

def gen_small_world(rng):
    """one torrent, few files, few candidates: short operation logs (fault / crash enumeration)"""
    w = gen_world(rng, ntorrents=1)
    return w

def gen_world_c14(rng):
    """every non-padding file gets an explicit prior export state: absent / shorter / exact / longer"""
    w = gen_world(rng, ntorrents=rng.choice([1, 1, 2]))
    for g in w.gts:
        for f in g.files:
            if f.pad:
                continue
            tgt = tuple(g.target(w.export, f))
            w.files.pop(tgt, None)
            state = rng.below(8)
            if state in (0, 1):
                continue
            if state in (2, 3, 4) and f.length > 0:
                w.add_file(tgt, f.content[:rng.below(f.length)] if rng.chance(1, 2) else corrupt(rng, f.content)[:rng.below(f.length)])
            elif state in (5, 6):
                w.add_file(tgt, f.content if rng.chance(1, 2) else corrupt(rng, f.content))
            elif state == 7:
                w.add_file(tgt, f.content + rng.bytes(rng.range(1, 4)))
    w.resize = rng.chance(3, 4)
    return w

def gen_world_c16(rng, i):
    """argument validation and degenerate-but-loadable torrents"""
    w = gen_world(rng, ntorrents=rng.choice([1, 2]))
    w.scan_args = None           # these worlds spell their arguments themselves
    k = i % 15
    root_rel = lambda comps: "/".join(c.decode("utf-8", "surrogateescape") for c in comps) or "."      # the sandbox root itself, relatively: "."
    if k == 0:
        w.scan_args = None; w.export_arg = root_rel(w.export); w.tag = "export relative"
    elif k == 1:
        j = rng.below(len(w.scan))
        w.scan_args = ["\x00ABS" + "/" + root_rel(s) for s in w.scan]
        w.scan_args[j] = root_rel(w.scan[j]); w.tag = "scan %d relative" % j
    elif k == 2:
        w.scan.insert(rng.below(len(w.scan) + 1), (b"missing-dir",)); w.tag = "scan missing"
    elif k == 3:
        w.scan.insert(rng.below(len(w.scan) + 1), (b"bystander", b"note.txt")); w.tag = "scan is a file"
    elif k == 4:
        old = w.export[0]
        w.export = (b"no-such-export",); w.dirs.discard((old,)); w.tag = "export missing"
        w.files = {p: v for p, v in w.files.items() if p[0] != old}
        w.dirs = {d for d in w.dirs if d[0] != old}
        w.symlinks = {p: t for p, t in w.symlinks.items() if p[0] != old}
        w.scan = [sd for sd in w.scan if not sd or sd[0] != old]; w.scan_args = None
    elif k == 5:
        old = w.export[0]
        w.export = (b"bystander", b"note.txt"); w.tag = "export is a file"
        w.files = {p: v for p, v in w.files.items() if p[0] != old}
        w.symlinks = {p: t for p, t in w.symlinks.items() if p[0] != old}
    elif k == 6:
        w.docs = []; w.tag = "no torrents"
    elif k == 7:
        w.docs = [b"not bencode", b"d4:infod4:name1:aee"]; w.has_truth = False; w.tag = "no loadable torrent"
    elif k == 8:
        w.docs = w.docs + [b"i1e"]; w.tag = "one unloadable torrent among good ones"
    elif k == 11:
        # an unloadable file FIRST (a truncated download), then the good ones: each file is loaded on its own
        w.docs = [w.docs[0][: max(1, len(w.docs[0]) // 2)]] + w.docs; w.tag = "unloadable torrent first"
    elif k == 12:
        # the two halves of one good torrent as two files: neither loads
        d = w.docs[0]; w.docs = [d[: len(d) // 2], d[len(d) // 2:]] + w.docs[1:]; w.tag = "a torrent split over two files"
        w.has_truth = False
    elif k == 13:
        # something that exists and is neither a directory nor a regular file, as a scan directory
        w.fifos = [(b"bystander", b"pipe")]
        w.scan.insert(rng.below(len(w.scan) + 1), (b"bystander", b"pipe")); w.tag = "scan is a FIFO"
    elif k == 14:
        old = w.export[0]
        w.fifos = [(b"bystander", b"pipe")]
        w.export = (b"bystander", b"pipe"); w.tag = "export is a FIFO"
        w.files = {p: v for p, v in w.files.items() if p[0] != old}
        w.symlinks = {p: t for p, t in w.symlinks.items() if p[0] != old}
    elif k == 9:
        # enormous declared lengths: nothing on disk has them, the run must simply report the pieces as failed
        big = rng.choice([2**62, 2**63, 2**64 - 1, 2**40])
        if rng.chance(1, 2):
            doc = G.benc(G.meta_doc(name=b"huge", piece_length=big, length=big, nhashes=1))
        else:
            doc = G.benc(G.meta_doc(name=b"hugepad", piece_length=big, files=[(big, [b".pad", b"1"]), (3, [b"x"])], nhashes=2))
        w.docs = w.docs + [doc]; w.has_truth = False; w.tag = "enormous declared length"
    return w

def transform_presentation(rng, w, k):
    """C17: another presentation of the same world"""
    import copy
    v = copy.copy(w)
    v.docs = list(w.docs); v.scan = list(w.scan); v.files = dict(w.files); v.dirs = set(w.dirs)
    if k in (2, 3, 4, 5):
        v.scan_args = None          # the list of scan directories changes: plain spellings
    if k == 0:
        v.docs = rng.shuffle(v.docs); v.tag = "torrents permuted"
    elif k == 1:
        v.docs = v.docs + [rng.choice(v.docs)]; v.docs = rng.shuffle(v.docs); v.tag = "torrent listed twice"
    elif k == 2:
        v.scan = rng.shuffle(v.scan); v.tag = "scan directories permuted"
    elif k == 3:
        v.scan = v.scan + [rng.choice(v.scan)]; v.tag = "scan directory repeated"
    elif k == 4:
        nested = [s[:-1] for s in v.scan if len(s) > 1]
        v.scan = v.scan + (nested[:1] if nested else [v.scan[0]]); v.tag = "enclosing directory also scanned"
    elif k == 5:
        if w.export not in v.scan:
            v.scan = v.scan + [w.export]
        v.tag = "export directory among the scan directories"
    else:
        v.threads = rng.choice([0, 2, 3, 5]); v.tag = "threads=%d" % v.threads
    return v


def world_from_snapshot(w, dirs, files):
    """the same arguments on the tree a previous run left behind (hard-link groups kept by inode)"""
    import copy
    v = copy.copy(w)
    v.crash = None; v.faults = []
    v.dirs = set(tuple(d) for d in dirs)
    v.files = {}
    v.symlinks = {}; v.sparse = {}     # the snapshot presents a link under its target's identity: re-created as a hard link
    groups = {}
    for p, (content, ino) in files.items():
        groups.setdefault(ino, []).append(p)
    for p, (content, ino) in files.items():
        v.files[tuple(p)] = (content, ino if len(groups[ino]) > 1 else None)
    return v


def gen_world_dup_path(rng):
    """D6: one torrent listing the same path twice (loadable: nothing in the format forbids it)"""
    w = World()
    fa = TFile(5, [b"x"], gen_content(rng, 5))
    fb = TFile(4, [b"x"], gen_content(rng, 4))
    g = GT(b"dup", 3, [fa, fb], True)
    w.gts = [g]; w.docs = [g.doc]
    w.dirs.add(w.export)
    w.scan = [(b"scan0",)]
    w.add_file((b"scan0", b".keep"), b"k")
    w.add_file((b"scan0", b"a5"), fa.content)
    w.add_file((b"scan0", b"b4"), fb.content)
    w.add_file((b"bystander", b"note.txt"), b"do not touch")
    w.tag = "duplicate path inside one torrent (D6)"
    return w


def gen_fault_world(rng):
    """C13 / C11: one torrent whose pieces span several files, every file present once in a scan directory and
    nothing exported yet — every piece is evaluated through the multi-segment matcher and written segment by segment"""
    w = World()
    n = rng.range(2, 4)
    files = []
    for i in range(n):
        ln = rng.range(1, 6)
        files.append(TFile(ln, [b"m%d" % i] if rng.chance(2, 3) else [b"sub", b"m%d" % i], gen_content(rng, ln)))
    if rng.chance(1, 3):
        files.insert(rng.below(len(files) + 1), TFile(rng.range(1, 3), [b".pad", b"%d" % rng.below(9)], b"", pad=True))
        files = [TFile(f.length, f.path, bytes(f.length), True) if f.pad else f for f in files]
    g = GT(b"span", rng.choice([4, 7, 8, 16]), files, True)
    w.gts = [g]; w.docs = [g.doc]
    w.dirs.add(w.export)
    w.scan = [(b"scan0",)]
    w.add_file((b"scan0", b".keep"), b"k")
    for i, f in enumerate(g.files):
        if not f.pad:
            w.add_file((b"scan0", b"src%d" % i), f.content)
    if rng.chance(1, 3):
        f = rng.choice([f for f in g.files if not f.pad])
        w.add_file(tuple(g.target(w.export, f)), f.content)     # one file already exported
    w.add_file((b"bystander", b"note.txt"), b"do not touch")
    return w


def execute_cli(w, timeout=60):
    """run the real command-line binary (built from /repo without the verification cfg) on the world"""
    base = tempfile.mkdtemp(prefix="tbc-", dir=SHM)
    try:
        root, tpaths = materialise(w, base)
        export_arg = w.export_arg if w.export_arg is not None else os.path.join(root, *[c.decode("utf-8", "surrogateescape") for c in w.export])
        if export_arg.startswith("\x00ABS/"):
            export_arg = root + "/" + export_arg[len("\x00ABS/"):]
        args = [C.REPO_BIN, "--export", export_arg]
        scan_args = w.scan_args if w.scan_args is not None else [os.path.join(root, *[c.decode("utf-8", "surrogateescape") for c in s]) for s in w.scan]
        scan_args = [root + "/" + a[len("\x00ABS/"):] if a.startswith("\x00ABS/") else a for a in scan_args]
        args += ["--scan"] + scan_args
        args += ["--torrents"] + tpaths
        args += ["--threads", str(w.threads)]
        if w.resize:
            args.append("--resize-export-files")
        r = RunResult()
        r.world = w
        try:
            p = subprocess.run(args, cwd=root, stdout=subprocess.PIPE, stderr=subprocess.PIPE, timeout=timeout)
            r.rc, r.stdout, r.stderr = p.returncode, p.stdout.decode("utf-8", "replace"), p.stderr.decode("utf-8", "replace")
        except subprocess.TimeoutExpired as e:
            r.rc, r.stdout, r.stderr = "timeout", (e.stdout or b"").decode("utf-8", "replace"), ""
        r.after_dirs, r.after_files = snapshot(root)
        r.counters = []
        r.progress_total = None
        for line in r.stdout.split("\n"):
            m = PROGRESS.search(line)
            if m and line.startswith("Availability"):
                r.counters.append((int(m.group(1)), int(m.group(2)), int(m.group(3))))
                r.progress_total = int(m.group(4))
        r.unable = r.stderr.count("Unable to load torrent")
        r.error_line = any(l.startswith("Error:") for l in r.stderr.split("\n"))
        return r
    finally:
        shutil.rmtree(base, ignore_errors=True)


def gen_world_many_candidates(rng, k):
    """C17 / C02: a piece spanning two files, each with k unrelated readable same-length candidates next to the
    genuine one — the search must stay exhaustive however many candidates there are (more candidates never hurt)"""
    w = World()
    fa = TFile(6, [b"a.bin"], b"AAAAaa")
    fb = TFile(6, [b"b.bin"], b"bbBBBB")
    g = GT(b"many", 4, [fa, fb], True)
    w.gts = [g]; w.docs = [g.doc]
    w.dirs.add(w.export)
    w.scan = [(b"genuine",), (b"extra",)]
    w.add_file((b"genuine", b"a.bin"), fa.content)
    w.add_file((b"genuine", b"b.bin"), fb.content)
    w.add_file((b"extra", b".keep"), b"k")
    for i in range(k):
        # pairwise distinct at [0..2] and [4..6]
        body = bytes([1 + i // 250, 1 + i % 250]) + b"zz" + bytes([1 + i % 250, 1 + i // 250])
        w.add_file((b"extra", b"x%04d" % i), body)
    w.add_file((b"bystander", b"note.txt"), b"do not touch")
    w.tag = "many candidates (%d per file)" % k
    return w


def gen_world_many_pieces(rng):
    """C05: one or two single-file torrents of 12-60 tiny pieces each; the file of one of them may be absent from
    the scan directories (its pieces are rejected at once), so that one worker runs dry and rebalances while the
    others still hold work — the schedules in which queue locks are contended"""
    w = World()
    n = rng.choice([1, 2, 2])
    w.dirs.add(w.export)
    w.scan = [(b"scan0",)]
    w.add_file((b"scan0", b".keep"), b"k")
    for i in range(n):
        L = rng.choice([1, 2, 3])
        ln = L * rng.range(12, 60) - rng.below(L)
        f = TFile(ln, [b"many%d" % i], gen_content(rng, ln))
        g = GT(b"many%d" % i, L, [f], False)
        w.gts.append(g)
        if i == 0 or rng.chance(1, 2):
            w.add_file((b"scan0", b"src%d" % i), f.content if rng.chance(3, 4) else corrupt(rng, f.content))
    w.docs = [g.doc for g in w.gts]
    w.add_file((b"bystander", b"note.txt"), b"do not touch")
    w.tag = "many pieces"
    return w


def gen_world_many_segments(rng, n):
    """C16: a loadable torrent whose single piece spans n+1 files (n empty files and one real one; the same shape as
    thousands of tiny files under a large piece length): the matcher works on as many segments as the torrent says"""
    w = World()
    real = TFile(3, [b"real"], gen_content(rng, 3))
    files = [TFile(0, [b"d%d" % (i % 7), b"e%06d" % i], b"") for i in range(n)]
    files.insert(rng.below(n + 1), real)
    g = GT(b"manyfiles", 4, files, True)
    w.gts = [g]; w.docs = [g.doc]
    w.dirs.add(w.export)
    w.scan = [(b"scan0",)]
    w.add_file((b"scan0", b"real"), real.content)
    w.add_file((b"bystander", b"note.txt"), b"do not touch")
    w.has_truth = False
    w.tag = "many segments in one piece"
    return w


def gen_world_cross_seed(rng):
    """C04 / C17: the same content published twice (a cross-seed: identical name, files and pieces, another value of the
    uninterpreted info key `source`), hence two info-hashes and two export subtrees with files of the same relative path
    and length. Export states: both complete (an idle run must write nothing), one complete, none; the payload may
    or may not still be in the scan directory."""
    w = World()
    multi = rng.chance(1, 2)
    L = rng.choice([2, 3, 4, 8])
    if multi:
        files = [TFile(ln, [b"f%d" % i], gen_content(rng, ln)) for i, ln in enumerate([rng.range(1, 9) for _ in range(rng.range(1, 3))])]
    else:
        ln = rng.range(1, 12)
        files = [TFile(ln, [b"shared.bin"], gen_content(rng, ln))]
    name = b"shared.bin" if not multi else b"album"
    a = GT(name, L, files, multi, extra_info=[(b"source", b"A")])
    b = GT(name, L, files, multi, extra_info=[(b"source", b"B")])
    w.gts = [a, b]; w.docs = [a.doc, b.doc]
    if rng.chance(1, 2):
        w.docs.reverse()
    w.dirs.add(w.export)
    w.scan = [(b"scan0",)]
    w.add_file((b"scan0", b".keep"), b"k")
    state = rng.below(4)          # 0: both complete, 1: A only, 2: B only, 3: none
    for g, have in ((a, state in (0, 1)), (b, state in (0, 2))):
        if have:
            for f in files:
                w.add_file(tuple(g.target(w.export, f)), f.content)
    if state == 3 or rng.chance(1, 2):
        for f in files:
            w.add_file((b"scan0", name) + (tuple(f.path) if multi else ()), f.content)
    w.add_file((b"bystander", b"note.txt"), b"do not touch")
    w.threads = rng.choice([1, 1, 2])
    w.tag = "cross-seed state %d" % state
    return w


def gen_world_shrinking_candidate(rng):
    """C17 / C02: a candidate that SHRINKS during the run. Torrent A's export image is a stale, longer file whose length
    equals the declared length of torrent B's file; with the export directory among the scan directories it is a candidate for B; writing A's first piece truncates it, and B's later
    pieces read it short. B's own data sits in a scan directory and must still be recovered."""
    w = World()
    la = rng.range(4, 8); lb = la + rng.range(2, 6)
    fa = TFile(la, [b"f.bin"], gen_content(rng, la)); fb = TFile(lb, [b"f.bin"], gen_content(rng, lb))
    a = GT(b"f.bin", rng.choice([1, 2]), [fa], False, extra_root=[(b"comment", b"A")])        # many pieces: scheduled first
    b = GT(b"f.bin", max(2, lb // 2), [fb], False, extra_root=[(b"comment", b"B")])
    w.gts = [a, b]; w.docs = [a.doc, b.doc]
    w.dirs.add(w.export)
    w.scan = [(b"scan0",)]
    w.add_file((b"scan0", b"a_payload.dat"), fa.content)
    w.add_file((b"scan0", b"b_payload.dat"), fb.content)
    stale = gen_content(rng, lb)
    img = tuple(a.target(w.export, fa))
    # (a hard link to the stale image inside a scan directory would do as well, but then the legitimate rewrite of the
    #  image changes a file reached through a scan directory: C03 and C12 cannot both hold — the theorems' `NoAlias`)
    k = rng.below(2)
    if k == 0:
        w.add_file(img, stale); w.scan.append(w.export)
    else:
        w.add_file(img, stale); w.scan.insert(0, ())
    w.add_file((b"bystander", b"note.txt"), b"do not touch")
    w.threads = 1
    w.tag = "shrinking candidate %d" % k
    return w


def gen_world_big_files(rng):
    """files of several kilobytes (every other world has files of a few bytes): thresholds such as a 4096-byte read
    window, a buffer size or a page boundary only matter here. One multi-file torrent whose pieces span files, complete
    copies in the scan directory, plus a decoy agreeing with the genuine file on its first 4096 bytes."""
    w = World()
    n = rng.range(2, 3)
    files = [TFile(ln, [b"big%d" % i], gen_content(rng, ln)) for i, ln in enumerate([rng.range(4500, 9000) for _ in range(n)])]
    L = rng.choice([4096, 8192, 16384])
    g = GT(b"bigt", L, files, True)
    w.gts = [g]; w.docs = [g.doc]
    w.dirs.add(w.export)
    w.scan = [(b"scan0",)]
    for i, f in enumerate(files):
        w.add_file((b"scan0", b"src%d" % i), f.content)
        if rng.chance(1, 2):
            w.add_file((b"scan0", b"decoy%d" % i), f.content[:4096] + corrupt(rng, f.content[4096:]))
    w.add_file((b"bystander", b"note.txt"), b"do not touch")
    w.tag = "big files"
    return w


def gen_world_resize_huge(rng):
    """C14 at the 2^64 limit: files of 2^62 (or 2^61, 2^63-1) declared bytes whose export images exist and are short, with
    the resize flag: every image must be extended (sparsely) to its declared length — the missing bytes of all images
    together exceed 2^64. Judged on the outcome (the model would have to materialise the zeros)."""
    w = World()
    k = rng.below(3)
    big = [1 << 62, 1 << 62, 1 << 62, 1 << 62] if k == 0 else ([(1 << 63) - 1, (1 << 63) - 1, 2] if k == 1 else [1 << 61] * 8)
    L = max(big)
    total = sum(big)
    doc = G.benc(G.meta_doc(name=b"huge", piece_length=L, files=[(n, [b"h%d" % i]) for i, n in enumerate(big)], nhashes=(total + L - 1) // L))
    w.docs = [doc]; w.has_truth = False
    w.dirs.add(w.export)
    w.scan = [(b"scan0",)]
    w.add_file((b"scan0", b".keep"), b"k")
    import hashlib
    infod = [v for kk, v in G.meta_doc(name=b"huge", piece_length=L, files=[(n, [b"h%d" % i]) for i, n in enumerate(big)], nhashes=(total + L - 1) // L)[1] if kk == b"info"][0]
    hexhash = hashlib.sha1(G.benc(infod)).hexdigest().encode()
    w.expect_lengths = {}
    for i, n in enumerate(big):
        p = w.export + (hexhash, b"Data", b"huge", b"h%d" % i)
        w.add_file(p, b"" if rng.chance(2, 3) else b"xy")
        w.expect_lengths[p] = n
    w.add_file((b"bystander", b"note.txt"), b"do not touch")
    w.resize = True
    w.tag = "enormous declared length"
    return w


def gen_world_scan_root_link(rng):
    """C02: a scan argument that is a symbolic link to a directory (`/collection -> /mnt/disk2/collection`); the data is
    reachable only through it"""
    w = gen_world(rng, ntorrents=rng.choice([1, 2]))
    w.scan_args = None; w.ghost_links = {}
    real = w.scan[0]
    if real == () or real == w.export:
        return w
    link = (b"links", b"to_" + real[-1])
    w.dirs.add((b"links",))
    w.dir_links = {link: real}
    w.scan = [link] + [sd for sd in w.scan[1:] if sd != ()]      # only the link leads to the first scan directory
    w.tag = "scan directory given through a symbolic link"
    return w


def gen_world_mount_below_scan(rng):
    """C17 / C02: a file-system boundary strictly BELOW a scan directory (a disk mounted at S/inner); the only copy of
    the data lives on it"""
    w = World()
    ln = rng.range(4, 12)
    f = TFile(ln, [b"one"], gen_content(rng, ln))
    g = GT(b"one", rng.choice([2, 3, 4]), [f], False)
    w.gts = [g]; w.docs = [g.doc]
    w.dirs.add(w.export)
    w.scan = [(b"outerm",)]
    w.mounts = [(b"outerm", b"inner")]
    w.dirs |= {(b"outerm",), (b"outerm", b"inner"), (b"outerm", b"inner", b"sub")}
    w.files[(b"outerm", b"inner", b"sub", b"renamed.dat")] = (f.content, None)
    w.files[(b"outerm", b"plain.txt")] = (b"k", None)
    w.add_file((b"bystander", b"note.txt"), b"do not touch")
    w.threads = rng.choice([1, 3])
    w.tag = "mount point below a scan directory"
    return w


def gen_world_same_dir_many_files(rng):
    """C05: many files of one NEW, deep directory, one piece each, written by many workers at once under the real OS
    scheduler (no deterministic scheduling: the window is between two calls the facade does not see)"""
    w = World()
    n = rng.range(8, 14)
    depth = rng.choice([3, 20, 45])
    files = [TFile(6, [b"lv%02d" % k for k in range(depth)] + [b"f%02d" % i], gen_content(rng, 6)) for i in range(n)]
    g = GT(b"deep", 6, files, True)
    w.gts = [g]; w.docs = [g.doc]
    w.dirs.add(w.export)
    w.scan = [(b"scan0",)]
    for i, f in enumerate(files):
        w.add_file((b"scan0", b"src%02d" % i), f.content)
    w.add_file((b"bystander", b"note.txt"), b"do not touch")
    w.threads = 8
    w.tag = "first writes below a new directory"
    return w


def gen_world_many_short_images(rng):
    """C14: some hundred export images, all shorter than declared, with the resize flag (every one must be extended; the
    process may hold only a few descriptors at a time)"""
    w = World()
    n = rng.range(110, 160)
    # (pairwise different lengths: candidates are looked up by length, and a piece spanning twenty files with a hundred
    #  same-length candidates each would be a search of 100^20 combinations — the tool's design, not this check's subject)
    files = [TFile(3 + i, [b"d%d" % (i % 5), b"s%03d" % i], gen_content(rng, 3 + i)) for i in range(n)]
    g = GT(b"manyshort", 4096, files, True)
    w.gts = [g]; w.docs = [g.doc]
    w.dirs.add(w.export)
    w.scan = [(b"scan0",)]
    w.add_file((b"scan0", b".keep"), b"k")
    for f in files:
        w.add_file(tuple(g.target(w.export, f)), f.content[:rng.below(f.length)])
    w.add_file((b"bystander", b"note.txt"), b"do not touch")
    w.resize = True
    w.tag = "many short images"
    return w


def gen_world_linked_cross_seed(rng):
    """C11 / C04: two cross-seeded torrents whose export images are ONE file (the user hard-linked them); the image holds
    some verified pieces, the rest comes from a scan copy — writing through one name must not cost the other its data"""
    w = gen_world_cross_seed(rng)
    a, b = w.gts
    grp = 900
    for f in a.files:
        pa, pb = tuple(a.target(w.export, f)), tuple(b.target(w.export, f))
        w.files.pop(pa, None); w.files.pop(pb, None)
        cut = rng.below(f.length + 1)
        partial = f.content[:cut] + bytes(f.length - cut)
        grp += 1
        w.add_file(pa, partial, grp); w.add_file(pb, partial, grp)
        # the missing part only as a damaged copy in the scan directory (good tail, bad head)
        w.files.pop((b"scan0", a.name) + (tuple(f.path) if a.multi else ()), None)
        w.add_file((b"scan0", b"tail_" + f.path[-1]), corrupt(rng, f.content[:cut]) + f.content[cut:])
    w.threads = 1
    w.tag = "hard-linked export images of two cross-seeds"
    return w


def gen_world_short_last_digest(rng):
    """C01: a metainfo document whose `pieces` string is cut inside the last digest (20*(n-1)+k bytes). It is not
    well-formed and must not load; if it does, a decoy whose SHA-1 shares the first k bytes must still not be written."""
    import hashlib
    w = World()
    L = 4
    ln = L * rng.range(2, 4) + rng.range(1, 3)
    f = TFile(ln, [b"data.bin"], gen_content(rng, ln))
    g = GT(b"data.bin", L, [f], False)
    n = len(g.hashes)
    k = 1
    good_tail = f.content[(n - 1) * L:]
    want = g.hashes[-1][:k]
    decoy_tail = None
    for t in range(1, 5000):
        cand = bytes((x + t * (i + 1)) & 0xff for i, x in enumerate(good_tail))
        if cand != good_tail and all(c != d for c, d in zip(cand, good_tail)) and hashlib.sha1(cand).digest()[:k] == want:
            decoy_tail = cand; break
    doc = G.benc(G.meta_doc(name=b"data.bin", piece_length=L, length=ln, hashes=b"".join(g.hashes[:-1]) + want))
    w.gts = [g]; w.docs = [doc]
    w.dirs.add(w.export)
    w.scan = [(b"scan0",)]
    w.add_file((b"scan0", b"decoy.bin"), f.content[:(n - 1) * L] + (decoy_tail or good_tail))
    w.add_file((b"bystander", b"note.txt"), b"do not touch")
    w.has_truth = False
    w.tag = "last digest cut short"
    return w


def gen_world_infohash_prefix_pair(rng):
    """C12 corpus: two torrents whose info-hashes share their first 8 bytes (corpus/infohash_prefix_pair.json). Anything
    keyed by a truncated hash binds B's first file to A's export image; a correct run writes nothing here (neither
    torrent's data is present)."""
    import json
    d = json.load(open(os.path.join(os.path.dirname(os.path.dirname(os.path.abspath(__file__))), "corpus", "infohash_prefix_pair.json")))
    doc = lambda info_hex: b"d4:info" + bytes.fromhex(info_hex) + b"e"
    w = World()
    w.docs = [doc(d["B_info"]), doc(d["A_info"])] if rng.chance(1, 2) else [doc(d["A_info"]), doc(d["B_info"])]
    w.has_truth = False
    w.dirs.add(w.export)
    w.scan = [(b"scan0",)]
    w.add_file((b"scan0", b"sixty.bin"), bytes((i * 7 + 3) & 255 for i in range(60)))
    w.add_file((b"scan0", b"hundred.bin"), bytes((i * 13 + 1) & 255 for i in range(100)))
    w.add_file((b"bystander", b"note.txt"), b"do not touch")
    w.threads = rng.choice([1, 1, 2])
    w.tag = "info-hashes sharing a 64-bit prefix"
    return w


def gen_world_short_image(rng):
    """fault worlds: an export image left SHORT by a client that does not pre-allocate, holding some verified pieces; the
    complete file is in the scan directory. Whatever fails while the rest is written, the verified pieces stay."""
    w = World()
    L = rng.choice([2, 3, 4])
    n = rng.range(3, 5)
    ln = L * n - rng.below(L)
    f = TFile(ln, [b"short.bin"], gen_content(rng, ln))
    g = GT(b"short.bin", L, [f], False)
    w.gts = [g]; w.docs = [g.doc]
    w.dirs.add(w.export)
    w.scan = [(b"scan0",)]
    w.add_file((b"scan0", b"complete.bin"), f.content)
    w.add_file(tuple(g.target(w.export, f)), f.content[: L * rng.range(1, n - 1)])
    w.add_file((b"bystander", b"note.txt"), b"do not touch")
    return w


def gen_world_zero_piece_stale(rng):
    """C11 / C02: a piece whose true content is all zeros, an export image of full length holding STALE non-zero bytes
    there (what a cut-off or faulty download leaves), the correct file in a scan directory: the zeros must be written"""
    w = World()
    L = rng.choice([2, 3, 4])
    n = rng.range(3, 5)
    z = rng.below(n)
    content = b"".join(bytes(L) if i == z else gen_content(rng, L) for i in range(n))
    multi = rng.chance(1, 2)
    if multi:
        cut = rng.range(1, len(content) - 1)
        files = [TFile(cut, [b"p0"], content[:cut]), TFile(len(content) - cut, [b"p1"], content[cut:])]
    else:
        files = [TFile(len(content), [b"zeros.bin"], content)]
    g = GT(b"zeros.bin" if not multi else b"zz", L, files, multi)
    w.gts = [g]; w.docs = [g.doc]
    w.dirs.add(w.export)
    w.scan = [(b"scan0",)]
    for i, f in enumerate(files):
        w.add_file((b"scan0", b"good%d" % i), f.content)
        stale = bytes((x ^ 0xAA) if (z * L <= sum(ff.length for ff in files[:i]) + k < (z + 1) * L) else x for k, x in enumerate(f.content))
        w.add_file(tuple(g.target(w.export, f)), stale)
    w.add_file((b"bystander", b"note.txt"), b"do not touch")
    w.tag = "stale bytes where the torrent has zeros"
    return w


def gen_world_sparse_placeholder(rng):
    """C14: empty export placeholders of files of several kilobytes, one of them all zeros in the torrent, with the resize
    flag: the pre-flight extends them (sparsely: no data blocks) and they then count as sources"""
    w = World()
    la, lb = rng.range(4200, 9000), rng.range(50, 300)
    fa = TFile(la, [b"a.bin"], bytes(la))
    fb = TFile(lb, [b"b.bin"], gen_content(rng, lb))
    g = GT(b"sparse", 16384, [fa, fb], True)
    w.gts = [g]; w.docs = [g.doc]
    w.dirs.add(w.export)
    w.scan = [(b"scan0",)]
    w.add_file((b"scan0", b"b.bin"), fb.content)
    w.add_file(tuple(g.target(w.export, fa)), b"")
    w.add_file((b"bystander", b"note.txt"), b"do not touch")
    w.resize = True
    w.tag = "empty placeholder of a zero file"
    return w


def gen_world_mirrored_export(rng):
    """C04: every piece already verifies in the export tree, and a scan directory holds a mirror of the file system from
    the root (so a candidate's path ENDS with the absolute export path, byte-wise); the run must write nothing"""
    w = World()
    n = rng.range(1, 3)
    files = [TFile(ln, [b"album", b"t%d.bin" % i], gen_content(rng, ln)) for i, ln in enumerate([rng.range(2, 9) for _ in range(n)])]
    g = GT(b"mirrored", rng.choice([2, 4, 8]), files, True)
    w.gts = [g]; w.docs = [g.doc]
    w.dirs.add(w.export)
    w.scan = [(b"backup",)]
    w.add_file((b"backup", b".keep"), b"k")
    for f in files:
        w.add_file(tuple(g.target(w.export, f)), f.content)
    w.mirror_export = (b"backup", b"daily.0")
    w.add_file((b"bystander", b"note.txt"), b"do not touch")
    w.threads = rng.choice([1, 3])
    w.tag = "mirror of the export tree below a scan directory"
    return w


def gen_world_dotdot_after_link(rng):
    """C03: the export (or a scan) argument contains `..` after a component that is a symbolic link to a directory: the
    directory meant is the one the file system resolves, not the one a lexical clean-up yields"""
    w = World()
    ln = rng.range(3, 9)
    f = TFile(ln, [b"payload.bin"], gen_content(rng, ln))
    g = GT(b"payload.bin", rng.choice([2, 4]), [f], False)
    w.gts = [g]; w.docs = [g.doc]
    w.export = (b"real", b"out")                      # what <root>/links/l/../out IS
    w.dirs |= {(b"real",), (b"real", b"sub"), (b"real", b"out"), (b"links",), (b"out",)}
    w.dir_links = {(b"links", b"l"): (b"real", b"sub")}
    w.export_arg = "\x00ABS/links/l/../out"
    w.scan = [(b"scan0",)]
    w.add_file((b"scan0", b"copy.bin"), f.content)
    # the lexically "cleaned" directory exists too and holds a file of the declared length at the image's place
    w.add_file((b"out", g.hexhash, b"Data", b"payload.bin"), gen_content(rng, ln))
    w.add_file((b"links", b"out", g.hexhash, b"Data", b"payload.bin"), gen_content(rng, ln))     # <root>/links/l/.. read lexically
    w.add_file((b"bystander", b"note.txt"), b"do not touch")
    w.resize = rng.chance(1, 2)
    w.threads = rng.choice([1, 3])
    w.tag = "export argument with .. after a symbolic link"
    return w


def gen_world_path_max(rng):
    """C01 / C03: export paths of PATH_MAX bytes or more whose directories are shorter (every component <= 255 bytes): the
    tool cannot open them by path and must report the pieces as faulted — without tricks that change process state.
    Judged on the outcome (the model has no path length limit)."""
    w = World()
    comp = lambda c: bytes([c]) * 250
    deep = [comp(97 + i) for i in range(15)]          # 15 * 251 = 3765 bytes of directories: with the sandbox prefix (< 100
    files = []                                        # bytes) the directory stays below 4096, the 250-byte file name does not
    for d in (b"A", b"B"):
        files.append(TFile(8, [d] + deep + [b"track-" + b"x" * 240 + b".bin"], gen_content(rng, 8)))
    g = GT(b"deep", 4, files, True)
    w.gts = [g]; w.docs = [g.doc]; w.has_truth = False
    w.dirs.add(w.export)
    w.scan = [(b"scan0",)]
    for i, f in enumerate(files):
        w.add_file((b"scan0", b"src%d" % i), f.content)
    w.add_file((b"bystander", b"note.txt"), b"do not touch")
    w.threads = rng.choice([1, 2, 4])
    w.tag = "export paths beyond PATH_MAX"
    return w


def gen_world_many_identical(rng):
    """C04: every piece already verifies, and the scan directory holds some thirty byte-identical copies of every file of a
    multi-file piece (more than the 20 elements up to which an unstable sort happens to be stable): nothing may be written"""
    w = World()
    files = [TFile(5, [b"i%d.bin" % i], gen_content(rng, 5)) for i in range(2)]
    g = GT(b"ident", 4, files, True)
    w.gts = [g]; w.docs = [g.doc]
    w.dirs.add(w.export)
    w.scan = [(b"scan0",)]
    for i, f in enumerate(files):
        w.add_file(tuple(g.target(w.export, f)), f.content)
        for k in range(rng.range(22, 34)):
            w.add_file((b"scan0", b"c%d" % k, b"copy%d" % i), f.content)
    w.add_file((b"bystander", b"note.txt"), b"do not touch")
    w.threads = rng.choice([1, 2])
    w.tag = "many identical copies, export complete"
    return w


def gen_world_hundred_thousand_pieces(rng):
    """C15: more than 100 000 pieces (one byte each): one progress line per piece, the last one accounting for all of them.
    Judged on the outcome (the model's list-based run is quadratic here)."""
    w = World()
    n = rng.choice([100003, 120000])
    f = TFile(n, [b"big.bin"], bytes((i * 7 + i // 251) & 255 for i in range(n)))
    g = GT(b"big.bin", 1, [f], False)
    w.gts = [g]; w.docs = [g.doc]; w.has_truth = False
    w.dirs.add(w.export)
    w.scan = [(b"scan0",)]
    w.add_file((b"scan0", b"copy.bin"), f.content)
    w.threads = rng.choice([1, 3])
    w.expect_lines = n
    w.tag = "more than 100000 pieces"
    w.time_limit = 600
    return w


def gen_world_link_length_missing(rng):
    """C16: a symbolic link below a scan directory whose own size (the length of its target string) equals the declared length
    of a torrent file that exists NOWHERE, and that file shares a piece with one that is present: the piece is simply not
    available — no candidate list may come out empty-but-present"""
    w = World()
    la, lb = rng.range(6, 12), rng.range(3, 9)
    fa = TFile(la, [b"a.bin"], gen_content(rng, la)); fb = TFile(lb, [b"b.bin"], gen_content(rng, lb))
    g = GT(b"lnk", la + lb + rng.range(0, 3), [fa, fb] if rng.chance(1, 2) else [fb, fa], True)
    w.gts = [g]; w.docs = [g.doc]
    w.dirs.add(w.export)
    w.scan = [(b"scan0",)]
    w.add_file((b"scan0", b"a.bin"), fa.content)
    w.ghost_links = {(b"scan0", b"latest"): b"./" + b"t" * (lb - 2) if lb >= 3 else b"x" * lb}
    w.add_file((b"bystander", b"note.txt"), b"do not touch")
    w.threads = rng.choice([1, 2])
    w.tag = "link whose size is a missing file's length"
    return w


def gen_world_trailing_empty(rng):
    """C06 at run level: a torrent whose total length is an exact multiple of the piece length and whose file list ENDS with
    empty files (they belong to no piece), run together with other torrents: every file of every torrent must still be
    bound to its own table entry, whatever the info-hash order"""
    w = World()
    L = rng.choice([2, 4])
    a = TFile(L * rng.range(1, 3), [b"a.bin"], gen_content(rng, L * 3)[:L * rng.range(1, 3)])
    a = TFile(len(a.content), a.path, a.content)
    empties = [TFile(0, [b"empty%d.txt" % i], b"") for i in range(rng.range(1, 2))]
    g1 = GT(b"alpha-%d" % rng.below(50), L, [a] + empties, True)
    c = TFile(rng.range(2, 7), [b"c.bin"], gen_content(rng, 7)); c = TFile(len(c.content[:c.length]), c.path, c.content[:c.length])
    d = TFile(rng.range(2, 7), [b"d.bin"], gen_content(rng, 7)); d = TFile(len(d.content[:d.length]), d.path, d.content[:d.length])
    g2 = GT(b"beta-%d" % rng.below(50), L, [c, d], True)
    w.gts = [g1, g2]; w.docs = [g1.doc, g2.doc]
    w.dirs.add(w.export)
    w.scan = [(b"scan0",)]
    for g in w.gts:
        for f in g.files:
            if f.length:
                w.add_file((b"scan0", g.name, f.path[-1]), f.content)
    w.add_file((b"bystander", b"note.txt"), b"do not touch")
    w.tag = "trailing empty files, several torrents"
    return w


def gen_world_wide_piece(rng):
    """C05 / C16: one piece spanning some seventy files, each with two byte-identical copies in the scan directories (as on a
    second run, when every file has its scan copy and its export copy): products of candidate counts pass 2^64"""
    w = World()
    n = rng.range(76, 86)
    files = [TFile(1 + i, [b"w%03d" % i], gen_content(rng, 1 + i)) for i in range(n)]
    g = GT(b"wide", 2100, files, True)            # two pieces: the first spans 64 files (1+2+…+64 = 2080 bytes), the second the rest
    w.gts = [g]; w.docs = [g.doc]
    w.dirs.add(w.export)
    w.scan = [(b"scan0",), (b"scan1",)]
    for i, f in enumerate(files):
        w.add_file((b"scan0", b"w%03d" % i), f.content)
        w.add_file((b"scan1", b"copy%03d" % i), f.content)
    w.add_file((b"bystander", b"note.txt"), b"do not touch")
    w.threads = rng.choice([1, 2, 0])
    w.tag = "one piece over seventy files with two copies each"
    return w


def gen_world_same_length_neighbours(rng):
    """C11 / C12 / C01: two or three single-file torrents of the SAME length, the same piece length and DIFFERENT payloads (file
    index 0 and the declared length coincide: whatever is remembered per (index, length) must not pass from one torrent
    to the next); every payload in a scan directory; sometimes the first torrent (in info-hash order, unknown here) is already
    exported from an earlier run"""
    w = World()
    n = rng.range(5, 13); L = rng.choice([2, 4, 5, 16])
    k = rng.range(2, 4)
    w.gts = [GT(b"n%d.bin" % i, L, [TFile(n, [b"n%d.bin" % i], gen_content(rng, n))], False) for i in range(k)]
    w.docs = [g.doc for g in w.gts]
    w.dirs.add(w.export)
    w.scan = [(b"scan0",)]
    for i, g in enumerate(w.gts):
        if rng.chance(3, 4):
            w.add_file((b"scan0", b"payload%d" % i), g.files[0].content)
        if rng.chance(1, 3):
            w.add_file(tuple(g.target(w.export, g.files[0])), g.files[0].content)      # exported by an earlier run
    w.add_file((b"bystander", b"note.txt"), b"do not touch")
    w.threads = 1
    w.tag = "same-length neighbours"
    return w


def gen_world_pad_named_candidates(rng):
    """C02: a file's NAME on disk never decides whether it is a candidate — only its length does. (1) a torrent file of real
    data whose path ends in `.pad/<digits>` below another directory (three components: not a padding file), kept in the scan
    directory under its own path; (2) a blank single-file torrent whose only source is the padding file another download
    left behind, `<album>/.pad/<n>`; (3) a real file kept as `.pad/<n>` directly below the scan directory."""
    w = World()
    la, lb, lz = rng.range(3, 9), rng.range(9, 15), rng.range(15, 22)
    digits = rng.choice([b"7", b"0", b"12", b"007", b"\xd9\xa3"])          # the last one: ARABIC-INDIC DIGIT THREE
    fa = TFile(la, [b"readme.txt"], gen_content(rng, la))
    fb = TFile(lb, [b"extras", b".pad", digits], gen_content(rng, lb))
    g1 = GT(b"Set", rng.choice([4, 5, 16]), [fa, fb], True)
    g2 = GT(b"blank.img", rng.choice([4, 8, 32]), [TFile(lz, [b"blank.img"], bytes(lz))], False)
    lc = lz + rng.range(1, 5)
    g3 = GT(b"plain.bin", rng.choice([4, 8, 32]), [TFile(lc, [b"plain.bin"], gen_content(rng, lc))], False)
    w.gts = [g1, g2, g3]; w.docs = [g.doc for g in w.gts]
    w.dirs.add(w.export)
    w.scan = [(b"scan0",)]
    w.add_file((b"scan0", b"Set", b"readme.txt"), fa.content)
    w.add_file((b"scan0", b"Set", b"extras", b".pad", digits), fb.content)
    w.add_file((b"scan0", b"Some Album", b".pad", b"%d" % lz), bytes(lz))
    w.add_file((b"scan0", b".pad", b"%d" % lc), g3.files[0].content)
    w.add_file((b"bystander", b"note.txt"), b"do not touch")
    w.threads = rng.choice([1, 1, 2, 0])
    w.tag = "candidates named like padding files"
    return w


def gen_world_name_max(rng):
    """C04 / C11 / C12: file names at the NAME_MAX boundary — one of exactly 255 bytes (exportable) and siblings that extend
    it (259 bytes: the OS refuses them). The long ones must fault; they must never land on the 255-byte file's image.
    Judged on the outcome (the model has no name-length limit)."""
    w = World()
    base = b"a" * 251 + b".bin"
    fa = TFile(8, [base], gen_content(rng, 8))
    fb = TFile(4, [base + b".sig"], gen_content(rng, 4))
    fc = TFile(4, [base + b".nfo"], gen_content(rng, 4))
    g = GT(b"nm", 4, [fa, fb, fc], True)
    w.gts = [g]; w.docs = [g.doc]; w.has_truth = False
    w.dirs.add(w.export)
    w.scan = [(b"scan0",)]
    for i, f in enumerate(g.files):
        w.add_file((b"scan0", b"src%d" % i), f.content)
    w.add_file((b"bystander", b"note.txt"), b"do not touch")
    w.threads = rng.choice([1, 2])
    w.expect_content = {tuple(g.target(w.export, fa)): fa.content}
    w.tag = "names beyond NAME_MAX"
    return w


def gen_world_truncated_neighbour(rng):
    """C12: torrent X's prior export image is LONGER than declared and has the length of torrent Y's first file, so it is a
    candidate for Y (the export directory is scanned). X's own piece is evaluated first (single-file pieces go first) and
    truncates the image; Y's piece then reads it short, and Y's digest is crafted to match that short assembly: the writer
    must fail on the missing bytes — but only after giving Y's image its declared length."""
    import hashlib
    w = World()
    lx, ly1, ly2 = rng.range(3, 6), rng.range(8, 12), rng.range(1, 3)
    fx = TFile(lx, [b"x.bin"], gen_content(rng, lx))
    gx = GT(b"x.bin", 16, [fx], False)
    stale = fx.content + gen_content(rng, ly1 - lx)                     # X's image: right head, over-long
    y2 = gen_content(rng, ly2)
    digest = hashlib.sha1(stale[:lx] + y2).digest()                    # what Y's piece hashes to once the image is truncated
    ydoc = G.benc(G.meta_doc(name=b"Y", piece_length=32, files=[(ly1, [b"y1"]), (ly2, [b"y2"])], hashes=digest))
    w.gts = [gx]; w.docs = [gx.doc, ydoc]; w.has_truth = False
    w.dirs.add(w.export)
    w.scan = [(b"scan0",), w.export]
    w.add_file(tuple(gx.target(w.export, fx)), stale)
    w.add_file((b"scan0", b"xsrc"), fx.content)
    w.add_file((b"scan0", b"y2src"), y2)
    w.add_file((b"bystander", b"note.txt"), b"do not touch")
    w.threads = 1
    w.tag = "neighbour image truncated before it is read"
    return w


def gen_world_misfiled(rng):
    """C01: export images that hold ANOTHER torrent file's (correct) bytes — a mis-filed download. The matcher may
    legitimately use such an image as the source of the other file's segment; what is written must still be the
    bytes that were hashed, not whatever the source holds at write time."""
    w = World()
    n = rng.range(2, 3)
    ln = rng.range(2, 6)
    files = [TFile(ln, [b"f%d" % i], gen_content(rng, ln)) for i in range(n)]
    L = rng.choice([ln * n, ln * n + 3, ln, 4])
    g = GT(b"misfiled", L, files, True)
    w.gts = [g]; w.docs = [g.doc]
    w.dirs.add(w.export)
    w.scan = [(b"scan0",)]
    w.add_file((b"scan0", b".keep"), b"k")
    i, j = rng.shuffle(list(range(n)))[:2]
    w.add_file(tuple(g.target(w.export, files[i])), files[j].content)       # image of file i holds file j's bytes
    for k, f in enumerate(files):
        if k != j or rng.chance(1, 3):
            w.add_file((b"scan0", b"src%d" % k), f.content)
    w.add_file((b"bystander", b"note.txt"), b"do not touch")
    w.tag = "mis-filed export image"
    return w


def gen_world_dup_path_resize(rng):
    """C14 on a torrent that lists one path twice with different declared lengths: the pre-flight must still compare the
    existing image with EVERY declared length (an image longer than any of them aborts the run)"""
    w = World()
    la, lb = rng.shuffle([rng.range(6, 10), rng.range(2, 5)])
    fa = TFile(la, [b"a"], gen_content(rng, la))
    fb = TFile(lb, [b"a"], gen_content(rng, lb))
    fc = TFile(rng.range(3, 8), [b"b"], b"")
    fc.content = gen_content(rng, fc.length)
    g = GT(b"dup2", rng.choice([3, 4, 16]), [fa, fb, fc], True)
    w.gts = [g]; w.docs = [g.doc]
    w.dirs.add(w.export)
    w.scan = [(b"scan0",)]
    w.add_file((b"scan0", b".keep"), b"k")
    lo, hi = min(la, lb), max(la, lb)
    state = rng.below(5)
    tgt = tuple(g.target(w.export, fa))
    if state == 1:
        w.add_file(tgt, rng.bytes(rng.below(lo)))                   # shorter than both
    elif state == 2:
        w.add_file(tgt, rng.bytes(rng.range(lo + 1, hi - 1) if hi - lo > 1 else lo))   # between the two declared lengths
    elif state == 3:
        w.add_file(tgt, rng.bytes(hi + rng.range(1, 3)))            # longer than both
    elif state == 4:
        w.add_file(tgt, rng.bytes(lo))
    tb = tuple(g.target(w.export, fc))
    if rng.chance(1, 2):
        w.add_file(tb, fc.content[:rng.below(fc.length)])
    w.add_file((b"bystander", b"note.txt"), b"do not touch")
    w.resize = rng.chance(4, 5)
    w.has_truth = True
    w.tag = "duplicate path inside one torrent (D6), resize"
    return w


def gen_world_sparse_candidate(rng):
    """C16: a candidate of enormous (sparse) size really exists on disk: lengths the machine cannot hold in memory
    must fault the piece, not abort the process"""
    w = gen_world(rng, ntorrents=1)
    big = rng.choice([2**40, 2**41 + 5])
    if rng.chance(1, 2):
        doc = G.benc(G.meta_doc(name=b"hugefile", piece_length=big, length=big, nhashes=1))
    else:
        doc = G.benc(G.meta_doc(name=b"hugemulti", piece_length=big + 4, files=[(big, [b"big"]), (4, [b"tail"])], nhashes=1))
        w.add_file(w.scan[0] + (b"tail4",), b"tail")
    w.docs = w.docs + [doc]
    w.sparse[w.scan[0] + (b"sparse.bin",)] = big
    w.has_truth = False
    w.threads = 1
    w.tag = "enormous declared length"
    return w

def gen_world_short_match(rng, flip=False):
    """C16: a torrent crafted so that a SHORT read hashes to the piece hash: the image `x` is listed twice (5 and 2
    bytes); the 2-byte entry's piece truncates the image, after which the 5-byte entry's segment reads short, and
    the piece hash was chosen to be the hash of exactly those short bytes — the writer must not slice past the
    end of the matched bytes"""
    w = World()
    bB, bA, bC = gen_content(rng, 2), gen_content(rng, 5), gen_content(rng, 3)
    files = [(2, [b"x"]), (6, [b".pad", b"0"]), (5, [b"x"]), (3, [b"c"])]
    h0 = hashlib.sha1(bB + bytes(6)).digest()
    h1 = hashlib.sha1(bB + bC).digest()                  # crafted: hash of the short read of `x` followed by `c`
    info_files = files if not flip else files
    doc = G.meta_doc(name=b"crafted", piece_length=8, files=info_files, hashes=h0 + h1)
    w.docs = [G.benc(doc)]
    infod = [v for k, v in doc[1] if k == b"info"][0]
    hexhash = hashlib.sha1(G.benc(infod)).hexdigest().encode()
    w.dirs.add(w.export)
    w.scan = [(b"scan0",)]
    w.add_file((b"scan0", b"b2"), bB)
    w.add_file((b"scan0", b"c3"), bC)
    w.add_file(w.export + (hexhash, b"Data", b"crafted", b"x"), bA)      # 5 bytes: registered as a candidate of the 5-byte entry
    w.add_file((b"bystander", b"note.txt"), b"do not touch")
    w.has_truth = False
    w.tag = "short read matching a crafted hash"
    return w


def gen_world_two_devices(rng):
    """C02 / C17: scan and export directories on two different file systems whose inode numbers coincide (a fresh
    tmpfs hands them out sequentially): files are the same object only if device AND inode agree"""
    w = World()
    ln = rng.range(4, 9)
    f = TFile(ln, [b"one"], gen_content(rng, ln))
    g = GT(b"one", rng.choice([2, 3, 4]), [f], False)
    w.gts = [g]; w.docs = [g.doc]
    w.export = (b"export",)
    w.scan = [(b"scanm",)]
    w.mounts = [(b"export",), (b"scanm",)]
    tgt = tuple(g.target(w.export, f))                      # export/<hash>/Data/one : two directories, then the file
    w.dirs = {(b"export",), (b"scanm",), tgt[:2], tgt[:3], (b"scanm", b"d1"), (b"scanm", b"d1", b"d2")}
    w.dir_order = [(b"export",), (b"scanm",), tgt[:2], tgt[:3], (b"scanm", b"d1"), (b"scanm", b"d1", b"d2")]
    cut = rng.below(ln)
    w.files[tgt] = (f.content[:cut] + bytes(ln - cut), None)            # declared length, zero tail: a partial download
    w.files[(b"scanm", b"d1", b"d2", b"copy")] = (f.content, None)      # the complete copy, first file of its file system too
    w.tag = "scan and export on two devices with equal inode numbers"
    return w
