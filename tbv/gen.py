"""Seeded generators for the unit-level streams (bencode strings, metainfo documents, layouts)."""
import hashlib, itertools
from .common import Rng, hx

# ---------------------------------------------------------------- bencode values
# python representation: int | bytes | list | ('d', [(key bytes, value), ...])  (pairs kept in list order so
# that non-canonical orders can be expressed)

def benc(v):
    if isinstance(v, bool):
        raise TypeError
    if isinstance(v, int):
        return b"i%de" % v
    if isinstance(v, bytes):
        return b"%d:%s" % (len(v), v)
    if isinstance(v, list):
        return b"l" + b"".join(benc(x) for x in v) + b"e"
    if isinstance(v, tuple) and v[0] == 'd':
        return b"d" + b"".join(benc(k) + benc(x) for k, x in v[1]) + b"e"
    if isinstance(v, tuple) and v[0] == 'raw':
        return v[1]
    raise TypeError(repr(v))

def D(*pairs, sort=True):
    ps = list(pairs)
    if sort:
        ps.sort(key=lambda kv: kv[0])
    return ('d', ps)

INTERESTING_INTS = [0, 1, -1, 9, 10, 2**31, 2**32, 2**63 - 1, 2**63, 2**64 - 1, 2**64, 2**127 - 1, -(2**127), 2**127, -(2**127) - 1, 2**128, 10**38, 10**39, 17014118346046923173168730371588410572 * 10 + 7, -(17014118346046923173168730371588410572 * 10 + 8), 17014118346046923173168730371588410572 * 10 + 8, -(17014118346046923173168730371588410572 * 10 + 9)]
DELIMS = b"dei l:0123456789-"

def gen_bytes(rng, maxlen=6):
    k = rng.below(10)
    n = rng.below(maxlen + 1)
    if k < 4:
        return bytes(rng.choice(DELIMS) for _ in range(n))
    if k < 7:
        return bytes(rng.range(97, 122) for _ in range(n))
    return rng.bytes(n)

def gen_int(rng):
    k = rng.below(10)
    if k < 4:
        return rng.range(-20, 20)
    if k < 7:
        return rng.choice(INTERESTING_INTS) + rng.range(-2, 2)
    bits = rng.range(1, 130)
    v = rng.next() | (rng.next() << 64) | (rng.next() << 128)
    v &= (1 << bits) - 1
    return -v if rng.chance(1, 2) else v

def gen_value(rng, depth=3):
    k = rng.below(10)
    if depth <= 0:
        k = k % 5
    if k < 2:
        return gen_int(rng)
    if k < 5:
        return gen_bytes(rng)
    if k < 7:
        return [gen_value(rng, depth - 1) for _ in range(rng.below(4))]
    keys = set()
    for _ in range(rng.below(4)):
        keys.add(gen_bytes(rng, 4))
    # prefix-related keys are the interesting case for ordering
    if keys and rng.chance(1, 3):
        k0 = rng.choice(sorted(keys))
        keys.add(k0 + bytes([rng.below(256)]))
    return D(*[(kk, gen_value(rng, depth - 1)) for kk in keys])

def mutate_bytes(rng, s):
    """small byte-level mutations that hit the decoder's edge cases"""
    s = bytearray(s)
    k = rng.below(12)
    pos = rng.below(len(s) + 1)
    if k == 0 and s:
        del s[rng.below(len(s))]
    elif k == 1:
        s.insert(pos, rng.choice(DELIMS))
    elif k == 2 and s:
        s[rng.below(len(s))] = rng.choice(DELIMS)
    elif k == 3:
        s = s[:pos]                         # truncation
    elif k == 4:
        s += bytes([rng.choice(DELIMS)])    # trailing byte
    elif k == 5:
        s.insert(pos, ord('0'))             # leading zero somewhere
    elif k == 6:
        s.insert(pos, ord('-'))
    elif k == 7 and s:
        i = rng.below(len(s)); s[i] = (s[i] + rng.choice([1, 255])) % 256
    elif k == 8:
        s = s + s[:rng.below(len(s) + 1)]
    elif k == 9 and len(s) > 2:
        i = rng.below(len(s) - 1); s[i], s[i + 1] = s[i + 1], s[i]
    elif k == 10:
        s.insert(pos, rng.below(256))
    else:
        s = bytearray(b"l") + s + b"e"
    return bytes(s)

def mutate_value(rng, v):
    """structure-level mutations: key swap / duplication, numeric boundary games; returns bytes"""
    k = rng.below(6)
    if isinstance(v, tuple) and v[0] == 'd' and len(v[1]) >= 1:
        ps = list(v[1])
        if k == 0 and len(ps) >= 2:
            i = rng.below(len(ps) - 1); ps[i], ps[i + 1] = ps[i + 1], ps[i]
            return benc(('d', ps))
        if k == 1:
            i = rng.below(len(ps)); ps.insert(i, ps[i])
            return benc(('d', ps))
        if k == 2:
            i = rng.below(len(ps)); ps[i] = (ps[i][0], ('raw', b""))     # key without value
            return benc(('d', ps))
        if k == 3:
            i = rng.below(len(ps)); ps[i] = (('raw', b"i1e"), ps[i][1])   # non-string key
            return benc(('d', ps))
    return mutate_bytes(rng, benc(v))

def numeric_adversaries():
    out = []
    for n in [2**63 - 1, 2**63, 2**64 - 2, 2**64 - 1, 2**64, 2**64 + 1, 10**19, 10**20, 1844674407370955161, 18446744073709551610, 18446744073709551616, 99999999999999999999]:
        for tail in [b"", b"a", b"abc"]:
            out.append(b"%d:%s" % (n, tail))
            out.append(b"l%d:%se" % (n, tail))
            out.append(b"d1:a%d:%se" % (n, tail))
    for v in INTERESTING_INTS:
        for d in (-1, 0, 1):
            out.append(b"i%de" % (v + d))
    out += [b"i-0e", b"i00e", b"i01e", b"i-e", b"ie", b"i", b"i-", b"i1", b"0:", b"00:", b"01:a", b"1:", b"2:a", b"-1:a",
            b"d1:a1:b1:a1:ce", b"d1:b1:x1:a1:ye", b"d1:a1:x2:a\x001:ye", b"d2:a\x001:x1:a1:ye", b"d0:1:x0:1:ye", b"d0:1:xe",
            b"de", b"le", b"lle", b"llee", b"d1:ade", b"d1:adee", b"d1:aie", b"0:0:", b"l0:0:e", b"i1ei2e", b"lei1e"]
    return out

ALPHABET = b"0129:-ildea"
def exhaustive_strings(maxlen):
    for n in range(0, maxlen + 1):
        for t in itertools.product(ALPHABET, repeat=n):
            yield bytes(t)

# ---------------------------------------------------------------- metainfo documents

def fake_hash(i):
    return hashlib.sha1(b"piece%d" % i).digest()

def ceil_div(a, b):
    return (a + b - 1) // b if b > 0 else 0

def meta_doc(name=b"t", piece_length=4, files=None, length=None, nhashes=None, extra_root=(), extra_info=(), name_utf8=None,
             path_utf8=False, hashes=None):
    """a well-formed document unless the caller breaks it; files = [(length, [components])]"""
    info = []
    total = length if length is not None else sum(f[0] for f in (files or []))
    if nhashes is None:
        nhashes = ceil_div(total, piece_length) if piece_length > 0 else 0
        assert hashes is not None or nhashes <= 4096, "generator bug: document with %d hashes" % nhashes
    if hashes is None:
        hashes = b"".join(fake_hash(i) for i in range(nhashes))
    info.append((b"name", name))
    if name_utf8 is not None:
        info.append((b"name.utf-8", name_utf8))
    info.append((b"piece length", piece_length))
    info.append((b"pieces", hashes))
    if length is not None:
        info.append((b"length", length))
    if files is not None:
        fl = []
        for f in files:
            mode = f[2] if len(f) > 2 else ("utf8" if path_utf8 else "path")
            comps = [c for c in f[1]]
            if mode == "path":
                ent = [(b"length", f[0]), (b"path", comps)]
            elif mode == "utf8":
                ent = [(b"length", f[0]), (b"path.utf-8", comps)]
            elif mode == "both":                      # the utf-8 variant wins; `path` holds something else
                ent = [(b"length", f[0]), (b"path", [b"WRONG"] + comps[1:]), (b"path.utf-8", comps)]
            elif mode == "both-empty-utf8":          # the utf-8 variant is present (a list) and EMPTY: it still takes precedence
                ent = [(b"length", f[0]), (b"path", comps), (b"path.utf-8", [])]
            else:                                     # "both-mistyped": a non-list path.utf-8 is ignored
                ent = [(b"length", f[0]), (b"path", comps), (b"path.utf-8", b"not-a-list")]
            fl.append(D(*ent))
        info.append((b"files", fl))
    info += list(extra_info)
    root = [(b"info", D(*info))] + list(extra_root)
    return D(*root)

# (U+FFFD, U+FFFE/U+FFFF, U+0000-free controls and the last code point are ordinary characters of a valid UTF-8 string)
WORDS = [b"a", b"b", b"file", b"x.bin", b"dir", b"sub", b"\xc3\xa9t\xc3\xa9", b"a b", b"data.01", b"\xe6\x97\xa5\xe6\x9c\xac", b".pad", b"0", b"12", b"..x", b"x..", b"...",
         b"caf\xef\xbf\xbd", b"\xef\xbf\xbd", b"\xef\xbf\xbe", b"\xf4\x8f\xbf\xbf", b"\x7f", b"\x01x",
         b"a\\b", b"..\\..\\x", b"\\", b"C:\\x"]
BAD_COMPONENTS = [b"", b".", b"..", b"a/b", b"/abs", b"/", b"../x", b"x/..", b"a/", b"\xff\xfe", b"\xc0\xaf", b"\xed\xa0\x80", b"\xf4\x90\x80\x80", b"\xe2\x82"]
U64 = 2**64

def long_name(rng, plain=True):
    """names whose byte length sits around 64 / 128 / 255 / 256 / 1024 with multi-byte characters placed so that they
    straddle those offsets (fixed-size buffers and byte-offset slicing are classic places to break)"""
    target = rng.choice([63, 64, 65, 66, 127, 128, 129, 254, 255, 256, 257, 1023, 1025]) + rng.range(-1, 2)
    units = [b"a", b"\xc3\xa9", b"\xe6\x97\xa5", b"\xf0\x9f\x98\x80", b"b", b"\xc3\xb1", b"\xef\xbf\xbd"]
    out = b""
    first = rng.choice(units)
    out += first
    while len(out) < target:
        out += rng.choice(units) if rng.chance(3, 4) else b"x"
    if not plain:
        k = rng.below(4)
        if k == 0:
            out = out + b"/x"
        elif k == 1:
            out = b"../" + out
        elif k == 2:
            pos = rng.below(len(out))
            # keep UTF-8 valid: insert the separator at a character boundary
            while pos < len(out) and (out[pos] & 0xC0) == 0x80:
                pos += 1
            out = out[:pos] + b"/" + out[pos:]
        else:
            out = b"/" + out
    return out

def gen_files(rng, maxfiles=5, maxlen=9):
    n = rng.range(1, maxfiles)
    files = []
    for i in range(n):
        depth = rng.range(1, 3)
        comps = [rng.choice(WORDS[:10]) + (b"%d" % i if d == depth - 1 else b"") for d in range(depth)]
        if rng.chance(1, 8):
            comps = [b".pad", b"%d" % rng.below(100)]
        files.append((0 if rng.chance(1, 5) else rng.below(maxlen + 1), comps))
    return files

def gen_meta(rng):
    """type-directed metainfo generator: mostly valid, then 0-2 targeted defects; returns (bytes, tag)"""
    multi = rng.chance(3, 5)
    pl = rng.choice([1, 2, 3, 4, 5, 7, 8, 16])
    kw = {"name": rng.choice(WORDS[:10]), "piece_length": pl}
    if multi:
        kw["files"] = gen_files(rng)
    else:
        kw["length"] = rng.below(20)
    tag = "valid"
    extra_info, extra_root = [], []
    # inert decorations (must not affect the outcome): decoy keys adjacent in sort order, nested containers
    if rng.chance(1, 2):
        for k in rng.shuffle([b"inf", b"info ", b"infoz", b"announce", b"comment", b"zz", b"a", b"info\x00"])[:rng.range(1, 4)]:
            extra_root.append((k, gen_value(rng, 2)))
    if rng.chance(1, 6):
        # well-typed `.utf-8` siblings of keys for which the format defines no such variant: they must stay inert
        k = rng.choice([b"pieces.utf-8", b"piece length.utf-8", b"length.utf-8", b"files.utf-8"])
        v = {b"pieces.utf-8": b"y" * 20, b"piece length.utf-8": rng.range(1, 9), b"length.utf-8": rng.below(30),
             b"files.utf-8": [D((b"length", 1), (b"path", [b"zz"]))]}[k]
        extra_info.append((k, v))
    if rng.chance(1, 8):
        other = meta_doc(name=b"other", piece_length=2, length=rng.below(6))
        extra_root.append((rng.choice([b"info.utf-8", b"info2"]), [v for k, v in other[1] if k == b"info"][0]))
    if rng.chance(1, 2):
        for k in rng.shuffle([b"nam", b"name ", b"namez", b"piece", b"piece lengt", b"piece length ", b"piecesz", b"lengt", b"lengthz", b"file", b"filesz", b"private", b"source", b"name.utf-", b"name.utf-80", b"path"])[:rng.range(1, 4)]:
            extra_info.append((k, gen_value(rng, 2)))
    defect = rng.below(40)
    if defect == 0:
        kw["name_utf8"] = rng.choice(WORDS[:10]); tag = "name.utf-8"
    elif defect == 1:
        kw["name_utf8"] = rng.choice(BAD_COMPONENTS[-5:]); tag = "name.utf-8 invalid utf8"
    elif defect == 2:
        extra_info.append((b"name.utf-8", rng.choice([5, [b"x"]]))); tag = "name.utf-8 mistyped (falls back)"
    elif defect == 3:
        kw["name"] = rng.choice(BAD_COMPONENTS); tag = "bad name"
    elif defect == 4 and multi:
        i = rng.below(len(kw["files"])); f = kw["files"][i]
        kw["files"][i] = (f[0], f[1][:-1] + [rng.choice(BAD_COMPONENTS)]); tag = "bad path component"
    elif defect == 5 and multi:
        i = rng.below(len(kw["files"])); kw["files"][i] = (kw["files"][i][0], []); tag = "empty path"
    elif defect == 6 and multi:
        kw["files"] = []; tag = "no files"
    elif defect == 7:
        kw["piece_length"] = rng.choice([0, -1, U64, U64 - 1, 2**63, 2**127 - 1]); tag = "piece length extreme"
    elif defect == 8:
        if multi:
            i = rng.below(len(kw["files"])); kw["files"][i] = (rng.choice([-1, U64, U64 - 1, 2**63, -(2**127)]), kw["files"][i][1])
        else:
            kw["length"] = rng.choice([-1, U64, U64 - 1, 2**63])
        kw["nhashes"] = rng.below(3); tag = "length extreme"
    elif defect == 9:
        total = kw.get("length", None)
        if total is None:
            total = sum(f[0] for f in kw["files"])
        kw["nhashes"] = max(0, ceil_div(total, pl) + rng.choice([-1, 1])); tag = "hash count off by one"
    elif defect == 10:
        kw["hashes"] = b"x" * rng.choice([1, 19, 21, 39]); tag = "pieces not multiple of 20"
    elif defect == 11:
        kw["length"] = rng.below(20); kw.setdefault("files", gen_files(rng)); tag = "both length and files"
    elif defect == 12:
        kw.pop("length", None); kw.pop("files", None); tag = "neither length nor files"
    elif defect == 13 and multi:
        kw["path_utf8"] = True; tag = "path.utf-8 only"
    elif defect in (20, 21, 22) and multi:
        # every file decides on its own between path / path.utf-8 / both / a mistyped utf-8 variant
        kw["files"] = [(f[0], f[1], rng.choice(["path", "utf8", "both", "both-mistyped", "both-empty-utf8"])) for f in kw["files"]]
        tag = "path variants mixed per file"
    elif defect == 14:
        extra_info.append((b"length", b"str")) if multi else extra_info.append((b"files", b"str")); tag = "other key present but mistyped"
    elif defect == 15 and multi:
        # two files whose lengths sum past 2^64
        kw["files"] = [(U64 - 1, [b"big1"]), (rng.choice([1, 2, U64 - 1]), [b"big2"])]
        kw["piece_length"] = rng.choice([2**63, 2**62, U64 - 1]); kw["nhashes"] = rng.choice([2, 3, 4, 5]); tag = "sum exceeds u64"
    elif defect == 17:
        kw["name"] = long_name(rng, plain=rng.chance(1, 2)); tag = "long unicode name"
    elif defect == 18 and multi:
        i = rng.below(len(kw["files"])); f = kw["files"][i]
        kw["files"][i] = (f[0], f[1][:-1] + [long_name(rng, plain=rng.chance(1, 2))]); tag = "long unicode path component"
    elif defect == 19:
        kw["name_utf8"] = long_name(rng, plain=rng.chance(1, 2)); tag = "long unicode name.utf-8"
    elif defect == 16:
        kw.pop("files", None); kw["length"] = rng.choice([U64 - 1, 2**63, 2**40])
        kw["piece_length"] = max(1, kw["length"] // rng.range(1, 5) + rng.range(0, 1))
        tag = "huge single file, few pieces"
    doc = meta_doc(extra_root=extra_root, extra_info=extra_info, **kw)
    data = benc(doc)
    d2 = rng.below(30)
    if d2 == 0:
        # drop a required key
        victim = rng.choice([b"name", b"piece length", b"pieces", b"info"])
        def drop(v):
            if isinstance(v, tuple) and v[0] == 'd':
                return ('d', [(k, drop(x)) for k, x in v[1] if k != victim])
            return v
        data = benc(drop(doc)); tag += "+missing " + victim.decode()
    elif d2 == 1:
        victim = rng.choice([b"name", b"piece length", b"pieces", b"info", b"length", b"files", b"path"])
        repl = rng.choice([7, b"s", [b"l"], D((b"k", 1))])
        def retype(v):
            if isinstance(v, tuple) and v[0] == 'd':
                return ('d', [(k, repl if k == victim else retype(x)) for k, x in v[1]])
            if isinstance(v, list):
                return [retype(x) for x in v]
            return v
        data = benc(retype(doc)); tag += "+mistyped " + victim.decode()
    elif d2 == 2:
        data = mutate_bytes(rng, data); tag += "+byte mutation"
    elif d2 == 3:
        data = benc([doc]) if rng.chance(1, 2) else benc(doc[1][0][1]); tag += "+root not the document"
    elif d2 == 4 and multi and kw.get("files"):
        # something that is not a file dictionary among the entries of `files` (a list of file dictionaries is required)
        stray = rng.choice([b"junk", 7, [b"x"], []])
        def inject(v):
            if isinstance(v, tuple) and v[0] == 'd':
                out = []
                for k, x in v[1]:
                    if k == b"files" and isinstance(x, list):
                        x = list(x); x.insert(rng.below(len(x) + 1), stray)
                    out.append((k, inject(x)))
                return ('d', out)
            return v
        data = benc(inject(doc)); tag += "+stray entry in files"
    return data, tag

def layout_doc(L, files, single=False):
    """document for a layout universe case (plain names, distinct paths)"""
    if single:
        return benc(meta_doc(name=b"s", piece_length=L, length=files[0]))
    return benc(meta_doc(name=b"m", piece_length=L, files=[(n, [b"f%d" % i]) for i, n in enumerate(files)]))

def layout_universe(maxfiles, maxlen, maxL):
    for n in range(1, maxfiles + 1):
        for fs in itertools.product(range(maxlen + 1), repeat=n):
            for L in range(1, maxL + 1):
                yield L, list(fs), False
                if n == 1:
                    yield L, list(fs), True

def layout_extremes(rng, count):
    out = []
    big = [2**32 - 1, 2**32, 2**32 + 1, 2**63 - 1, 2**63, U64 - 1, U64 - 2, 2**40 + 3]
    for _ in range(count):
        n = rng.range(1, 4)
        fs = [rng.choice(big + [0, 1, 5]) for _ in range(n)]
        if sum(fs) >= 2**70:
            fs = fs[:1]
        total = sum(fs)
        if total == 0:
            fs[0] = rng.choice(big); total = sum(fs)
        # keep the number of pieces small
        L = max(1, total // rng.range(1, 6) + rng.range(0, 2))
        if L >= U64:
            L = U64 - 1
        if ceil_div(total, L) > 40:
            continue
        out.append((L, fs, n == 1 and rng.chance(1, 2)))
    return out


# ---------------------------------------------------------------- non-canonical re-encodings of a well-formed document

def noncanonical_variants(rng, doc):
    """documents that denote (or nearly denote) the same value as the canonical `doc` but are not canonical bencode:
    a length prefix or an integer written with leading zeros, `-0`, two adjacent dictionary entries swapped or
    repeated, bytes after the end. Each must be refused by the decoder and therefore by the loader."""
    import re
    out = []
    # positions of length prefixes `<digits>:` and integers `i<digits>e` are found on the canonical encoding by a
    # small scanner (the document is canonical, so a linear scan is exact)
    spans = []      # (kind, start, end) of tokens; kind in "len", "int"
    def scan(i):
        c = doc[i:i + 1]
        if c == b"i":
            j = doc.index(b"e", i)
            spans.append(("int", i + 1, j)); return j + 1
        if c in (b"l", b"d"):
            i += 1
            while doc[i:i + 1] != b"e":
                if i >= len(doc):
                    raise ValueError("not a canonical document")
                i = scan(i)
            return i + 1
        j = doc.index(b":", i)
        if not doc[i:j].isdigit() or j - i > 12:
            raise ValueError("not a canonical document")        # (a negative length would send the scanner backwards for ever)
        n = int(doc[i:j])
        if j + 1 + n > len(doc):
            raise ValueError("not a canonical document")
        spans.append(("len", i, j)); return j + 1 + n
    try:
        scan(0)
    except Exception:
        return out
    lens = [x for x in spans if x[0] == "len"]; ints = [x for x in spans if x[0] == "int"]
    for _ in range(2):
        if lens:
            _, a, b = rng.choice(lens)
            out.append((doc[:a] + b"0" * rng.range(1, 2) + doc[a:], "noncanonical: length prefix with leading zero"))
    if ints:
        _, a, b = rng.choice(ints)
        body = doc[a:b]
        if body.startswith(b"-"):
            out.append((doc[:a] + b"-0" + body[1:] + doc[b:], "noncanonical: integer with leading zero"))
        else:
            out.append((doc[:a] + b"0" + body + doc[b:], "noncanonical: integer with leading zero"))
        if body == b"0":
            out.append((doc[:a] + b"-0" + doc[b:], "noncanonical: minus zero"))
        out.append((doc[:a] + b"+" + body + doc[b:], "noncanonical: plus sign"))
    out.append((doc + rng.choice([b"e", b"0:", b"\n", b" "]), "noncanonical: trailing bytes"))
    # white space around the document is not part of bencode (a tolerant front end must not shift the info span)
    ws = rng.choice([b"\n", b" ", b"\r\n", b"\t", b"\x0c", b"  \n"])
    out.append((ws + doc, "noncanonical: leading white space"))
    out.append((ws + doc + ws, "noncanonical: white space around"))
    return out


def prefix_key_dicts(rng, count):
    """dictionaries whose adjacent keys are related by PREFIX: in order (canonical) and swapped (must be refused), the empty
    key included — a comparison that only looks at the common prefix cannot tell them apart"""
    out = []
    for _ in range(count // 3 + 1):
        # keys of 16 bytes and more that share their first 15 / 16 / 17 / 32 bytes: in order, swapped, equal
        head = (gen_bytes(rng, 4) or b"k") * 8
        n = rng.choice([15, 16, 17, 32])
        k1, k2 = head[:n] + b"b", head[:n] + b"c" + gen_bytes(rng, 2)
        v1, v2 = gen_value(rng, 1), gen_value(rng, 1)
        out.append((b"d" + benc(k1) + benc(v1) + benc(k2) + benc(v2) + b"e", "long keys with a common head, in order"))
        out.append((b"d" + benc(k2) + benc(v2) + benc(k1) + benc(v1) + b"e", "long keys with a common head, swapped"))
        out.append((b"d" + benc(k1) + benc(v1) + benc(k1) + benc(v2) + b"e", "long keys, duplicate"))
    for _ in range(count):
        k = gen_bytes(rng, 3) or b"a"
        ext = k + (gen_bytes(rng, 2) or b"\x00")
        if rng.chance(1, 4):
            k = b""
        v1, v2 = gen_value(rng, 1), gen_value(rng, 1)
        good = b"d" + benc(k) + benc(v1) + benc(ext) + benc(v2) + b"e"
        bad = b"d" + benc(ext) + benc(v2) + benc(k) + benc(v1) + b"e"
        out.append((good, "prefix keys in order")); out.append((bad, "prefix keys swapped"))
        out.append((b"l" + bad + b"e", "prefix keys swapped, nested"))
    return out

def info_of_exact_length(target, piece_length=4, length=3):
    """a valid single-file document whose encoded info dictionary is exactly `target` bytes long (an uninterpreted key
    `x-note` takes up the slack)"""
    for pad in range(max(0, target - 400), target):
        doc = meta_doc(name=b"t", piece_length=piece_length, length=length, extra_info=[(b"x-note", b"n" * pad)])
        infod = [v for k, v in doc[1] if k == b"info"][0]
        n = len(benc(infod))
        if n == target:
            return benc(doc)
        if n > target:
            break
    return None
