"""Properties decided on whole-world runs (`run` stream): C01 C02 C03 C04 C12 C14 C15 C16 (+ C13 C11 C17 streams)."""
import json, os, concurrent.futures as cf
from . import common as C, engine as E, world as W, unit
from .common import Rng, log

def worlds_default(tier, seed, stream, n_quick, n_thorough, tweak=None):
    n = n_quick if tier == "quick" else n_thorough
    out = []
    for i in range(n):
        rng = Rng(seed, stream, i)
        w = W.gen_world(rng)
        if tweak:
            tweak(rng, w, i)
        out.append(w)
    return out

def tweak_threads(rng, w, i):
    # most runs single-threaded (exact log comparison); some with several workers (property checkers only)
    if i % 5 == 4:
        w.threads = rng.choice([0, 2, 3, 8, 2**64 - 1, 10**9])
        if i % 10 == 9:
            # the interleaving of the workers' file operations, write locks and counter updates is chosen by a seeded
            # scheduler instead of the OS (replayable; explores preemption between any two file operations)
            w.sched_fs = rng.next() % (2**32)

def tweak_resize(rng, w, i):
    w.resize = i % 3 != 2

# judged on the implementation's outcome alone (the run must return): the model would have to materialise gigabytes of
# padding zeros, or is quadratic in the number of table entries (list-based maps) where the real code uses hash maps
NOT_MODELLED = ("enormous declared length", "many segments in one piece", "metadata fault", "export paths beyond PATH_MAX", "more than 100000 pieces", "names beyond NAME_MAX")

def with_threads(w, n):
    w.threads = n
    return w

def run_worlds(worlds, jobs=None):
    jobs = jobs or C.NCPU
    with cf.ThreadPoolExecutor(max_workers=jobs) as ex:
        results = list(ex.map(W.execute, worlds))
    # Worlds declaring lengths no machine can allocate are outside the model (it would have to materialise the
    # padding zeros): they are judged on the implementation's outcome alone — the run must return, not abort.
    modelled = [r for r in results if r.world.tag not in NOT_MODELLED]
    ans = iter(C.run_model([r.line for r in modelled]))
    answers = []
    for r in results:
        if r.world.tag in NOT_MODELLED:
            answers.append(judge_outcome_only(r))
        else:
            answers.append(next(ans))
    return finish_answers(results, answers)

def judge_outcome_only(r):
    if True:
        if True:
            bad = r.result in ("panic", "abort", "timeout")
            fails = ["c16-" + r.result] if bad else []
            # worlds that state the lengths their images must have after the resize pre-flight
            for p, n in getattr(r.world, "expect_lengths", {}).items():
                have = r.after_files.get(p)
                size = None if have is None else (int(have[0].split()[1].rstrip(b">")) if have[0].startswith(b"<sparse ") else len(have[0]))
                if r.result == "ok" and size != n:
                    fails.append("c14-not-extended")
            # the report: one progress line per piece, the k-th accounting for k pieces, the total constant (C15; a piece that is
            # never evaluated is C05's "evaluated exactly once")
            if r.result == "ok" and r.progress_total is not None:
                if len(r.counters) != r.progress_total or [sum(k) for k in r.counters[-3:]] != list(range(len(r.counters) - len(r.counters[-3:]) + 1, len(r.counters) + 1)):
                    fails += ["c15-sum", "c05-lost-or-extra"]
            # images that must end up with exactly these bytes (or not at all: every byte the declared one or a zero)
            for p, truth in getattr(r.world, "expect_content", {}).items():
                have = r.after_files.get(p)
                if have is not None and (len(have[0]) != len(truth) or any(x != y and x != 0 for x, y in zip(have[0], truth))):
                    fails += ["c12-length", "c01-bytes", "c04-lost"]
            if getattr(r.world, "expect_lines", None) is not None and r.result == "ok" and len(r.counters) != r.world.expect_lines:
                fails += ["c15-sum"]
            return "agree " + ("PROPFAIL:" + ",".join(sorted(set(fails))) if fails else "prop-ok") + " not-modelled"

def finish_answers(results, answers):
    cases = []
    for r, a in zip(results, answers):
        diff = (a.split(" ", 3)[2][5:].split(",") if a.count(" ") >= 2 and a.split(" ", 3)[2].startswith("DIFF:") else None)
        if r.world.threads != 1 and a.startswith("DISAGREE prop-ok ") and diff and set(diff) <= {"files", "dirs"} and order_dependent_only(r):
            a = "agree " + a.split(" ", 2)[1] + " order-dependent-availability(fixpoints-equal) " + a.split(" ", 2)[2]
        c = C.Case(r.request, r.observation, a, tag=r.world.tag or "world")
        c.result = r
        if getattr(r, "ghost_changed", False):
            c.fails = c.fails + ["c03-outside-changed"]        # a symbolic link below a scan directory was replaced or removed
        if getattr(r, "cwd_changed", False):
            c.fails = c.fails + ["c03-cwd-changed"]            # the run changed the working directory of the calling process
        cases.append(c)
    return cases

def has_cross_candidates(r):
    """Is some torrent file's candidate list (as the run built it) reaching ANOTHER entry's export image — by path or through
    a shared inode? Then what is recovered depends on the order in which pieces are evaluated (the image may be completed,
    truncated or overwritten by the same run before or after it is read; C02: "and remains so during the run"), and the
    final tree of a run is not a function of its arguments: trees of different runs are then not required to be equal."""
    images = {}
    for eid, ispad, flen, tgt, paths in r.searches:
        if not ispad:
            images[tuple(tgt)] = eid
    ino = lambda p: (r.before_files.get(tuple(p)) or (None, None))[1]
    image_inos = {ino(p): e for p, e in images.items() if ino(p) is not None}
    for eid, ispad, flen, tgt, paths in r.searches:
        for p in paths or []:
            p = tuple(p)
            if (p in images and images[p] != eid) or (ino(p) in image_inos and image_inos[ino(p)] != eid and p != tuple(tgt)):
                return True
    return False

def order_dependent_only(r):
    """A run with several workers is compared with the model on its final tree only, and the model evaluates the
    pieces one after the other. When a piece becomes available DURING the run (another torrent's export image of
    the same length, completed by the same run) whether it is recovered depends on the interleaving, and both
    outcomes satisfy every property (C02 speaks of data present when the run starts). Such a difference is told
    from a real one by running on: the tree this run left and the tree a single-threaded run (which the model
    follows operation for operation) leaves must reach the same idle tree."""
    import copy
    if r.world.faults or r.world.crash is not None or r.result != "ok":
        return False
    if has_cross_candidates(r):
        return True
    v = copy.copy(r.world); v.threads = 1
    v.sched_fs = None
    # (the outcome may depend on the order for good — a source that the same run destroys, see `same_outcome_set` — so the
    #  two are compared as sets of idle trees over a few runs each)
    key = lambda t: (tuple(t[0]), tuple(sorted(t[1].items())))
    threaded, single = {key(fixpoint_tree(r))}, set()
    for k in range(4):
        r1 = W.execute(v)
        if r1.result != "ok":
            return False
        single.add(key(fixpoint_tree(r1)))
        if threaded & single:
            return True
        if k:
            threaded.add(key(fixpoint_tree(W.execute(r.world))))
    return bool(threaded & single)

def count_ops(r):
    return len(r.ops), sum(1 for op in r.ops if op[1] in ("openc", "mkdirs", "setlen", "write"))

def fault_worlds(tier, seed):
    """C13: every single operation of small worlds failing, one at a time (quick) and in pairs (thorough)"""
    import copy
    nworlds = 12 if tier == "quick" else 120
    out = []
    for i in range(nworlds):
        rng = Rng(seed, "c13", i)
        w = W.gen_small_world(rng) if i % 2 else W.gen_fault_world(rng)
        if i % 6 == 4:
            w = W.gen_world_short_image(rng)
        w.threads = 1 if i % 4 else rng.choice([2, 3])
        w.tag = "fault-free"
        base = W.execute(w)
        n, _ = count_ops(base)
        out.append(w)
        ks = list(range(n)) if n <= (60 if tier == "quick" else 150) else sorted(set(rng.below(n) for _ in range(60)))
        for k in ks:
            v = copy.copy(w); v.faults = [k]; v.tag = "fault@%d" % k
            out.append(v)
        if tier == "thorough":
            for _ in range(40):
                a, b = rng.below(n), rng.below(n)
                if a != b:
                    v = copy.copy(w); v.faults = sorted([a, b]); v.tag = "faults@%d,%d" % (a, b)
                    out.append(v)
    return out

def resize_fault_worlds(tier, seed):
    """C14 under I/O failures: worlds with the resize flag, every one of the first operations (argument checks, both
    passes of the pre-flight) failing, one at a time"""
    import copy
    out = []
    for i in range(16 if tier == "quick" else 160):
        rng = Rng(seed, "c14-fault", i)
        w = W.gen_world_c14(rng)
        w.resize = True; w.threads = 1
        base = W.execute(w)
        n, _ = count_ops(base)
        for k in range(min(n, 14 if tier == "quick" else 40)):
            v = copy.copy(w); v.faults = [k]; v.tag = "resize fault@%d" % k
            out.append(v)
    return out

def meta_fault_worlds(tier, seed):
    """C13/C16: the k-th metadata query that is not part of the operation log (a directory-walk entry that vanished
    or became unreadable, the metadata of an opened export image) fails; the model does not number those queries, so
    these runs are judged on the outcome alone: the run returns, it does not panic"""
    import copy
    out = []
    for i in range(6 if tier == "quick" else 60):
        rng = Rng(seed, "meta-fault", i)
        w = W.gen_small_world(rng) if i % 2 else W.gen_world(rng)
        w.threads = 1
        w.resize = i % 3 == 0
        for k in range(12 if tier == "quick" else 40):
            v = copy.copy(w); v.meta_faults = [k]; v.tag = "metadata fault"
            out.append(v)
    return out

def drop_rewritten_under_faults(cases):
    """C04 under injected failures: "not rewritten" cannot be promised for an image the run could not open (see DESIGN §13);
    a verified piece must still verify (`c04-lost`)"""
    for c in cases:
        r = c.result
        if r is not None and (r.world.faults or getattr(r.world, "partial", None) is not None):
            c.fails = [f for f in c.fails if f != "c04-rewritten" and f != "c04-not-idle"]
    return cases

def check_meta_faults(cases):
    """C13 on the unlogged metadata queries: a query that fails for ONE directory-walk entry may cost at most that entry.
    The run with the fault must recover at least what a fault-free run recovers on the same tree WITHOUT that file (an
    oracle made of the implementation itself, on a world the model follows operation for operation)."""
    import copy
    for c in cases:
        r = c.result
        if r is None or r.world.tag != "metadata fault" or r.result != "ok":
            continue
        hit = [l.split() for l in r.stdout.split("\n") if l.startswith("LOG meta ")]
        if not hit or len(hit[0]) < 5:
            continue
        p = W.rel(r.root, hit[0][4])
        w = r.world
        if p not in w.files or (p[:len(w.export)] == w.export):
            continue            # a directory entry (skipped anyway) or an export image (not a candidate removal)
        v = copy.copy(w); v.meta_faults = []; v.files = {q: x for q, x in w.files.items() if q != p}; v.tag = "without " + repr(p)
        v.symlinks = {q: t for q, t in w.symlinks.items() if tuple(t) != p and q != p}       # links to the removed file go with it
        v.modes = {q: m for q, m in getattr(w, "modes", {}).items() if q != p}
        ok = False
        for _ in range(3):
            base = W.execute(v)
            if recovered(w, {q: x[0] for q, x in base.after_files.items()}) <= recovered(w, {q: x[0] for q, x in r.after_files.items()}):
                ok = True; break
        if not ok:
            c.fails = c.fails + ["c02-walk-fault-not-confined"]
    return cases

def partial_write_worlds(tier, seed, stream="partial"):
    """a disk that fills up: every data write of small worlds stores only some of its bytes and then fails"""
    import copy
    nworlds = 8 if tier == "quick" else 80
    out = []
    for i in range(nworlds):
        rng = Rng(seed, stream, i)
        w = W.gen_fault_world(rng) if i % 2 else W.gen_small_world(rng)
        w.threads = 1
        base = W.execute(w)
        for k, op in enumerate(base.ops):
            if op[1] != "write" or op[4] != "ok":
                continue
            ln = 0 if op[3][1] == "-" else len(op[3][1]) // 2
            for j in sorted(set([1, max(1, ln // 2)])):
                if j < ln or ln == 1:
                    v = copy.copy(w); v.partial = (k, min(j, ln)); v.tag = "partial-write@%d,%d" % (k, j)
                    out.append(v)
    return out

def crash_worlds(tier, seed):
    """C11: every prefix of the mutating operations (a write cut after 0, 1, mid bytes), then a clean re-run"""
    import copy
    nworlds = 12 if tier == "quick" else 120
    out = []
    for i in range(nworlds):
        rng = Rng(seed, "c11", i)
        w = W.gen_world_two_devices(rng) if i % 4 == 3 else (W.gen_small_world(rng) if i % 2 else W.gen_fault_world(rng))
        if i % 8 == 6:
            w = W.gen_world_big_files(rng)
        if i % 8 == 2:
            w = W.gen_world_linked_cross_seed(rng)
        if i % 8 == 5:
            w = W.gen_world_zero_piece_stale(rng)
        if i % 8 == 1:
            w = W.gen_world_same_length_neighbours(rng)
        w.threads = 1
        base = W.execute(w)
        _, m = count_ops(base)
        w.tag = "uninterrupted"
        out.append(w)
        muts = [op for op in base.ops if op[1] in ("openc", "mkdirs", "setlen", "write")]
        for k in range(m):
            js = [0]
            if muts[k][1] == "write":
                ln = 0 if muts[k][3][1] == "-" else len(muts[k][3][1]) // 2
                js = sorted(set([0, 1, ln // 2, max(0, ln - 1)]))
            elif muts[k][1] == "mkdirs":
                js = [0, 1, 2]
            for j in js:
                v = copy.copy(w); v.crash = (k, j); v.tag = "crash@%d,%d" % (k, j)
                out.append(v)
    return out

def run_crash_cases(worlds):
    """execute crash worlds; for every crashed run also run the tool again on the tree it left (the resume run)"""
    cases = run_worlds(worlds)
    resumes = []
    for c in cases:
        r = c.result
        if r.world.crash is None or r.result != "crash":
            continue
        v = W.world_from_snapshot(r.world, r.after_dirs, r.after_files)
        v.tag = "resume-after-" + r.world.tag
        resumes.append(v)
    return cases + run_worlds(resumes)

def meta_worlds(tier, seed):
    """C17: a world and transformed presentations of it"""
    n = 40 if tier == "quick" else 800
    out = []
    # adding readable candidates never reduces what is recovered: the same piece with few and with very many candidates
    for k, grp in ((3, -1), (40, -1), (260, -1)) + (((700, -1),) if tier == "thorough" else ()):
        w = W.gen_world_many_candidates(Rng(seed, "c17-many", k), k)
        w.group = grp
        w.export_only = True       # the candidate sets differ on purpose: only the export subtree is compared
        out.append(w)
    for i in range(6 if tier == "quick" else 60):
        w = W.gen_world_two_devices(Rng(seed, "c17-dev", i))   # a candidate on another device with the same inode number
        w.group = None
        out.append(w)
    for i in range(10 if tier == "quick" else 200):
        w = W.gen_world_shrinking_candidate(Rng(seed, "c17-shrink", i))   # export directory among the scan directories: a candidate shrinks
        w.group = None
        out.append(w)
    for i in range(10 if tier == "quick" else 200):
        w = W.gen_world_cross_seed(Rng(seed, "c17-cross", i))
        w.group = None
        out.append(w)
    for i in range(4 if tier == "quick" else 40):
        # a mount point below a scan directory: scanning the enclosing directory, the mount point, or both is one world
        import copy
        w = W.gen_world_mount_below_scan(Rng(seed, "c17-mnt", i))
        w.group = 100000 + i
        v1 = copy.copy(w); v1.scan = [(b"outerm", b"inner")]; v1.tag = "mount point scanned directly"; v1.group = w.group
        v2 = copy.copy(w); v2.scan = [(b"outerm",), (b"outerm", b"inner")]; v2.tag = "enclosing directory also scanned"; v2.group = w.group
        out += [v1, w, v2]
    for i in range(n):
        rng = Rng(seed, "c17", i)
        w = W.gen_world(rng)
        w.tag = "base"
        group = [w] + [W.transform_presentation(rng, w, k) for k in rng.shuffle(list(range(7)))[:4]]
        for g in group:
            g.group = i
        out += group
    return out

def fixpoint_tree(r, limit=5):
    """re-run the tool on the tree it left until a run changes nothing; returns the final (dirs, files) snapshot"""
    dirs, files = r.after_dirs, r.after_files
    for _ in range(limit):
        v = W.world_from_snapshot(r.world, dirs, files)
        r2 = W.execute(v)
        same = {p: x[0] for p, x in r2.after_files.items()} == {p: x[0] for p, x in files.items()} and sorted(r2.after_dirs) == sorted(dirs)
        dirs, files = r2.after_dirs, r2.after_files
        if same:
            break
    return sorted(dirs), {p: x[0] for p, x in files.items()}

def compare_groups(cases):
    """C17: all presentations of one world must end in the identical tree. A single run may legitimately differ
    between presentations (and between two runs of the same presentation) when a piece only becomes available
    during the run — another torrent's export image that the same run completes — because the order in which
    pieces are evaluated depends on hash-map iteration; the property speaks of data that determines the result,
    so trees that differ after one run are compared again after re-running each presentation until it is idle."""
    byg = {}
    for c in cases:
        g = getattr(c.result.world, "group", None)
        if g is not None:
            byg.setdefault(g, []).append(c)
    for g, cs in byg.items():
        base = cs[0].result
        if getattr(base.world, "export_only", False):
            exp = base.world.export
            ref = {p: v[0] for p, v in base.after_files.items() if p[:len(exp)] == exp}
            for c in cs[1:]:
                tree = {p: v[0] for p, v in c.result.after_files.items() if p[:len(exp)] == exp}
                if tree != ref:
                    c.fails = c.fails + ["c17-more-candidates-recover-less"]
                    c.base = base
            continue
        ref = {p: v[0] for p, v in base.after_files.items()}
        ref_fix = None
        for c in cs[1:]:
            tree = {p: v[0] for p, v in c.result.after_files.items()}
            if tree != ref or sorted(c.result.after_dirs) != sorted(base.after_dirs):
                if ref_fix is None:
                    ref_fix = fixpoint_tree(base)
                if fixpoint_tree(c.result) == ref_fix:
                    c.result.world.tag += " (equal after re-running to idle)"
                elif presentations_compatible(base, c.result):
                    c.result.world.tag += " (compatible outcome sets)"
                else:
                    c.fails = c.fails + ["c17-tree-differs"]
                    c.base = base
    return cases

def recovered(world, files):
    """positions of the export tree that hold the torrent's byte: {(path, index)}"""
    out = set()
    for g in world.gts:
        for f in g.files:
            if f.pad:
                continue
            p = tuple(g.target(world.export, f))
            have = files.get(p)
            if have is None:
                continue
            out |= {(p, k) for k in range(min(len(have), f.length)) if have[k] == f.content[k]}
            if len(have) == f.length:
                out.add((p, "length"))
    return out

def presentations_compatible(base, other, rounds=5):
    """Two presentations of one world whose idle trees differ. Legitimate reasons: (1) the presentation ADDS candidates
    (the export directory or an enclosing directory among the scan directories: `C17_export_as_scan_differs`) — then
    the richer one must have recovered at least what the base has; (2) the result is not determined by the data: a
    piece whose only source is another torrent's export image that the same run rewrites is recovered or not, for
    good, depending on the evaluation order (hash-map iteration; C02: "and remains so during the run"). Both are
    told from a real dependence on the presentation by running each presentation again from the start, a few times,
    and comparing the SETS of idle trees: equal presentations must share an outcome, richer ones must dominate one."""
    if has_cross_candidates(base) or has_cross_candidates(other):
        return True
    superset = other.world.tag.startswith(("export directory among", "enclosing directory also"))
    def idle(world):
        d, f = fixpoint_tree(W.execute(world))
        return (tuple(d), tuple(sorted(f.items())))
    bs, os_ = {idle(base.world)}, {idle(other.world)}
    for _ in range(rounds):
        if superset:
            if any(recovered(base.world, dict(b[1])) <= recovered(other.world, dict(o[1])) for b in bs for o in os_):
                return True
        elif bs & os_:
            return True
        bs.add(idle(base.world)); os_.add(idle(other.world))
    return False

EXTRA_MODULES = {"C14": ["TB.Props.C14run", "TB.Props.Outcome"], "C03": ["TB.Props.C03frame"], "C17": ["TB.Props.C17run", "TB.Props.C17scan", "TB.Props.TopLevel", "TB.Props.OrderIndep"],
                 "C01": ["TB.Props.C01bytes", "TB.Props.TopLevel"],
                 "C11": ["TB.Props.C01bytes", "TB.Props.C04h", "TB.Props.C04hist", "TB.Props.C02chain", "TB.Props.TopLevel"],
                 "C02": ["TB.Props.C02run", "TB.Props.C02chain", "TB.Props.TopLevel"], "C16": ["TB.Props.C16run", "TB.Props.C16total", "TB.Props.Outcome"],
                 "C04": ["TB.Props.C04a", "TB.Props.C04c", "TB.Props.C04h", "TB.Props.C04hist", "TB.Props.C06layout", "TB.Props.TopLevel"],
                 "C15": ["TB.Props.C15exact", "TB.Props.C15avail", "TB.Props.C15piece", "TB.Props.C04a", "TB.Props.C04c", "TB.Props.C02chain", "TB.Props.Outcome"], "C12": ["TB.Props.C06layout"],
                 "C05": ["TB.Props.C05writes", "TB.Props.C05ops", "TB.Props.C05reads", "TB.Props.C05reads6", "TB.Props.C05reads7", "TB.Props.OrderIndep"], "C06": ["TB.Props.C06layout"]}

PROPS = {
    "C01": dict(module="TB.Props.C01", theorems=["C01_write_sound", "C01_gate", "C01_writer_cursor", "C01_run"], clauses=["c01-", "c03-cwd"],
                worlds=lambda t, s: [W.gen_world_misfiled(Rng(s, "c01-misfiled", i)) for i in range(60 if t == "quick" else 1200)]
                                    + [W.gen_world_short_last_digest(Rng(s, "c01-cut", i)) for i in range(10 if t == "quick" else 100)]
                                    + [W.gen_world_path_max(Rng(s, "c01-pathmax", i)) for i in range(4 if t == "quick" else 40)]
                                    + worlds_default(t, s, "c01", 400, 8000, tweak_threads)),
    "C02": dict(module="TB.Props.C02", theorems=["C02_search_sound", "C02_search_complete", "C02_piece"], clauses=["c02-"],
                worlds=lambda t, s: [W.gen_world_many_candidates(Rng(s, "c02-many", k), k) for k in (2, 260)]
                                    + [W.gen_world_shrinking_candidate(Rng(s, "c02-shrink", i)) for i in range(12 if t == "quick" else 240)]
                                    + [W.gen_world_big_files(Rng(s, "c02-big", i)) for i in range(4 if t == "quick" else 40)]
                                    + [W.gen_world_two_devices(Rng(s, "c02-dev", i)) for i in range(8 if t == "quick" else 80)]
                                    + meta_fault_worlds(t, s)
                                    + [W.gen_world_scan_root_link(Rng(s, "c02-link", i)) for i in range(20 if t == "quick" else 400)]
                                    + [W.gen_world_zero_piece_stale(Rng(s, "c02-zero", i)) for i in range(12 if t == "quick" else 240)]
                                    + [W.gen_world_mount_below_scan(Rng(s, "c02-mnt", i)) for i in range(4 if t == "quick" else 40)]
                                    + [W.gen_world_pad_named_candidates(Rng(s, "c02-padname", i)) for i in range(8 if t == "quick" else 80)]
                                    + worlds_default(t, s, "c02", 400, 8000, tweak_threads), post=check_meta_faults),
    "C03": dict(module="TB.Props.C03", theorems=["C03_confined", "C03_readonly", "C03_plain"], clauses=["c03-"], worlds=lambda t, s: worlds_default(t, s, "c03", 300, 6000, tweak_threads) + fault_worlds(t, s)
                                    + [W.gen_world_c16(Rng(s, "c03-args", i), i) for i in range(45 if t == "quick" else 900)]
                                    + [W.gen_world_dotdot_after_link(Rng(s, "c03-dotdot", i)) for i in range(12 if t == "quick" else 240)]
                                    + [W.gen_world_path_max(Rng(s, "c03-pathmax", i)) for i in range(3 if t == "quick" else 30)],
                unit_stream=lambda t, s: unit.load_stream("quick", s)[: 3000 if t == "quick" else 8000]),
    "C04": dict(module="TB.Props.C04", theorems=["C04_export_first", "C04_skip", "C04b_untouched"], clauses=["c04-"],
                worlds=lambda t, s: [W.gen_world_cross_seed(Rng(s, "c04-cross", i)) for i in range(40 if t == "quick" else 800)]
                                    + [W.gen_world_linked_cross_seed(Rng(s, "c04-linked", i)) for i in range(20 if t == "quick" else 400)]
                                    + [W.gen_world_mirrored_export(Rng(s, "c04-mirror", i)) for i in range(12 if t == "quick" else 240)]
                                    + [W.gen_world_many_identical(Rng(s, "c04-ident", i)) for i in range(6 if t == "quick" else 60)]
                                    + [W.gen_world_name_max(Rng(s, "c04-namemax", i)) for i in range(6 if t == "quick" else 60)]
                                    + fault_worlds(t, s)
                                    + worlds_default(t, s, "c04", 300, 6000, tweak_threads), post=lambda cases: drop_rewritten_under_faults(cases)),
    # C06 at run level: the work list evaluated by a run is the layout — every piece of every torrent, once (the counters' total,
    # and every available piece recovered); content made of one repeated block gives adjacent pieces with equal hashes
    "C06": dict(module="TB.Props.C06", theorems=["C06_partition_multi", "C06_partition_single", "C06_every_byte_multi", "C06_every_byte_single",
                                                  "C06_closed_form_multi", "C06_closed_form_single", "C06_zero_piece_length", "C06_loaded"],
                clauses=["c06-", "c15-sum", "c02-"],
                worlds=lambda t, s: [W.gen_world_trailing_empty(Rng(s, "c06-empty", i)) for i in range(16 if t == "quick" else 320)]
                                    + worlds_default(t, s, "c06", 120, 2400, tweak_threads),
                unit_stream=lambda t, s: unit.c06_stream(t, s)[0]),
    # C07 at run level: torrents with the same interpreted content and different info bytes (cross-seeds) are DIFFERENT torrents,
    # each exported under the hex form of its own info-hash; the unit-level stream (hash of the exact info bytes) stays
    "C07": dict(module="TB.Props.C07", theorems=["C07_span", "C07_indep", "C07_hex_length", "C07_hex_alphabet", "C07_hex_injective"],
                clauses=["c07-", "c12-", "c02-", "c16-cli-tree"],
                worlds=lambda t, s: [W.gen_world_cross_seed(Rng(s, "c07-cross", i)) for i in range(30 if t == "quick" else 600)]
                                    + worlds_default(t, s, "c07", 60, 1200),
                unit_stream=lambda t, s: unit.c07_stream(t, s),
                # torrent files named by 40 hex digits that are not their info-hash go through the real binary as well
                runner=lambda ws: run_with_cli(ws, 40 if len(ws) <= 1000 else 400), with_bin=True),
    "C12": dict(module="TB.Props.C12", theorems=["C12_path", "C12_only_run", "C12_len", "C12_disjoint"], clauses=["c12-"],
                worlds=lambda t, s: [W.gen_world_dup_path(Rng(s, "c12-dup", 0))] + [W.gen_world_infohash_prefix_pair(Rng(s, "c12-pair", i)) for i in range(2)]
                                    + [W.gen_world_truncated_neighbour(Rng(s, "c12-trunc", i)) for i in range(8 if t == "quick" else 80)]
                                    + [W.gen_world_name_max(Rng(s, "c12-namemax", i)) for i in range(4 if t == "quick" else 40)]
                                    + [W.gen_world_same_length_neighbours(Rng(s, "c12-neigh", i)) for i in range(10 if t == "quick" else 200)]
                                    + worlds_default(t, s, "c12", 300, 6000, tweak_threads)
                                    + partial_write_worlds(t, s, "c12-partial")),
    "C14": dict(module="TB.Props.C14", theorems=["C14_abort", "C14_pass2_ops", "C14_noflag"], clauses=["c14-", "c16-"],
                worlds=lambda t, s: [W.gen_world_resize_huge(Rng(s, "c14-huge", i)) for i in range(6 if t == "quick" else 30)]
                                    + [W.gen_world_many_short_images(Rng(s, "c14-many", i)) for i in range(2 if t == "quick" else 20)]
                                    + [W.gen_world_sparse_placeholder(Rng(s, "c14-sparse", i)) for i in range(4 if t == "quick" else 40)]
                                    + [W.gen_world_dup_path_resize(Rng(s, "c14-dup", i)) for i in range(40 if t == "quick" else 400)]
                                    + [W.gen_world_c14(Rng(s, "c14", i)) for i in range(400 if t == "quick" else 8000)]
                                    + resize_fault_worlds(t, s)),
    "C15": dict(module="TB.Props.C15", theorems=["C15_sum", "C15_run", "C15_dedup"], clauses=["c15-", "c16-", "c02-"],
                worlds=lambda t, s: worlds_default(t, s, "c15", 300, 6000, tweak_threads)
                                    + [gen_fs_sched_world(Rng(s, "c15-fs", i), i) for i in range(60 if t == "quick" else 1200)]
                                    + [W.gen_world_hundred_thousand_pieces(Rng(s, "c15-100k", i)) for i in range(1 if t == "quick" else 4)],
                runner=lambda ws: run_with_cli(ws, 60 if len(ws) <= 1000 else 600), with_bin=True),
    "C16": dict(module="TB.Props.C16", theorems=["C16_empty", "C16_validate", "C16_piece_total_partial"], clauses=["c16-", "c03-"],
                worlds=lambda t, s: [W.gen_world_many_segments(Rng(s, "c16-segs", i), n) for i, n in enumerate([3000, 30000] if t == "quick" else [3000, 30000, 60000])]
                                    + [W.gen_world_short_match(Rng(s, "c16-short", i)) for i in range(6)]
                                    + [W.gen_world_link_length_missing(Rng(s, "c16-lnk", i)) for i in range(8 if t == "quick" else 80)]
                                    + [W.gen_world_wide_piece(Rng(s, "c16-wide", i)) for i in range(3 if t == "quick" else 30)]
                                    + [W.gen_world_sparse_candidate(Rng(s, "c16-sparse", i)) for i in range(6)]
                                    + [with_threads(W.gen_world_c16(Rng(s, "c16", i), i), [1, 1, 0, 2, 2**64 - 1][(i // 15) % 5]) for i in range(400 if t == "quick" else 8000)],
                runner=lambda ws: run_with_cli(ws, 66 if len(ws) <= 1000 else 660), with_bin=True),
    "C13": dict(module="TB.Props.C13", theorems=["C13_all_accounted", "C13_local", "C13_found_all_ok"], clauses=["c13-", "c01-", "c16-", "c12-", "c04-lost", "c02-walk"], worlds=lambda t, s: fault_worlds(t, s) + partial_write_worlds(t, s, "c13-partial") + meta_fault_worlds(t, s), post=check_meta_faults),
    "C11": dict(module="TB.Props.C11", theorems=["C11_replay", "C11_prefix_sound"], clauses=["c11-", "c02-", "c01-"], worlds=crash_worlds, runner=run_crash_cases),
    "C17": dict(module="TB.Props.C17", theorems=["C17_dedup_perm"], clauses=["c17-", "c01-", "c02-", "c03-", "c04-", "c12-", "c16-"], worlds=meta_worlds, post=compare_groups),
}

def nontrivial(c):
    # a run that evaluated at least one piece, or was refused for a reason; exec stream: at least one scheduling decision
    if c.line.startswith("exec "):
        return " EV 0 " not in c.line
    return " OPS 0 " not in c.obs

def world_summary(r):
    w = r.world
    return {"torrents": [{"name": g.name.decode("utf-8", "replace"), "piece_length": g.L, "multi": g.multi,
                          "files": [[f.length, "/".join(x.decode("utf-8", "replace") for x in f.path)] for f in g.files]} for g in w.gts],
            "files": {"/".join(x.decode("utf-8", "replace") for x in p): len(v[0]) for p, v in sorted(w.files.items())},
            "scan": ["/".join(x.decode("utf-8", "replace") for x in s) for s in w.scan], "resize": w.resize, "threads": w.threads,
            "faults": w.faults, "meta_faults": getattr(w, "meta_faults", []), "sched_fs": getattr(w, "sched_fs", None), "partial": getattr(w, "partial", None), "crash": w.crash, "tag": w.tag}

def run(pid, tier, seed, replay=None, props=None):
    cfg = (props or PROPS)[pid]
    res = E.Result(pid, tier, seed)
    res.trusted = unit.TRUSTED + ["fs facade and trace hooks in /repo/src/verif_shim.rs (cfg lbfs_torrent_bootstrap_verif); world materialisation and snapshots in /verif/tbv/world.py",
                                 "OS file-system semantics as modelled by TB.Model.Fs (create_dir_all, open without truncate, set_len zero-fill, positional write)"]
    res.checker_cmd = "cd /verif/lean/TB && lake build %s && lake env lean <#print axioms of the obligations>%s" % (
        cfg["module"], " && lake env leanchecker " + cfg["module"] if tier == "thorough" else "")
    known = E.load_known()
    E.proof_stage(res, cfg["module"], cfg["theorems"], tier)
    for extra in EXTRA_MODULES.get(pid, []):
        # further theorem files of the same property (run-level statements proved later)
        E.proof_stage(res, extra, [], tier)
    ok, out = C.harness_build(with_bin=bool(cfg.get("with_bin")))
    if not ok:
        p = E.write_replay(pid, "harness-build", {"what": "the harness does not build against /repo's working tree", "output": out[-4000:]})
        res.violations.append((p, "no-failing-input-found"))
        return E.finish(res)
    if replay:
        payload = json.load(open(replay))
        outcome_only = (payload.get("world") or {}).get("tag") in NOT_MODELLED
        print("stored answer : " + payload.get("answer", "")[:3000])
        if not outcome_only:
            answers = C.run_model([payload["line"]])
            print("model now     : " + answers[0][:3000])
        if payload["line"].startswith("run "):
            # re-execute the implementation on the stored world and judge what it does NOW
            w = W.world_from_line(payload["line"], payload.get("world"))
            r = W.execute(w)
            # (worlds outside the model are judged on the outcome of the run, as in the stream they came from)
            now = judge_outcome_only(r) if outcome_only else C.run_model([r.line])[0]
            print("implementation re-executed on the stored world: result %s, %d operations" % (r.result, len(r.ops)))
            for note in w.replay_notes:
                print("note          : " + note)
            print("answer now    : " + now[:3000])
            c = C.Case(r.request, r.observation, now)
            mine = [f for f in c.fails if any(f.startswith(p) for p in cfg["clauses"])]
            if mine:
                print("VIOLATION property=%s replay=%s" % (pid, replay))
                return 1
            print("the property's clauses hold on this world now" + ("" if c.agree else " (model and implementation disagree on it)"))
            return 0
        print("(not a run-level case: re-execution of the implementation: ./check %s --tier quick with VERIF_SEED=%s)" % (pid, payload.get("seed")))
        return 0
    worlds = cfg["worlds"](tier, seed)
    cases = cfg.get("runner", run_worlds)(worlds)
    if "post" in cfg:
        cases = cfg["post"](cases)
    if "unit_stream" in cfg:
        # unit-level part of the property (e.g. C03: adversarial names must be refused when the torrent is loaded)
        lines = cfg["unit_stream"](tier, seed)
        ucases = C.differential([l for l, _ in lines], [t for _, t in lines])
        for c in ucases:
            c.result = None
        f_u, d_u = E.judge_cases(res, ucases, cfg["clauses"], unit.nontrivial, known)
        if f_u:
            c, mine = sorted(f_u, key=lambda cm: len(cm[0].line))[0]
            p = E.write_replay(pid, "unit-case", {"line": c.line, "impl": c.obs, "model": c.model, "failed_clauses": mine, "tag": c.tag})
            res.violations.append((p, ""))
        elif d_u:
            c = d_u[0]
            p = E.write_replay(pid, "unit-correspondence", {"what": "model and implementation disagree on the unit-level stream of this property",
                                                             "stream": c.line.split(" ")[0], "lines": [x.line for x in d_u[:20]],
                                                             "first": {"line": c.line, "impl": c.obs, "model": c.model}})
            res.violations.append((p, "no-failing-input-found"))
    failing, disagree = E.judge_cases(res, cases, cfg["clauses"], nontrivial, known)
    for c in cases:
        r = c.result
        if r is None:
            continue
        res.count("result:" + str(r.result))
        res.count("threads:%d" % r.world.threads)
        res.count("pieces", len(r.solves))
        for s in r.solves:
            res.count("piece:" + s[3])
    res.samples = [world_summary(c.result) for c in cases[:: max(1, len(cases) // 4)]][:5]
    res.rule = ("generated directory worlds (1-3 torrents with ground-truth content; prior export states absent/shorter/exact/longer/damaged/partial; "
                "0-3 candidates per file: exact, damaged, partial, unrelated, renamed/moved/same-layout, hard-linked), executed by the real start() "
                "under the fs facade and by the Lean model; non-trivial = at least one file operation was performed; distinct = distinct request line")
    broken = bool(res.build_problems)
    if failing:
        failing.sort(key=lambda cm: len(cm[0].line))
        c, mine = failing[0]
        p = E.write_replay(pid, "case", {"line": c.line + " | " + c.obs, "answer": ("agree " if c.agree else "DISAGREE ") + "PROPFAIL:" + ",".join(c.fails),
                                          "failed_clauses": mine, "world": world_summary(c.result), "seed": seed,
                                          "stderr": c.result.stderr[-1500:], "broken_obligations": res.build_problems})
        res.violations.append((p, ""))
    elif broken:
        p = E.write_replay(pid, "obligation", {"what": "proof obligation no longer checks", "problems": res.build_problems,
                                                 "theorems": cfg["theorems"], "module": cfg["module"]})
        res.violations.append((p, "no-failing-input-found"))
    elif disagree:
        c = disagree[0]
        res.disagreements_examined = len(disagree)
        p = E.write_replay(pid, "correspondence", {"what": "model and implementation disagree on this world; no world violating the property was found among %d" % len(cases),
                                                     "stream": "run", "line": c.line + " | " + c.obs, "answer": "DISAGREE " + c.model[:4000],
                                                     "world": world_summary(c.result), "seed": seed})
        res.violations.append((p, "no-failing-input-found"))
    res.assumptions = ["SHA-1 is a parameter H of every theorem; collision-freedom is assumed only where a clause says so",
                       "scan and export directories are lexically canonical absolute paths; no symbolic links; no other process mutates the tree during a run",
                       "ground truth of generated torrents is self-certified per piece by the hash (TB.Check.Run.truthCertified)"]
    return E.finish(res)

# ---------------------------------------------------------------- C05: executor under the deterministic scheduler

def gen_exec_world(rng, i):
    """worlds with many small pieces; thread counts around the number of pieces"""
    if i % 3 == 2:
        w = W.gen_world_many_pieces(rng)
        w.threads = rng.choice([2, 2, 3, 4, 6])
    else:
        w = W.gen_world(rng, ntorrents=rng.choice([1, 1, 2]))
        w.threads = rng.choice([0, 1, 2, 2, 3, 3, 4, 5, 8, 16, 2**64 - 1, 50000])
    w.sched = rng.next() % (2**32)
    w.tag = "threads=%d" % w.threads
    return w

def exec_line(r):
    """request/observation of the `exec` stream from the scheduler log of one run"""
    items = {}
    def item(key):
        if key not in items:
            items[key] = len(items) + 1
        return items[key]
    init, bals, evs, solves = None, [], [], []
    for line in r.stdout.split("\n"):
        if not line.startswith("LOG "):
            continue
        t = line.split()[1:]
        if t[0] == "balance":
            nq = int(t[2]); k = 3; qs = []
            for _ in range(nq):
                ln = int(t[k]); k += 1; q = []
                for _ in range(ln):
                    q.append(item((int(t[k]), int(t[k + 1]), int(t[k + 2])))); k += 3
                qs.append(q)
            if init is None:
                init = qs
            else:
                bals.append(qs)
        elif t[0] == "sch":
            if t[1] == "DEADLOCK":
                evs.append(("0", "DEADLOCK", "-", "-", []))
            else:
                en = [int(x) for x in t[6].split(",")] if len(t) > 6 and t[6] else []
                evs.append((t[1], t[2], t[3], t[4], en))
        elif t[0] == "solve" and t[2] == "begin":
            n = int(t[4])
            solves.append(item((int(t[5]), int(t[6]), n)))
    if init is None:
        return None
    def qtok(qs):
        out = [str(len(qs))]
        for q in qs:
            out += [str(len(q))] + [str(x) for x in q]
        return out
    req = ["exec", "INIT"] + qtok(init) + ["EV", str(len(evs))]
    for th, kind, lock, outcome, en in evs:
        req += [th, kind, lock, outcome, str(len(en))] + [str(x) for x in en]
    req += ["BAL", str(len(bals))]
    for b in bals:
        req += qtok(b)
    req += ["SOLVE", str(len(solves))] + [str(x) for x in solves]
    return " ".join(req) + " | RES " + r.result, len(init), len(evs), len(solves)

def gen_fs_sched_world(rng, i):
    """threaded runs in which every file operation is a scheduling point: several workers writing pieces of the same
    export file (many tiny pieces) or of generated multi-file worlds, under the seeded policies"""
    w = W.gen_world_many_pieces(rng) if i % 2 else W.gen_world(rng, ntorrents=rng.choice([1, 2]))
    w.threads = rng.choice([2, 2, 3, 4])
    w.sched_fs = rng.next() % (2**32)
    w.tag = "fs-sched threads=%d" % w.threads
    return w

def run_exec_cases(worlds):
    # replayed against the executor model: worlds run under the executor-level scheduler (`sched`); everything else
    # (file-operation scheduling, or the real OS scheduler) is judged at run level
    fs_worlds = [w for w in worlds if getattr(w, "sched", None) is None]
    worlds = [w for w in worlds if getattr(w, "sched", None) is not None]
    return run_exec_only(worlds) + (run_worlds(fs_worlds) if fs_worlds else [])

def run_exec_only(worlds):
    with cf.ThreadPoolExecutor(max_workers=C.NCPU) as ex:
        results = list(ex.map(W.execute, worlds))
    lines, kept, cases = [], [], []
    for r in results:
        el = exec_line(r)
        if r.result in ("timeout", "abort") and not any(l.startswith("LOG sch DEADLOCK") for l in r.stdout.split("\n")):
            # the run never returned (a worker waits for ever, or the process died): C05 itself, judged without the model
            k = C.Case(getattr(r, "line", None) or "exec (no scheduler log)", "RES " + r.result,
                       "DISAGREE PROPFAIL:c05-not-returned run did not return within the time limit (%s)" % r.result, tag=r.world.tag)
            k.result = r
            r.exec_stats = (0, 0, 0)
            cases.append(k)
            continue
        if el is None:
            continue
        lines.append(el[0]); kept.append((r, el))
    answers = C.run_model(lines)
    for (r, el), line, a in zip(kept, lines, answers):
        req, _, obs = line.partition(" | ")
        c = C.Case(req, obs, a, tag=r.world.tag)
        c.result = r
        r.exec_stats = el[1:]
        cases.append(c)
    return cases

def same_outcome_set(h, r, rounds=6):
    """Even a single-threaded run is not a function of its arguments: the order in which pieces are evaluated depends on
    hash-map iteration (seeded per process), and when a piece's only source is another torrent's export image that the
    same run rewrites, whether it is recovered depends on that order — for good (C02 says "and remains so during the
    run"). The library under the harness and the command-line binary are then compared as SETS of outcomes: they
    agree when some tree the one produces is a tree the other produces."""
    if has_cross_candidates(h):
        return True
    key = lambda x: (tuple(sorted((p, v[0]) for p, v in x.after_files.items())), tuple(sorted(x.after_dirs)))
    hs, cs = {key(h)}, {key(r)}
    for _ in range(rounds):
        if hs & cs:
            return True
        hs.add(key(W.execute(h.world))); cs.add(key(W.execute_cli(h.world)))
    return bool(hs & cs)

def run_with_cli(worlds, ncli):
    """the usual run cases, plus the real command-line binary on the first `ncli` single-threaded worlds: its progress
    lines, its handling of unloadable torrents and bad arguments and the tree it leaves are compared with the
    library run under the harness (which the model is tied to)"""
    cases = run_worlds(worlds)
    # (the command line needs at least one --torrents value: an empty list cannot be expressed there)
    sel = [c for c in cases if c.result.world.threads <= 1 and not c.result.world.faults and c.result.world.crash is None and c.result.world.docs][:ncli]
    with cf.ThreadPoolExecutor(max_workers=C.NCPU) as ex:
        clis = list(ex.map(lambda c: W.execute_cli(c.result.world), sel))
    extra = []
    for c, r in zip(sel, clis):
        h = c.result
        fails = []
        n_unloadable = sum(1 for x in h.loaded if x != "ok")
        if r.rc != 0:
            fails.append("c16-cli-exit")
        if r.unable != n_unloadable:
            fails.append("c16-cli-skip")                      # every unloadable torrent reported, the others unaffected
        if h.result == "err" and not r.error_line:
            fails.append("c16-cli-error-not-reported")
        if h.result == "ok":
            if r.progress_total is not None and r.progress_total != len(r.counters):
                fails.append("c15-cli-lines")                   # one progress line per piece
            if [sum(k) for k in r.counters] != list(range(1, len(r.counters) + 1)):
                fails.append("c15-cli-sum")
            if len(r.counters) != len(h.counters):
                fails.append("c15-cli-total")
        tree_c = {p: v[0] for p, v in r.after_files.items()}
        tree_h = {p: v[0] for p, v in h.after_files.items()}
        if tree_c != tree_h or sorted(r.after_dirs) != sorted(h.after_dirs):
            r.world = h.world
            if fixpoint_tree(h) != fixpoint_tree(r) and not same_outcome_set(h, r):
                fails.append("c16-cli-tree")
        k = C.Case(c.line + " CLI", "cli rc=%s lines=%d unable=%d" % (r.rc, len(r.counters), r.unable),
                   ("agree " if not fails else "DISAGREE ") + ("prop-ok" if not fails else "PROPFAIL:" + ",".join(fails)) + " cli", tag="cli:" + (h.world.tag or "world"))
        k.result = h
        extra.append(k)
    return cases + extra

PROPS["C05"] = dict(module="TB.Props.C05", theorems=["C05_once", "C05_deadlock_free", "C05_final", "C05_measure_decreases", "C05_terminates"],
                    # a threaded run must satisfy the guarantees of a single-threaded one: the run-level clauses count here
                    clauses=["c05-", "c16-", "c01-", "c02-", "c04-", "c12-", "c13-", "c15-"],
                    worlds=lambda t, s: [gen_exec_world(Rng(s, "c05", i), i) for i in range(300 if t == "quick" else 6000)]
                                        + [gen_fs_sched_world(Rng(s, "c05-fs", i), i) for i in range(200 if t == "quick" else 4000)]
                                        + [W.gen_world_same_dir_many_files(Rng(s, "c05-dir", i)) for i in range(24 if t == "quick" else 400)]
                                        + [with_threads(W.gen_world_c16(Rng(s, "c05-huge", i), 9), [1, 2, 1, 3][i % 4]) for i in range(16 if t == "quick" else 160)]
                                        + [W.gen_world_wide_piece(Rng(s, "c05-wide", i)) for i in range(4 if t == "quick" else 40)],
                    runner=run_exec_cases)
