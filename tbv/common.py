"""Shared machinery of /verif/check: builds, audit, line-protocol plumbing, verdicts, evidence."""
import fcntl, hashlib, json, os, re, subprocess, sys, threading, time, queue, shutil

VERIF = os.path.dirname(os.path.dirname(os.path.abspath(__file__)))
LEAN = os.path.join(VERIF, "lean", "TB")
HARNESS = os.path.join(VERIF, "harness")
CACHE = os.path.join(VERIF, ".cache")
TBMODEL = os.path.join(LEAN, ".lake", "build", "bin", "tbmodel")
TBH = os.path.join(CACHE, "harness-target", "verif", "tbh")
REPO = "/repo"
GUARD = "lbfs_torrent_bootstrap_verif"
ALLOWED_AXIOMS = {"propext", "Classical.choice", "Quot.sound"}
NCPU = os.cpu_count() or 4

def log(*a):
    print(*a, file=sys.stderr, flush=True)

class Lock:
    def __init__(self, name):
        os.makedirs(CACHE, exist_ok=True)
        self.path = os.path.join(CACHE, name + ".lock")
    def __enter__(self):
        self.f = open(self.path, "w")
        fcntl.flock(self.f, fcntl.LOCK_EX)
    def __exit__(self, *a):
        fcntl.flock(self.f, fcntl.LOCK_UN)
        self.f.close()

# ---------------------------------------------------------------- builds

def sh(cmd, cwd=None, env=None, timeout=None):
    e = dict(os.environ)
    if env:
        e.update(env)
    p = subprocess.run(cmd, cwd=cwd, env=e, stdout=subprocess.PIPE, stderr=subprocess.STDOUT, text=True, timeout=timeout)
    return p.returncode, p.stdout

def lean_build(targets, clean_modules=()):
    """lake build of the given targets; returns (ok, output). clean_modules: module names whose .olean are
    removed first (thorough tier: forces re-elaboration and a fresh kernel check)."""
    with Lock("lake"):
        for m in clean_modules:
            base = os.path.join(LEAN, ".lake", "build", "lib", "lean", *m.split("."))
            for ext in (".olean", ".ilean", ".trace", ".olean.hash", ".ilean.hash"):
                try:
                    os.remove(base + ext)
                except FileNotFoundError:
                    pass
        rc, out = sh(["lake", "build"] + list(targets), cwd=LEAN, timeout=3600)
    return rc == 0, out

def lean_run(path_or_code, is_code=False, timeout=1800):
    """elaborate a scratch Lean file inside the project environment; returns (rc, output)"""
    if is_code:
        os.makedirs(CACHE, exist_ok=True)
        p = os.path.join(CACHE, "scratch_%d_%d.lean" % (os.getpid(), threading.get_ident()))
        with open(p, "w") as f:
            f.write(path_or_code)
    else:
        p = path_or_code
    try:
        return sh(["lake", "env", "lean", p], cwd=LEAN, timeout=timeout)
    finally:
        if is_code:
            try:
                os.remove(p)
            except OSError:
                pass

FORBIDDEN = re.compile(r"\bsorry\b|\badmit\b|^\s*axiom\s|native_decide|bv_decide|implemented_by|\bunsafe\s|maxHeartbeats\s+0|^\s*@\[extern")

def strip_comments(src):
    # remove /- ... -/ (nested) and -- comments
    out = []
    i, depth, n = 0, 0, len(src)
    while i < n:
        if src.startswith("/-", i):
            depth += 1; i += 2; continue
        if depth and src.startswith("-/", i):
            depth -= 1; i += 2; continue
        if depth:
            if src[i] == "\n":
                out.append("\n")
            i += 1; continue
        if src.startswith("--", i):
            while i < n and src[i] != "\n":
                i += 1
            continue
        out.append(src[i]); i += 1
    return "".join(out)

def import_closure(modules):
    """project files (TB.*, Main) reachable from the given modules through `import` lines"""
    seen, todo = set(), list(modules)
    while todo:
        m = todo.pop()
        if m in seen:
            continue
        path = os.path.join(LEAN, *m.split(".")) + ".lean"
        if not os.path.exists(path):
            continue
        seen.add(m)
        for line in open(path):
            mm = re.match(r"\s*import\s+(TB(?:\.[A-Za-z0-9_]+)*)\s*$", line)
            if mm:
                todo.append(mm.group(1))
    return seen

def source_audit(modules=None):
    """grep the Lean sources a property depends on (its theorem module, the driver, and everything they import)
    for constructs that would void a proof; returns list of hits"""
    hits = []
    mods = import_closure(list(modules or []) + ["Main"]) if modules else None
    for root, _, files in os.walk(LEAN):
        if ".lake" in root:
            continue
        for fn in files:
            if not fn.endswith(".lean"):
                continue
            p = os.path.join(root, fn)
            if mods is not None:
                rel = os.path.relpath(p, LEAN)[:-5].replace(os.sep, ".")
                if rel not in mods:
                    continue
            code = strip_comments(open(p).read())
            for ln, line in enumerate(code.split("\n"), 1):
                if FORBIDDEN.search(line):
                    hits.append("%s:%d: %s" % (os.path.relpath(p, LEAN), ln, line.strip()))
    return hits

def axiom_audit(module, theorems):
    """#print axioms for each theorem; returns dict name -> (ok, axioms or error text)"""
    code = "import %s\nopen TB%s\n" % (module, " TB.Exec" if module.endswith(".C05") else "") + "".join("#print axioms %s\n" % t for t in theorems)
    rc, out = lean_run(code, is_code=True)
    res = {}
    # output blocks: "'TB.name' depends on axioms: [a, b]" or "'TB.name' does not depend on any axioms"
    flat = re.sub(r"\s+", " ", out)
    for t in theorems:
        m = re.search(r"'(?:TB\.(?:Exec\.)?)?%s' (does not depend on any axioms|depends on axioms: \[([^\]]*)\])" % re.escape(t), flat)
        if not m:
            res[t] = (False, "no #print axioms output (rc=%d): %s" % (rc, out.strip()[:400]))
            continue
        axs = [] if m.group(2) is None else [a.strip() for a in m.group(2).split(",") if a.strip()]
        bad = [a for a in axs if a not in ALLOWED_AXIOMS]
        res[t] = (not bad, axs)
    return res

def harness_build(with_bin=False):
    """cargo build of the harness against /repo's current working tree with the hook cfg on"""
    with Lock("cargo"):
        env = {"RUSTFLAGS": "--cfg " + GUARD, "CARGO_NET_OFFLINE": "true", "CARGO_TARGET_DIR": os.path.join(CACHE, "harness-target")}
        rc, out = sh(["cargo", "build", "--profile", "verif"], cwd=HARNESS, env=env, timeout=3600)
        if rc != 0:
            return False, out
        if with_bin:
            rc, out2 = sh(["cargo", "build", "--offline", "--manifest-path", os.path.join(REPO, "Cargo.toml"),
                           "--target-dir", os.path.join(CACHE, "repo-target")], env={"CARGO_NET_OFFLINE": "true"}, timeout=3600)
            out += out2
    return rc == 0, out

REPO_BIN = os.path.join(CACHE, "repo-target", "debug", "torrent_bootstrap")

# ---------------------------------------------------------------- line protocol

def _impl_worker(lines, per_case_timeout):
    """feed lines to `tbh lines`; a crash or hang of the process is attributed to the first unanswered case"""
    results = []
    i = 0
    n = len(lines)
    while i < n:
        p = subprocess.Popen([TBH, "lines"], stdin=subprocess.PIPE, stdout=subprocess.PIPE, stderr=subprocess.DEVNULL, text=True, bufsize=1)
        q = queue.Queue()
        def reader(proc=p):
            for ln in proc.stdout:
                q.put(ln.rstrip("\n"))
            q.put(None)
        t = threading.Thread(target=reader, daemon=True); t.start()
        def writer(proc=p, start=i):
            try:
                for ln in lines[start:]:
                    proc.stdin.write(ln + "\n")
                proc.stdin.close()
            except (BrokenPipeError, ValueError, OSError):
                pass
        w = threading.Thread(target=writer, daemon=True); w.start()
        died = None
        while i < n:
            try:
                r = q.get(timeout=per_case_timeout)
            except queue.Empty:
                died = "timeout"; break
            if r is None:
                died = "abort"; break
            results.append(r); i += 1
        if died is not None and i < n:
            p.kill(); p.wait()
            results.append(lines[i] + " | " + died); i += 1
        else:
            p.wait()
    return results

def run_impl(lines, per_case_timeout=5.0, jobs=None):
    """returns list of '<line> | <obs>' in input order"""
    if not lines:
        return []
    jobs = jobs or min(NCPU, max(1, len(lines) // 200))
    chunks = [lines[k::jobs] for k in range(jobs)]
    outs = [None] * jobs
    def work(k):
        outs[k] = _impl_worker(chunks[k], per_case_timeout)
    ths = [threading.Thread(target=work, args=(k,)) for k in range(jobs)]
    for t in ths: t.start()
    for t in ths: t.join()
    res = [None] * len(lines)
    for k in range(jobs):
        for j, r in enumerate(outs[k]):
            res[k + j * jobs] = r
    return res

def run_model(obs_lines, jobs=None):
    """pipes '<line> | <obs>' lines to tbmodel; returns list of answer strings"""
    if not obs_lines:
        return []
    jobs = jobs or min(NCPU, max(1, len(obs_lines) // 200))
    chunks = [obs_lines[k::jobs] for k in range(jobs)]
    outs = [None] * jobs
    def work(k):
        # unlimited stack: the model's recursion depth is linear in the nesting depth of the input
        p = subprocess.run(["sh", "-c", "ulimit -s unlimited 2>/dev/null; exec " + TBMODEL], input="\n".join(chunks[k]) + "\n", stdout=subprocess.PIPE, stderr=subprocess.PIPE, text=True)
        o = p.stdout.split("\n")
        if o and o[-1] == "":
            o.pop()
        if len(o) != len(chunks[k]):
            raise RuntimeError("tbmodel answered %d lines for %d requests (rc=%s): %s" % (len(o), len(chunks[k]), p.returncode, p.stderr[:500]))
        outs[k] = o
    ths = [threading.Thread(target=work, args=(k,)) for k in range(jobs)]
    errs = []
    def safe(k):
        try:
            work(k)
        except Exception as e:
            errs.append(e)
    ths = [threading.Thread(target=safe, args=(k,)) for k in range(jobs)]
    for t in ths: t.start()
    for t in ths: t.join()
    if errs:
        raise errs[0]
    res = [None] * len(obs_lines)
    for k in range(jobs):
        for j, r in enumerate(outs[k]):
            res[k + j * jobs] = r
    return res

class Case:
    __slots__ = ("line", "obs", "agree", "fails", "model", "tag", "result", "base")
    def __init__(self, line, obs, answer, tag=None):
        self.line = line; self.obs = obs; self.tag = tag
        parts = answer.split(" ", 2)
        self.agree = parts[0] == "agree"
        self.fails = [] if len(parts) < 2 or parts[1] == "prop-ok" else parts[1].split(":", 1)[1].split(",") if parts[1].startswith("PROPFAIL:") else ["bad-answer:" + answer[:80]]
        if parts[0] not in ("agree", "DISAGREE"):
            self.fails = ["bad-answer:" + answer[:80]]
        self.model = parts[2] if len(parts) > 2 else ""

def differential(lines, tags=None, per_case_timeout=5.0):
    """run implementation and model on the request lines; returns list of Case"""
    obs_lines = run_impl(lines, per_case_timeout)
    answers = run_model(obs_lines)
    cases = []
    for idx, (ol, ans) in enumerate(zip(obs_lines, answers)):
        line, _, obs = ol.partition(" | ")
        cases.append(Case(line, obs, ans, tags[idx] if tags else None))
    return cases

# ---------------------------------------------------------------- prng

MASK = (1 << 64) - 1
def splitmix64(x):
    x = (x + 0x9E3779B97F4A7C15) & MASK
    z = x
    z = ((z ^ (z >> 30)) * 0xBF58476D1CE4E5B9) & MASK
    z = ((z ^ (z >> 27)) * 0x94D049BB133111EB) & MASK
    return z ^ (z >> 31)

class Rng:
    """every random choice of a case derives from (seed, stream, case index)"""
    def __init__(self, seed, stream, index=0):
        h = int.from_bytes(hashlib.sha256(("%d/%s/%d" % (seed, stream, index)).encode()).digest()[:8], "big")
        self.s = h
    def next(self):
        self.s = (self.s + 0x9E3779B97F4A7C15) & MASK
        return splitmix64(self.s)
    def below(self, n):
        return self.next() % n if n > 0 else 0
    def range(self, a, b):
        return a + self.below(b - a + 1)
    def chance(self, num, den):
        return self.below(den) < num
    def choice(self, xs):
        return xs[self.below(len(xs))]
    def bytes(self, n):
        return bytes(self.below(256) for _ in range(n))
    def shuffle(self, xs):
        xs = list(xs)
        for i in range(len(xs) - 1, 0, -1):
            j = self.below(i + 1)
            xs[i], xs[j] = xs[j], xs[i]
        return xs

def hx(b):
    return b.hex() if b else "-"
