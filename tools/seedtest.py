#!/usr/bin/env python3
"""Evaluate a seeded breaking change.

  tools/seedtest.py confirm <worktree> <sid>     copy seed/ of the worktree to /verif/seeded/<sid>/ and confirm, in that scratch
                                                 worktree, that the 87 tests pass with the change and that the demonstration
                                                 fails with it and passes without it
  tools/seedtest.py detect <sid> [Cnn ...]       apply /verif/seeded/<sid>/patch.diff to /repo, run the quick checks (all claimed
                                                 properties by default), undo the patch, record which checks raise a VIOLATION
"""
import json, os, re, shutil, subprocess, sys, time

VERIF = os.path.dirname(os.path.dirname(os.path.abspath(__file__)))

def sh(cmd, cwd=None, timeout=3600, env=None):
    e = dict(os.environ); e.update(env or {})
    p = subprocess.run(cmd, cwd=cwd, shell=isinstance(cmd, str), stdout=subprocess.PIPE, stderr=subprocess.STDOUT, text=True, timeout=timeout, env=e)
    return p.returncode, p.stdout

def confirm(wt, sid):
    dst = os.path.join(VERIF, "seeded", sid)
    os.makedirs(dst, exist_ok=True)
    src = os.path.join(wt, "seed")
    shutil.copy(os.path.join(src, "patch.diff"), dst)
    if os.path.isdir(os.path.join(dst, "demo")):
        shutil.rmtree(os.path.join(dst, "demo"))
    shutil.copytree(os.path.join(src, "demo"), os.path.join(dst, "demo"))
    meta = json.load(open(os.path.join(src, "meta.json")))
    env = {"CARGO_TARGET_DIR": os.path.join(wt, "target"), "CARGO_NET_OFFLINE": "true"}
    ran = []
    # state: change applied (as the agent left it)
    rc, out = sh("git diff --stat -- src", cwd=wt); ran.append(("git diff --stat -- src", out.strip()[-300:]))
    rc, out = sh("cargo test --offline --lib 2>&1 | grep -E '^test result' | head -1", cwd=wt, env=env)
    lib_with = out.strip(); ran.append(("cargo test --offline --lib (with change)", lib_with))
    demo_cmd = open(os.path.join(src, "demo", "RUN.txt")).read().strip().split("\n")[0]
    demo_cmd = re.sub(r"\s{2,}\(.*$", "", demo_cmd)          # drop a trailing parenthetical remark
    if os.path.exists(os.path.join(src, "demo", "demo.rs")) and not os.path.exists(os.path.join(wt, "tests", "demo.rs")):
        os.makedirs(os.path.join(wt, "tests"), exist_ok=True)
        shutil.copy(os.path.join(src, "demo", "demo.rs"), os.path.join(wt, "tests", "demo.rs"))
    rc_with, out_with = sh(demo_cmd, cwd=wt, env=env)
    ran.append(("demo with change: " + demo_cmd, "rc=%d %s" % (rc_with, out_with.strip()[-400:])))
    # state: change removed
    # (no `git stash`: the stash is shared by all worktrees of a repository)
    tmp_patch = os.path.join(wt, "target", "seedtest-current.patch")
    os.makedirs(os.path.dirname(tmp_patch), exist_ok=True)
    sh("git diff -- src > %s" % tmp_patch, cwd=wt)
    sh("git apply -R %s" % tmp_patch, cwd=wt)
    try:
        rc_without, out_without = sh(demo_cmd, cwd=wt, env=env)
        ran.append(("demo without change", "rc=%d %s" % (rc_without, out_without.strip()[-300:])))
    finally:
        sh("git apply %s" % tmp_patch, cwd=wt)
    ok = ("87 passed" in lib_with) and rc_with != 0 and rc_without == 0
    meta["confirmed"] = ok
    meta["confirmation"] = [{"cmd": c, "outcome": o} for c, o in ran]
    json.dump(meta, open(os.path.join(dst, "meta.json"), "w"), indent=1)
    print("confirmed" if ok else "NOT CONFIRMED", sid, "| tests:", lib_with, "| demo with change rc=%s, without rc=%s" % (rc_with, rc_without))
    return ok

def claimed():
    m = json.load(open(os.path.join(VERIF, "MANIFEST.json")))
    return [c["property_id"] for c in m["checks"]]

def detect(sid, props):
    dst = os.path.join(VERIF, "seeded", sid)
    patch = os.path.join(dst, "patch.diff")
    rc, out = sh("git -C /repo status --porcelain")
    if out.strip():
        print("refusing: /repo has uncommitted changes:\n" + out); return 2
    rc, out = sh(["git", "-C", "/repo", "apply", patch])
    if rc != 0:
        print("patch does not apply: " + out); return 2
    results = {}
    try:
        for p in props or claimed():
            t = time.time()
            rc, out = sh(["./check", p, "--tier", "quick"], cwd=VERIF, timeout=1800)
            v = [l for l in out.split("\n") if l.startswith("VIOLATION")]
            results[p] = {"rc": rc, "violation": v[0] if v else None, "wall_s": round(time.time() - t, 1)}
            print(p, "rc=%d" % rc, (v[0][:160] if v else ""))
            if v:
                m = re.search(r"replay=(\S+)", v[0])
                if m and os.path.exists(m.group(1)):
                    shutil.copy(m.group(1), os.path.join(dst, "replay-%s.json" % p))
    finally:
        sh("git -C /repo checkout -- .")
        rc, out = sh("git -C /repo status --porcelain")
        if out.strip():
            print("WARNING /repo not clean after undo:\n" + out)
    meta_p = os.path.join(dst, "meta.json")
    meta = json.load(open(meta_p)) if os.path.exists(meta_p) else {}
    meta.setdefault("detection", {}).update(results)
    meta["detected_by"] = sorted(p for p, r in meta["detection"].items() if r["violation"])
    json.dump(meta, open(meta_p, "w"), indent=1)
    print("detected by:", meta["detected_by"])
    return 0

if __name__ == "__main__":
    if sys.argv[1] == "confirm":
        sys.exit(0 if confirm(sys.argv[2], sys.argv[3]) else 1)
    if sys.argv[1] == "detect":
        sys.exit(detect(sys.argv[2], sys.argv[3:]))
